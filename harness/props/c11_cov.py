"""C11, coverage extension (called by props/c11.py as part(R, ctx); R is c11.Runner).

Input classes and call sequences that the original streams of c11.py did not draw (see /verif/work/coverage_C11.md):
  * count / float fingerprints with explicit zero, negative, large and non-dyadic counts, in every operator form;
  * operands of other provenance (class constructor, from_fingerprint copy, pickle round trip, numpy keys/values,
    operands that carry a fold cache);
  * the same OBJECT on both sides (a op a, a op= a) and several times in one batch;
  * scalars of other numeric types (numpy ints, integral floats), large scalars, the explicit __div__/__idiv__ calls;
  * a deterministic grid of length mismatches (every operator form x kinds x which side is longer x empty/non-empty);
  * operands of different classes (bit with count/float: the base-class set operators accept them, + and - of a count
    fingerprint reject a bit fingerprint);
  * batches given as tuples, weights as tuples / numpy arrays / integers, positional call, zero and negative weights
    with non-zero (also negative) sum, members with negative and zero counts, deterministic edge cases;
  * the public helpers sum_counts_dict and diff_counts_dict (plain, weighted, only_positive; keyword and positional),
    compared with the model's wsum / cmap_pointwise (the functions the batch / count theorems are about);
  * chains: a pool of objects on which a sequence of operators, scalar operators and batch calls is run, results fed
    back as operands (stale index arrays, explicit zeros, level -1), every pool member re-observed after every step.
Everything is compared with Model/Fprint.v from the observed operands, exactly as the original cases."""
import pickle
from fractions import Fraction
import numpy as np
import core
import fpgen
from fpgen import obs, lit, attempt

TOL = '(Qmake 1 1000000000)'
VIAS = ('ctor', 'copy', 'pickle', 'npkeys', 'hasfold')
XTYPES = {'int': int, 'np.int64': np.int64, 'np.int32': np.int32, 'np.uint8': np.uint8, 'float': float,
          'np.float64': np.float64}
XT_MAX = {'np.int32': 2 ** 31 - 1, 'np.uint8': 255}
WTYPES = ('floats', 'tuple', 'ndarray', 'npfloats', 'ints', 'ndarray_int')


# --------------------------------------------------------------------------- operands
def build_via(spec):
    """Equal-valued object built another way than fpgen.build (spec['via'])."""
    via = spec['via']
    C = fpgen.classes()[spec['kind']]
    kw = {'bits': spec['bits'], 'level': spec.get('level', -1)}
    if spec.get('name'):
        kw['name'] = spec['name']
    if via == 'ctor':           # the class itself, python lists / dicts, keyword arguments
        if spec['kind'] == 'KBit' or 'cnt' not in spec:
            idx = [int(i) for i in spec['idx']]
            return C(list(reversed(idx)), **kw)
        cnt = {int(k): (float(v) if spec['kind'] == 'KFloat' else int(v)) for k, v in spec['cnt'].items()}
        return C(indices=list(reversed(sorted(cnt))), counts=cnt, **kw)
    if via == 'npkeys':         # numpy integer keys and numpy values
        if spec['kind'] == 'KBit' or 'cnt' not in spec:
            return C.from_indices(np.array(spec['idx'], dtype=np.uint32 if all(0 <= i < 2 ** 32 for i in spec['idx']) else np.int64), **kw)
        vt = np.float64 if spec['kind'] == 'KFloat' else np.int64
        return C.from_counts({np.int64(k): vt(float(v) if spec['kind'] == 'KFloat' else int(v)) for k, v in spec['cnt'].items()}, **kw)
    base = fpgen.build({k: v for k, v in spec.items() if k != 'via'})
    if via == 'copy':
        return C.from_fingerprint(base)
    if via == 'pickle':
        return pickle.loads(pickle.dumps(base))
    if via == 'hasfold':        # the operand has been folded before: it carries a cache of folded fingerprints
        try:
            if spec['bits'] >= 2:
                base.fold(bits=spec['bits'] // 2)
        except Exception:  # noqa
            pass
        return base
    raise ValueError('unknown via %r' % via)


def _cnt_values(spec):
    return [Fraction(v) for v in spec.get('cnt', {}).values()]


def rand_spec2(rng, kind, bits, like=None, flavour=None, via=True):
    """fpgen.rand_spec with other count values (flavour) and another provenance."""
    sp = fpgen.rand_spec(rng, kind=kind, bits=bits, like=like)
    if kind != 'KBit':
        keys = sorted(set(sp.get('idx') or sp.get('cnt', {}).keys()))
        flavour = flavour or rng.choice(['zeros', 'neg', 'big', 'odd', 'mixed', 'plain'])
        if flavour != 'plain':
            sp.pop('idx', None)
            if kind == 'KCount':
                pool = {'zeros': [0, 0, 1, 2], 'neg': [-200, -7, -2, -1, 1, 3], 'big': [65535, 65536, 2 ** 31 - 1, 2 ** 31, 10 ** 9],
                        'odd': [1, 255, 256, 257, 32767, 32768], 'mixed': [-3, -1, 0, 1, 2, 7]}[flavour]
                sp['cnt'] = {k: rng.choice(pool) for k in keys}
            else:
                pool = {'zeros': [0.0, 0.0, 0.5, 2.0], 'neg': [-250.0, -2.5, -0.125, 1.0, 3.5], 'big': [65536.0, 2.0 ** 31, 2.0 ** 40 + 0.5],
                        'odd': [0.1, 2.7, 1.0 / 3, 1e-3, 1234.5678], 'mixed': [-0.3, -1.0, 0.0, 0.1, 2.0, 7.25]}[flavour]
                sp['cnt'] = {k: Fraction(rng.choice(pool)) for k in keys}
        sp['flavour'] = flavour
    if via and rng.random() < 0.5:
        v = rng.choice(VIAS)
        if v == 'copy' and any(x <= 0 for x in _cnt_values(sp)):
            v = 'pickle'          # from_fingerprint drops non-positive counts: the operand would not have the intended value
        sp['via'] = v
    return sp


def maxabs(o):
    return max([abs(v) for _, v in o['cnt']] or [0])


def dyadic_safe(o):
    """int(v / x) is decided identically in double and in exact arithmetic: small denominators, moderate size."""
    return all(v.denominator <= 2 ** 16 and abs(v) < 2 ** 30 for _, v in o['cnt'])


def pick_scalar(rng, o, form):
    """positive integer scalar (0 as well for the divisions) and a numeric type for it; products stay exact in double."""
    xs = [1, 2, 3, 4, 7, 10, 250, 1000003, 2 ** 31]
    if 'div' in form:
        xs = xs + [0]
    m = maxabs(o)
    lim = 2 ** 50 if o['kind'] == 'KCount' else 2 ** 45
    xs = [x for x in xs if m * max(x, 1) < lim] or [1]
    x = rng.choice(xs)
    xt = rng.choice(['int', 'int', 'np.int64', 'np.int32', 'np.uint8', 'float', 'np.float64'])
    if x > XT_MAX.get(xt, x):
        xt = 'np.int64'
    if x == 0 and xt.startswith('np.'):
        # zero is outside the quantifier (positive integer scalars); it is kept for / and // as the error path, with Python numbers
        # only: a NumPy zero makes `v / x` inf or nan instead of raising, so the error class depends on the counts
        xt = rng.choice(['int', 'float'])
    if form == 'rmul' and xt.startswith('np.') and o['bits'] > NUMPY_LEFT_MAX_BITS:
        # a NumPy scalar on the LEFT makes NumPy walk the fingerprint through __len__/__getitem__ (bits + 2 calls) before it gives
        # up and Python calls __rmul__: hours at 2^32.  Reported by count_sequence_walk below on lengths where it can be afforded.
        xt = rng.choice(['int', 'float'])
    return x, xt


NUMPY_LEFT_MAX_BITS = 4096
KEY_NUMPY_LEFT = 'C11:numpy-scalar-times-fingerprint-walks-length'


def count_sequence_walk(a, action):
    """Run `action` and count how often the sequence protocol (__getitem__) of a's class hierarchy is entered meanwhile.
    In-memory instrumentation of the imported classes, undone before returning."""
    from e3fp.fingerprint.fprint import Fingerprint, CountFingerprint
    calls = [0]
    saved = [(cls, cls.__dict__['__getitem__']) for cls in (Fingerprint, CountFingerprint) if '__getitem__' in cls.__dict__]

    def wrap(orig):
        def g(self, key):
            calls[0] += 1
            return orig(self, key)
        return g
    try:
        for cls, orig in saved:
            setattr(cls, '__getitem__', wrap(orig))
        r = attempt(action)
    finally:
        for cls, orig in saved:
            setattr(cls, '__getitem__', orig)
    return r, calls[0]


# --------------------------------------------------------------------------- sum_counts_dict / diff_counts_dict
def _cmaplit(pairs):
    return core.listlit(['(%s, %s)' % (core.zlit(k), core.qlit(v)) for k, v in pairs])


def _obs_dict(d):
    return sorted((int(k), fpgen.fr(v)) for k, v in d.items())


def counts_sum(R, specs, ws, order=None, wtype='floats'):
    """sum_counts_dict(*fps[, weights=ws]) against cbuild (all_keys l) (wsum l ws)."""
    import e3fp.fingerprint.fprint as FP
    rp = {'type': 'counts_sum', 'specs': [fpgen.spec_to_json(s) for s in specs], 'ws': None if ws is None else [str(w) for w in ws],
          'order': order, 'wtype': wtype}
    built = [R.build(s) for s in specs]
    fps = built if order is None else [built[i] for i in order]
    obss = [obs(f) for f in fps]
    fws, wq = conv_weights(ws, wtype)
    r = attempt(lambda: FP.sum_counts_dict(*fps) if ws is None else FP.sum_counts_dict(*fps, weights=fws))
    pl = {'op': 'sum_counts_dict', 'fps': [fpgen.obs_json(o) for o in obss], 'weights': None if ws is None else [str(w) for w in wq], 'replay': rp}
    if [obs(f) for f in fps] != obss:
        R.fail('operand changed by sum_counts_dict', pl, 'operand-mutated:sum_counts_dict')
    if r[0] != 'ok':
        return R.fail('sum_counts_dict raised %s' % r[1], pl, 'op:sum_counts_dict')
    try:
        got = _obs_dict(r[1])
    except (ValueError, OverflowError, TypeError) as e:
        return R.fail('sum_counts_dict: result cannot be observed (%s): %r' % (e, r[1]), pl, 'op:sum_counts_dict')
    L = core.listlit([lit(o) for o in obss])
    W = '(ones (length %s))' % L if ws is None else core.listlit([core.qlit(w) for w in wq])
    m = 'cbuild (all_keys %s) (wsum %s %s)' % (L, L, W)
    key = 'sumd/%d' % len(R.cases)
    pl['impl'] = [[k, str(v)] for k, v in got]
    R.add_case(key, 'cmap_close %s (%s) %s' % (TOL, m, _cmaplit(got)), pl, m)
    R.ctx.count(('sumd', str(obss), str(ws), str(order)), len(fps) > 1 and any(o['idx'] for o in obss))
    R.dist['sum_counts_dict'] += 1


def counts_diff(R, sa, sb, only_positive, style='kw', alias=False):
    """diff_counts_dict(a, b[, only_positive]) against cmap_pointwise Qminus; with only_positive the negative entries are
    dropped (drawn only for left operands without negative counts, where 'thresholded to 0' has one reading)."""
    import e3fp.fingerprint.fprint as FP
    rp = {'type': 'counts_diff', 'sa': fpgen.spec_to_json(sa), 'sb': fpgen.spec_to_json(sb), 'only_positive': only_positive,
          'style': style, 'alias': alias}
    a = R.build(sa)
    b = a if alias else R.build(sb)
    oa, ob = obs(a), obs(b)
    if style == 'default':
        r = attempt(lambda: FP.diff_counts_dict(a, b))
    elif style == 'pos':
        r = attempt(lambda: FP.diff_counts_dict(a, b, only_positive))
    else:
        r = attempt(lambda: FP.diff_counts_dict(a, b, only_positive=only_positive))
    pl = {'op': 'diff_counts_dict', 'a': fpgen.obs_json(oa), 'b': fpgen.obs_json(ob), 'only_positive': only_positive, 'replay': rp}
    if obs(a) != oa or obs(b) != ob:
        R.fail('operand changed by diff_counts_dict', dict(pl, a_after=fpgen.obs_json(obs(a)), b_after=fpgen.obs_json(obs(b))),
               'operand-mutated:diff_counts_dict')
    if r[0] != 'ok':
        return R.fail('diff_counts_dict raised %s' % r[1], pl, 'op:diff_counts_dict')
    try:
        got = _obs_dict(r[1])
    except (ValueError, OverflowError, TypeError) as e:
        return R.fail('diff_counts_dict: result cannot be observed (%s): %r' % (e, r[1]), pl, 'op:diff_counts_dict')
    m = 'cmap_pointwise Qminus (counts_of %s) (counts_of %s)' % (lit(oa), lit(ob))
    if only_positive and style != 'default':
        m = 'filter (fun kv => Qle_bool 0 (snd kv)) (%s)' % m
    key = 'diffd/%d' % len(R.cases)
    pl['impl'] = [[k, str(v)] for k, v in got]
    R.add_case(key, 'cmap_close %s (%s) %s' % (TOL, m, _cmaplit(got)), pl, m)
    R.ctx.count(('diffd', str(oa), str(ob), only_positive, alias), bool(oa['idx']) and bool(ob['idx']))
    R.dist['diff_counts_dict'] += 1


def conv_weights(ws, wtype):
    """(value handed to the implementation, exact rationals of what was handed over)."""
    if ws is None:
        return None, None
    if wtype in ('ints', 'ndarray_int'):
        iv = [int(w) for w in ws]
        return (iv if wtype == 'ints' else np.array(iv, dtype=np.int64)), [Fraction(v) for v in iv]
    fv = [float(w) for w in ws]
    wq = [Fraction(v) for v in fv]
    if wtype == 'tuple':
        return tuple(fv), wq
    if wtype == 'ndarray':
        return np.array(fv, dtype=float), wq
    if wtype == 'npfloats':
        return [np.float64(v) for v in fv], wq
    return fv, wq


# --------------------------------------------------------------------------- chains
def chain(R, specs, nsteps, rng=None, recorded=None):
    """A pool of objects; every step applies an operator / scalar operator / batch call to pool members and appends the
    result to the pool.  Each step is compared with the model from the observed operands; after each step every pool
    member is observed again (nothing but the new result may have changed)."""
    from e3fp.fingerprint.fprint import Fingerprint
    sj = [fpgen.spec_to_json(s) for s in specs]
    pool = [R.build(s) for s in specs]
    pobs = [obs(o) for o in pool]
    steps = []
    for t in range(nsteps if recorded is None else len(recorded)):
        live = [i for i, o in enumerate(pool) if o is not None]
        if recorded is not None:
            st = recorded[t]
            if any(pool[i] is None for i in _step_refs(st)):
                print('chain replay: step %d refers to a result that does not exist on this tree' % t)
                break
        else:
            st = _gen_step(rng, pool, pobs, live, R)
        steps.append(st)
        rp = {'type': 'chain', 'specs': sj, 'steps': [list(s) for s in steps]}
        R.last = None
        if st[0] == 'bin':
            R.binop_objs('ch', pool[st[1]], pool[st[2]], st[3], rp)
        elif st[0] == 'sc':
            R.scalar_objs(pool[st[1]], st[2], st[3], st[4], rp)
        else:
            ws = None if st[2] is None else [Fraction(w) for w in st[2]]
            R.batch_objs([pool[i] for i in st[1]], ws, st[3], rp, st[4], st[5], st[6])
        res = R.last if isinstance(R.last, Fingerprint) else None
        for i in live:
            if obs(pool[i]) != pobs[i]:
                R.fail('an object not involved as the result changed during step %d of a chain (%s)' % (t, st[0]),
                       {'member': i, 'before': fpgen.obs_json(pobs[i]), 'after': fpgen.obs_json(obs(pool[i])), 'step': list(st), 'replay': rp},
                       'operand-mutated:chain')
                pobs[i] = obs(pool[i])
        try:
            ro = obs(res) if res is not None else None
        except (ValueError, OverflowError):
            res, ro = None, None
        pool.append(res)
        pobs.append(ro)
        R.dist['chain_steps'] += 1
    R.dist['chains'] += 1


def _step_refs(st):
    return [st[1], st[2]] if st[0] == 'bin' else [st[1]] if st[0] == 'sc' else list(st[1])


def _gen_step(rng, pool, pobs, live, N):     # N: the Runner (operator form tables)
    r = rng.random()
    countlike = [i for i in live if pobs[i]['kind'] != 'KBit']
    if r < 0.55 or not countlike:
        i = rng.choice(live)
        j = i if rng.random() < 0.15 else rng.choice(live)
        return ('bin', i, j, rng.choice(N.BIN_FORMS))
    if r < 0.8:
        i = rng.choice(countlike)
        form = rng.choice(N.SCALAR_ALL)
        if 'floordiv' in form and not dyadic_safe(pobs[i]):
            form = 'mul'
        x, xt = pick_scalar(rng, pobs[i], form)
        if pobs[i]['kind'] == 'KFloat' and maxabs(pobs[i]) * max(x, 1) > 10 ** 4 and 'mul' in form:
            x = 1
        return ('sc', i, x, form, xt)
    n = rng.choice([1, 2, 2, 3, 4])
    mem = [rng.choice(live) for _ in range(n)]
    ints_only = all(pobs[i]['kind'] != 'KFloat' for i in mem)
    small = all(maxabs(pobs[i]) <= 10 ** 4 for i in mem)
    ws = None
    if small and rng.random() < 0.5:
        ws = [str(Fraction(rng.choice([-1, 0, 1, 1, 2, 3]), rng.choice([1, 2]))) for _ in range(n)]
    elif not small and not ints_only:
        mem = [i for i in mem if maxabs(pobs[i]) <= 10 ** 4] or [rng.choice([i for i in live if maxabs(pobs[i]) <= 10 ** 4] or live[:1])]
    wtype = 'floats'
    if ws is not None:
        wtype = rng.choice(['floats', 'tuple', 'ndarray', 'npfloats'])
    return ('batch', mem, ws, rng.choice(['add', 'mean']), rng.choice(['list', 'tuple']), wtype, rng.choice(['kw', 'pos']))


# --------------------------------------------------------------------------- the streams
def part(R, ctx):
    N = R
    rng = ctx.rng
    dist = R.dist
    KINDS = fpgen.KINDS

    # A. every operator form x kinds x which side is longer x empty / non-empty right operand: always rejected
    for opname in N.BIN_FORMS:
        for ka, kb in (('KBit', 'KBit'), ('KCount', 'KCount'), ('KFloat', 'KFloat'), ('KCount', 'KFloat'), ('KBit', 'KCount')):
            for la, lb in ((16, 8), (8, 16), (2 ** 32, 1024)):
                for fill in ('low', 'empty'):
                    def mk(kind, bits, idx):
                        sp = {'kind': kind, 'bits': bits, 'level': -1}
                        if kind == 'KBit':
                            sp['idx'] = idx
                        else:
                            sp['cnt'] = {i: (Fraction(3, 2) if kind == 'KFloat' else 2) for i in idx}
                        return sp
                    if la == 2 ** 32 and (fill == 'empty' or rng.random() < 0.5):
                        continue
                    sa = mk(ka, la, [1, 5])
                    sb = mk(kb, lb, [] if fill == 'empty' else [2, 5])       # every set position of b is below both lengths
                    R.binop('mm', sa, sb, opname)
                    dist['length_mismatch_grid'] += 1

    # B. operands of different classes (bit with count / float), every form
    for i in range(ctx.n(60, 600)):
        bits = rng.choice([4, 16, 1024, 2 ** 32])
        kc = rng.choice(['KCount', 'KFloat'])
        s1 = fpgen.rand_spec(rng, kind='KBit', bits=bits)
        s2 = rand_spec2(rng, kc, bits, like=s1)
        sa, sb = (s1, s2) if rng.random() < 0.5 else (s2, s1)
        for opname in rng.sample(N.BIN_FORMS, 2):
            R.binop('mk', sa, sb, opname)
            dist['mixed_class_pairs'] += 1

    # C. other count values / provenance, every form (count and float, and count/float mixes); bit operands of other provenance
    for i in range(ctx.n(260, 4000)):
        kind = rng.choice(['KCount', 'KCount', 'KFloat', 'KFloat', 'KBit'])
        bits = rng.choice([1, 2, 7, 8, 12, 16, 64, 1000, 1024, 2 ** 20, 2 ** 32 - 1, 2 ** 32])      # also lengths that are not powers of two
        sa = rand_spec2(rng, kind, bits)
        kb = kind if kind == 'KBit' or rng.random() < 0.75 else rng.choice(['KCount', 'KFloat'])
        sb = rand_spec2(rng, kb, bits, like=sa)
        alias = rng.random() < 0.12
        for opname in rng.sample(N.BIN_FORMS, 2):
            R.binop('v', sa, sb, opname, alias=alias)
            dist['value_classes_pairs'] += 1
            dist['aliased_pairs'] += alias
            for s in (sa, sb):
                if s.get('via'):
                    dist['by_provenance'][s['via']] = dist['by_provenance'].get(s['via'], 0) + 1
                if s.get('flavour'):
                    dist['by_flavour'][s['flavour']] = dist['by_flavour'].get(s['flavour'], 0) + 1
    # the same object on both sides, exhaustively for 3 bits and every form
    for m in range(8):
        idx = [i for i in range(3) if (m >> i) & 1]
        for opname in N.BIN_FORMS:
            R.binop('al3', {'kind': 'KBit', 'bits': 3, 'idx': idx}, None, opname, alias=True)
            dist['aliased_pairs'] += 1
    # extreme positions of the longest length and the degenerate lengths 0 and 1
    edge = [({'kind': 'KBit', 'bits': 2 ** 32, 'idx': [0, 2 ** 31, 2 ** 32 - 1]}, {'kind': 'KBit', 'bits': 2 ** 32, 'idx': [2 ** 31 - 1, 2 ** 31, 2 ** 32 - 1]}),
            ({'kind': 'KCount', 'bits': 2 ** 32, 'cnt': {0: 1, 2 ** 32 - 1: 65535}}, {'kind': 'KCount', 'bits': 2 ** 32, 'cnt': {2 ** 32 - 1: 65535, 2 ** 32 - 2: 1}}),
            ({'kind': 'KBit', 'bits': 0, 'idx': []}, {'kind': 'KBit', 'bits': 0, 'idx': []}),
            ({'kind': 'KCount', 'bits': 0, 'cnt': {}}, {'kind': 'KFloat', 'bits': 0, 'cnt': {}}),
            ({'kind': 'KBit', 'bits': 1, 'idx': [0]}, {'kind': 'KBit', 'bits': 1, 'idx': []}),
            ({'kind': 'KFloat', 'bits': 1, 'cnt': {0: Fraction(1, 2)}}, {'kind': 'KFloat', 'bits': 1, 'cnt': {0: Fraction(1, 2)}})]
    for sa, sb in edge:
        for opname in N.BIN_FORMS:
            R.binop('edge', dict(sa, level=-1), dict(sb, level=-1), opname)
            dist['edge_pairs'] += 1

    # D. scalars: other numeric types, large scalars, explicit __div__ / __idiv__, operands with zero / negative / large counts
    for i in range(ctx.n(260, 4000)):
        kind = rng.choice(['KCount', 'KFloat'])
        sa = rand_spec2(rng, kind, rng.choice([2, 16, 1024, 2 ** 32]))
        o = obs(R.build(sa))
        form = rng.choice(N.SCALAR_ALL)
        if 'floordiv' in form and not dyadic_safe(o):
            form = rng.choice(['mul', 'div', 'rmul'])
        x, xt = pick_scalar(rng, o, form)
        R.scalar(sa, x, form, xt=xt)
        dist['scalar_value_classes'] += 1
        dist['by_scalar_type'][xt] = dist['by_scalar_type'].get(xt, 0) + 1

    # E. batches: containers, weight types, call style, zero / negative weights (non-zero sum of either sign), aliasing,
    #    members with zero / negative counts
    import itertools
    for i in range(ctx.n(260, 4000)):
        n = rng.choice([1, 2, 2, 3, 3, 4, 6])
        bits = rng.choice([4, 16, 1024, 2 ** 32])
        kinds = [rng.choice(KINDS) for _ in range(n)] if rng.random() < 0.5 else [rng.choice(KINDS)] * n
        weighted = rng.random() < 0.6
        wtype = rng.choice(WTYPES) if weighted else 'floats'
        signed = weighted and rng.random() < 0.6
        specs = []
        for k in kinds:
            fl = rng.choice(['zeros', 'neg', 'odd', 'mixed', 'plain'] + ([] if signed else ['big']))
            specs.append(rand_spec2(rng, k, bits, like=specs[0] if specs else None, flavour=fl))
        if any(s.get('flavour') == 'big' for s in specs) and any(s['kind'] == 'KFloat' or s.get('flavour') in ('neg', 'mixed') for s in specs) and weighted:
            # large counts with float or negative members under weights: rounding of the implementation's double sum is not
            # bounded relative to the result; keep the large counts for unweighted / all-integer batches
            for s in specs:
                if s.get('flavour') == 'big':
                    s['cnt'] = {k: (Fraction(3) if s['kind'] == 'KFloat' else 3) for k in s['cnt']}
        order = None
        if n >= 2 and rng.random() < 0.3:
            order = [rng.randrange(n) for _ in range(n + rng.choice([0, 1]))]      # the same object several times
            dist['batch_aliased'] += 1
        m = n if order is None else len(order)
        ws = None
        if weighted:
            if wtype in ('ints', 'ndarray_int'):
                ws = [Fraction(rng.choice([-2, -1, 0, 1, 1, 2, 3, 5] if signed else [0, 1, 1, 2, 3, 5])) for _ in range(m)]
            else:
                ws = [Fraction(rng.choice([-3, -1, 0, 1, 1, 2, 3, 5] if signed else [0, 1, 1, 2, 3, 5]), rng.choice([1, 2, 4])) for _ in range(m)]
            if sum(ws) == 0 and rng.random() < 0.8:
                ws[0] += 1
            if wtype not in ('ints', 'ndarray_int') and rng.random() < 0.3:
                # the scale of a weight vector is immaterial to a weighted mean and linear in a weighted sum: un-normalised
                # Boltzmann factors sum to 1e-9 or 1e+9 as easily as to 1.  Powers of two keep every product exact in doubles.
                scale = Fraction(2) ** rng.choice([-60, -40, -30, -30, 30, 50])
                ws = [w * scale for w in ws]
                dist['batch_scaled_weights'] = dist.get('batch_scaled_weights', 0) + 1
            dist['batch_signed_weights'] += any(w < 0 for w in ws)
            dist['batch_negative_weight_sum'] += sum(ws) < 0
            dist['batch_zero_weight'] += any(w == 0 for w in ws)
            dist['by_weight_type'][wtype] = dist['by_weight_type'].get(wtype, 0) + 1
        R.batch(specs, ws, rng.choice(['add', 'mean']), order=order, container=rng.choice(['list', 'tuple']), wtype=wtype,
                style=rng.choice(['kw', 'pos'] if weighted else ['kw', 'pos', 'noarg']))
        dist['batch_value_classes'] += 1
    # deterministic edge cases of the batch functions
    one = {'kind': 'KCount', 'bits': 16, 'level': 2, 'cnt': {1: 3, 5: 2}}
    two = {'kind': 'KFloat', 'bits': 16, 'level': 2, 'cnt': {5: Fraction(1, 2), 6: Fraction(-4)}}
    bit = {'kind': 'KBit', 'bits': 16, 'level': None, 'idx': [1, 6]}
    other = {'kind': 'KCount', 'bits': 8, 'level': 2, 'cnt': {1: 1}}
    F = Fraction
    for which in ('add', 'mean'):
        for container in ('list', 'tuple'):
            for specs, ws in (([], None), ([], []), ([], [F(1)]), ([one], []), ([one], [F(0)]), ([one], [F(-1)]), ([one, two], [F(1)]),
                              ([one, two], [F(1), F(2), F(3)]), ([one, two], [F(2), F(-2)]), ([one, two], [F(1), F(-3)]), ([one, two], [F(0), F(1)]),
                              ([bit, bit], None), ([bit, one, two], None), ([two, one, bit], [F(1), F(1), F(1)]),
                              ([other, one], None), ([one, other], None), ([one, one, other], None), ([one, other, one], [F(1), F(1), F(1)]),
                              ([one, other], [F(1)]), ([one, other], [F(1), F(-1)])):
                for wtype in (('floats',) if ws is None else ('floats', 'ndarray', 'ints')):
                    R.batch(specs, ws, which, container=container, wtype=wtype, style='pos' if container == 'tuple' else 'kw')
                    dist['batch_edge_cases'] += 1

    # F. sum_counts_dict / diff_counts_dict
    for i in range(ctx.n(120, 1500)):
        n = rng.choice([1, 2, 3, 4])
        bits = rng.choice([8, 1024, 2 ** 32])
        specs = []
        for _ in range(n):
            specs.append(rand_spec2(rng, rng.choice(KINDS), bits, like=specs[0] if specs else None, flavour=rng.choice(['zeros', 'neg', 'odd', 'mixed', 'plain'])))
        order = [rng.randrange(n) for _ in range(n)] if rng.random() < 0.2 else None
        m = n if order is None else len(order)
        ws, wtype = None, 'floats'
        if rng.random() < 0.5:
            wtype = rng.choice(WTYPES)
            den = [1] if wtype in ('ints', 'ndarray_int') else [1, 2, 4]
            ws = [Fraction(rng.choice([-3, -1, 0, 1, 2, 5]), rng.choice(den)) for _ in range(m)]
        counts_sum(R, specs, ws, order=order, wtype=wtype)
    for i in range(ctx.n(160, 2000)):
        bits = rng.choice([8, 1024, 2 ** 32])
        ka = rng.choice(KINDS)
        only_positive = rng.random() < 0.5
        fla = rng.choice(['zeros', 'odd', 'plain', 'big'] if only_positive else ['zeros', 'neg', 'odd', 'mixed', 'plain', 'big'])
        sa = rand_spec2(rng, ka, bits, flavour=fla)
        sb = rand_spec2(rng, rng.choice(KINDS), bits, like=sa, flavour=rng.choice(['zeros', 'neg', 'odd', 'mixed', 'plain', 'big']))
        counts_diff(R, sa, sb, only_positive, style=rng.choice(['kw', 'pos'] + ([] if only_positive else ['default'])),
                    alias=rng.random() < 0.08)

    # H. negative positions (accepted by the constructors) in the scalar operators, the batch functions and the two helpers
    pool = [-9, -3, -1, 0, 2, 7]
    for i in range(ctx.n(40, 400)):
        specs = []
        for _ in range(rng.choice([2, 3])):
            kind = rng.choice(KINDS)
            idx = sorted(rng.sample(pool, rng.choice([1, 2, 3, 4])))
            sp = {'kind': kind, 'bits': 8, 'level': rng.choice([-1, 2])}
            if kind == 'KBit':
                sp['idx'] = idx
            elif kind == 'KCount':
                sp['cnt'] = {j: rng.choice([-2, 0, 1, 2, 5]) for j in idx}
            else:
                sp['cnt'] = {j: Fraction(rng.choice([-3, 0, 1, 5]), rng.choice([1, 2])) for j in idx}
            specs.append(sp)
        dist['negative_positions_other_functions'] += 1
        how = i % 4
        if how == 0:
            cl = [s_ for s_ in specs if s_['kind'] != 'KBit']
            if cl:
                form = rng.choice(N.SCALAR_ALL)
                R.scalar(cl[0], rng.choice([1, 2, 3] + ([0] if 'div' in form else [])), form)
        elif how == 1:
            ws = [Fraction(rng.choice([-1, 0, 1, 2, 3]), rng.choice([1, 2])) for _ in specs] if rng.random() < 0.5 else None
            R.batch(specs, ws, rng.choice(['add', 'mean']))
        elif how == 2:
            ws = [Fraction(rng.choice([-1, 0, 1, 2, 3]), rng.choice([1, 2])) for _ in specs] if rng.random() < 0.5 else None
            counts_sum(R, specs, ws)
        else:
            counts_diff(R, specs[0], specs[1], False, style=rng.choice(['kw', 'pos', 'default']))

    # G. chains on one pool of objects
    for i in range(ctx.n(60, 800)):
        bits = rng.choice([8, 16, 1024, 2 ** 32])
        kinds = [rng.choice(KINDS) for _ in range(3)] if rng.random() < 0.5 else [rng.choice(KINDS)] * 3
        specs = []
        for k in kinds:
            specs.append(rand_spec2(rng, k, bits, like=specs[0] if specs else None, flavour=rng.choice(['zeros', 'neg', 'odd', 'mixed', 'plain'])))
        chain(R, specs, rng.choice([4, 6, 8]), rng=rng)


def replay_case(R, rp):
    """Re-run one recorded case of this part; returns False if the type is not one of ours."""
    sj = fpgen.spec_from_json
    if rp['type'] == 'counts_sum':
        counts_sum(R, [sj(s) for s in rp['specs']], None if rp['ws'] is None else [Fraction(w) for w in rp['ws']], order=rp.get('order'),
                   wtype=rp.get('wtype', 'floats'))
    elif rp['type'] == 'counts_diff':
        counts_diff(R, sj(rp['sa']), sj(rp['sb']), rp['only_positive'], style=rp.get('style', 'kw'), alias=rp.get('alias', False))
    elif rp['type'] == 'chain':
        chain(R, [sj(s) for s in rp['specs']], 0, recorded=[tuple(s) for s in rp['steps']])
    else:
        return False
    return True
