"""C12 - levels nest, truncate consistently, level -1 means convergence (Properties/C12.v)."""
import core
import m1lib
import molfacts
import molgen
import fpgen
from props import c12_cov


def run(ctx):
    ok, res = core.proof_step(ctx)
    rng = ctx.rng
    found = False
    # pre-flight under a watchdog: a change that makes some run endless is reported with its input; the other streams would hang on it
    if c12_cov.preflight(ctx):
        ctx.notes.append('a run of the implementation did not terminate: the remaining streams of C12 were not run')
        if not ok:
            core.report_broken_proof(ctx, res, True)
        return
    # tie: runs under every kind of cap, with queries at levels below / at / beyond the level reached
    cases = m1lib.gen_cases(ctx, ctx.n(60, 1200))
    # level queries on a fingerprinter that has just processed another conformer of the same molecule object
    cases += m1lib.reused_cases(ctx, 7, ctx.n(4, 12))
    # input classes the pool lacks (long chains converging late, ions that join late or never, coincident atoms, large multipliers,
    # no duplicate removal), queried around and far beyond the level reached (c12_cov.py, work/coverage_C12.md)
    cases += c12_cov.tie_cases(ctx, ctx.n(12, 100))
    found |= m1lib.run_cases(ctx, cases, 'C12 model/implementation tie (capped and uncapped runs, level queries)') > 0
    # implementation-level streams: call forms, integer types, counts / bits / masks, very large levels, reuse sequences, stepping, error paths
    found |= c12_cov.run_streams(ctx)
    # search on the implementation: one run to L queried at every k against separate runs capped at k; -1 against runs past convergence
    stats = {'truncation_pairs': 0, 'limit_pairs': 0, 'nest_pairs': 0}
    for (name, m, cid) in molgen.pool(rng, ctx.n(40, 500)):
        o = molgen.rand_opts(rng)
        o['remdup'] = True
        L = rng.choice([4, 6, 8])
        oL = dict(o, level=L)
        r0 = m1lib.base_run(ctx, name, m, cid, oL)
        if r0 is None:
            continue
        fL, obsL, kL = r0
        ids = m1lib.all_level_ids(fL)
        for k in range(kL):
            stats['nest_pairs'] += 1
            a, b = list(ids[k]), list(ids[k + 1])
            for x in a:
                if x in b:
                    b.remove(x)
                else:
                    found = True
                    ctx.fail('identifier %d of level %d is missing at level %d' % (x, k, k + 1), {'name': name, 'conf': cid, 'opts': m1lib.opts_json(oL)}, finding_key='C12:nest')
                    break
        for k in range(0, L + 1):
            fk, obsk, kk = molfacts.impl_run(m, cid, dict(o, level=k))
            stats['truncation_pairs'] += 1
            ctx.count(('trunc', name, cid, str(o), L, k), kL >= 1)
            a = fpgen.obs(fL.get_fingerprint_at_level(k))
            b = fpgen.obs(fk.get_fingerprint_at_level(k))
            if a != b or a['level'] != k:
                found = True
                ctx.fail('fingerprint at level %d from a run to %d differs from a run limited to %d (or is mislabelled)' % (k, L, k),
                         {'name': name, 'conf': cid, 'opts': m1lib.opts_json(o), 'L': L, 'k': k, 'from_L': fpgen.obs_json(a), 'from_k': fpgen.obs_json(b)},
                         finding_key='C12:truncation')
                break
        o1 = dict(o, level=rng.choice([-1, None]))
        f1, obs1, c = molfacts.impl_run(m, cid, o1)
        conv = fpgen.obs(f1.get_fingerprint_at_level(c))
        for Lx in (c, c + 1, c + 3):
            fx, obsx, kx = molfacts.impl_run(m, cid, dict(o, level=Lx))
            stats['limit_pairs'] += 1
            ctx.count(('limit', name, cid, str(o), Lx), c >= 1)
            got = fpgen.obs(fx.get_fingerprint_at_level(Lx))
            if got['idx'] != conv['idx'] or got['cnt'] != conv['cnt'] or got['level'] != Lx:
                found = True
                ctx.fail('run with level -1 converged at %d but a run to level %d gives another fingerprint' % (c, Lx),
                         {'name': name, 'conf': cid, 'opts': m1lib.opts_json(o), 'converged_at': c, 'L': Lx}, finding_key='C12:limit')
                break
    ctx.coverage['input_distribution']['metamorphic'] = stats
    ctx.coverage['rule'] = ('tie: gridded cases over all caps (0..6, -1, None) with fingerprint queries at levels below, at and beyond the level reached; search: per '
                            'molecule one run to L in {4,6,8} queried at every k <= L against separate runs limited to k, nesting of identifier multisets level by level, '
                            'and level -1/None against runs to c, c+1, c+3 where c is the converged level; coverage streams (c12_cov.py): long run (finite, -1, None; Python / NumPy '
                            'integer; keyword / positional) against fresh runs limited to every k - states and fingerprints for random bits, masks, count / bit and call '
                            'forms against an oracle computed from level_shells, nesting through the public getters under masks, -1 against c, c+1, c+j and levels up to '
                            '10^30, query sequences on one object, one Fingerprinter reused over conformers / twins / foreign molecules compared with fresh ones at every '
                            'level seen, the iterator protocol by hand, refused constructions and queries; non-trivial: reaches level >= 1')
    ctx.assumptions += ['inputs within 2^-30 of a decision threshold are tagged (harness/m1_spec.py) and skipped in the tie']
    if not ok:
        core.report_broken_proof(ctx, res, found)


def replay(ctx, path):
    import json
    d = json.load(open(path))
    if isinstance(d.get('case'), dict) and 'cov_stream' in d['case']:
        d['_path'] = path
        return c12_cov.replay(ctx, d)
    return m1lib.replay_case(ctx, path)
