"""C12 coverage extension (work/coverage_C12.md): implementation-level streams over input classes, call forms and call
sequences that the tie and the first search of c12.py do not produce, plus a few extra gridded cases for the tie.

Every stream checks clauses of C12 directly on the real Fingerprinter:
  termination - pre-flight, run before everything else: every kind of cap (0, 1, 2, 5, -1, None; with and without duplicate removal) on
             small molecules under a watchdog, so that a change which makes some run endless is reported with its input instead of hanging
             the check (all runs of the streams below are under a watchdog too);
  levels   - one long run (finite L, -1 or None; Python or NumPy integer level; keyword / positional constructor; four ways of
             calling run) against fresh runs limited to every k: state (current_level, level_shells[0..k]) and fingerprints for random
             (bits, atom mask, count / bit, call form); nesting of shells and identifiers through the public getters with and without a
             mask; level -1 / None against runs to c, c+1, c+j and to very large levels; a sequence of queries on the long run compared
             with an independent oracle computed from level_shells (label = the request), state unchanged by queries;
  reuse    - ONE Fingerprinter over a sequence of (molecule object, conformer) with repeats, twins and foreign molecules in between,
             capped or not, after each run compared with a fresh Fingerprinter at every level seen so far;
  stepping - the iterator protocol by hand: after j+1 calls of next() level_shells[0..j] is what the finished run keeps;
             next() after the stop raises StopIteration again and changes nothing;
  errors   - no level and no duplicate removal is refused; queries before a run / after reset() and exact=True beyond the last level
             raise IndexError.
Failures carry the molecule (mol block + exact coordinates), the options and the sub-seed of the per-input random choices, so that
`bin/check C12 --replay <file>` re-runs the same comparison.
"""
import random
import numpy as np
import fpgen
import molfacts
import molgen

M32 = 2 ** 32
BIG = [50, 1000, 10 ** 6, 2 ** 31 - 1, 2 ** 31, 2 ** 62, 10 ** 30]
LTYPES = ['int', 'int', 'int', 'np64', 'np32', 'intp']
RUN_FORMS = ['id_mol', 'id_mol', 'conf_mol', 'kw', 'conf']
MULTS = [0.5, 1.0, 1.3, 1.4, 1.5, 1.5, 1.718, 1.718, 1.718, 2.0, 2.0, 2.5, 3.0, 4.0, 10.0]
BITS = [M32, M32, M32, 2 ** 31, 65536, 4096, 1024, 64, 8, 2, 1]


# ---------------------------------------------------------------------------------------------- molecules
def mol_json(mol, cids):
    from rdkit import Chem
    cids = sorted(set(int(c) for c in cids))
    return {'molblock': Chem.MolToMolBlock(mol, confId=cids[0]),
            'confs': {str(c): [[float(v).hex() for v in mol.GetConformer(c).GetAtomPosition(i)] for i in range(mol.GetNumAtoms())] for c in cids}}


def mol_from_json(d):
    from rdkit import Chem
    from rdkit.Geometry import Point3D
    m = Chem.MolFromMolBlock(d['molblock'], removeHs=False)
    m.RemoveAllConformers()
    for c, xyz in sorted(d['confs'].items(), key=lambda kv: int(kv[0])):
        conf = Chem.Conformer(m.GetNumAtoms())
        for i, p in enumerate(xyz):
            conf.SetAtomPosition(i, Point3D(*[float.fromhex(v) for v in p]))
        conf.SetId(int(c))
        m.AddConformer(conf, assignId=False)
    return m


def chain_mol(rng, n, nconf=2, gapped=True):
    """A linear chain of n heavy atoms (C/N/O) on a jittered zigzag: with include_disconnected=False the substructures grow by one
    bond per level, so that the run converges only near level n - far beyond the levels ordinary molecules reach."""
    from rdkit import Chem
    from rdkit.Geometry import Point3D
    smi = 'C' + ''.join(rng.choice(['C', 'C', 'C', 'N', 'O']) for _ in range(n - 2)) + 'C' if n > 1 else 'C'
    m = Chem.MolFromSmiles(smi)
    for c in range(nconf):
        conf = Chem.Conformer(n)
        tw = rng.uniform(0.0, 0.25)
        for i in range(n):
            conf.SetAtomPosition(i, Point3D(1.26 * i + rng.uniform(-0.04, 0.04), 0.72 * (i % 2) * float(np.cos(tw * i)) + rng.uniform(-0.04, 0.04),
                                            0.72 * (i % 2) * float(np.sin(tw * i)) + rng.uniform(-0.04, 0.04)))
        conf.SetId([0, 5, 11, 12, 40, 41][c] if gapped else c)           # conformer ids need not be 0..n-1
        m.AddConformer(conf, assignId=False)
    m.SetProp('_Name', 'chain%d' % n)
    return ('chain %s' % smi, m)


def far_ion_mol(rng):
    """An embedded molecule plus an unbonded ion placed 2.5 - 14 A from an atom: its shell stays unchanged for several levels while
    the others grow (and, when the rest converges first, it never joins: an empty iteration that a larger radius would fill)."""
    from rdkit import Chem
    from rdkit.Geometry import Point3D
    while True:
        smi = rng.choice(['CCO', 'CC(=O)[O-]', 'c1ccccc1', 'CCN(CC)CC', 'C[C@H](N)C(=O)O', 'OCC(O)CO', 'CC', 'C']) + rng.choice(['.[Na+]', '.[Cl-]', '.[K+]', '.O'])
        m0 = molgen.embedded(smi, nconf=2, seed=rng.choice([3, 11]), keep_hs=rng.random() < 0.5)
        if m0 is None:
            continue
        m = Chem.Mol(m0)
        ion = [a.GetIdx() for a in m.GetAtoms() if a.GetAtomicNum() > 1 and not any(nb.GetAtomicNum() > 1 for nb in a.GetNeighbors())]
        ion = ion[-1]
        for conf in m.GetConformers():
            anchor = conf.GetAtomPosition(0)
            u = np.array([rng.gauss(0, 1) for _ in range(3)])
            u = u / np.linalg.norm(u) * rng.uniform(2.5, 14.0)
            old = conf.GetAtomPosition(ion)
            for a in [ion] + [nb.GetIdx() for nb in m.GetAtomWithIdx(ion).GetNeighbors()]:      # water hydrogens move along
                p = conf.GetAtomPosition(a)
                conf.SetAtomPosition(a, Point3D(p.x - old.x + anchor.x + float(u[0]), p.y - old.y + anchor.y + float(u[1]), p.z - old.z + anchor.z + float(u[2])))
        return ('%s ion moved' % smi, m)


def coincident_mol(rng):
    """Two heavy atoms on exactly the same point (legal: 'fingerprinting will continue but is less reliable')."""
    from rdkit import Chem
    while True:
        smi = rng.choice(molgen.SMILES)
        m0 = molgen.embedded(smi, nconf=2, seed=rng.choice([3, 11]), keep_hs=rng.random() < 0.5)
        if m0 is None:
            continue
        heavy = [a.GetIdx() for a in m0.GetAtoms() if a.GetAtomicNum() > 1]
        if len(heavy) < 3:
            continue
        m = Chem.Mol(m0)
        a, b = rng.sample(heavy, 2)
        for conf in m.GetConformers():
            conf.SetAtomPosition(b, conf.GetAtomPosition(a))
        return ('%s atoms %d,%d coincide' % (smi, a, b), m)


def cov_pool(rng, n):
    """(name, mol, conf id, forced options) - ordinary pool molecules mixed with the synthetic classes."""
    out = []
    base = molgen.pool(rng, n)
    for i in range(n):
        r = rng.random()
        if r < 0.5:
            name, m, cid = base[i]
            out.append((name, m, cid, {}))
        elif r < 0.68:
            name, m = chain_mol(rng, rng.choice([2, 3, 5, 8, 12, 17, 24, 33, 46]))
            out.append((name, m, rng.choice([0, 5]), {'incl': rng.random() < 0.25}))
        elif r < 0.82:
            name, m = far_ion_mol(rng)
            out.append((name, m, rng.randrange(2), {'exfloat': False}))
        elif r < 0.92:
            name, m = coincident_mol(rng)
            out.append((name, m, rng.randrange(2), {}))
        else:
            name, m = rng.choice(molgen.shipped())
            out.append((name, m, rng.randrange(m.GetNumConformers()), {}))
    return out


def cls_of(name):
    return 'chain' if name.startswith('chain') else 'far_ion' if name.endswith('ion moved') else 'coincident' if name.endswith('coincide') else 'pool'


def draw_opts(rng, forced, finite):
    o = molgen.rand_opts(rng)
    o['mult'] = rng.choice(MULTS)
    o['remdup'] = (rng.random() < 0.6) if finite else True
    o.update(forced)
    o['level'] = None              # the level is given separately, per run
    return o


def excluded_input(mol, o):
    """Inputs outside the property (nothing to fingerprint) or the listed bond-table finding: counted, not compared."""
    facts = molfacts.mol_facts(mol, mol.GetConformers()[0].GetId())
    heavy = [a for a in facts['atoms'] if a['num'] > 1]
    if o['exfloat'] and len(heavy) > 1:
        heavy = [a for a in heavy if a['deg'] > 0]
    ret = set(a['idx'] for a in heavy)
    if not heavy:
        return 'no_heavy_atom_retained'
    if any(t == 'BtOther' and a in ret and b in ret for a, b, t in facts['bonds']):
        return 'bond_type_outside_table'
    return None


# ---------------------------------------------------------------------------------------------- calls
def typed(k, how):
    if k is None or how == 'int':
        return k
    if how == 'np32' and -2 ** 31 <= k < 2 ** 31:
        return np.int32(k)
    if how == 'intp' and -2 ** 63 <= k < 2 ** 63:
        return np.intp(k)
    if -2 ** 63 <= k < 2 ** 63:
        return np.int64(k)
    return k


def is_explicit(req):
    return not (req is None or isinstance(req, str) or int(req) == -1)


def build(o, level, bits0=M32, counts=False, form='kw'):
    from e3fp.fingerprint.fprinter import Fingerprinter, LEVEL_DEF
    if form == 'default_level' and (level is None or int(level) != LEVEL_DEF):
        form = 'kw'
    if form == 'default_level':          # the documented default (config: level 5), level argument left out
        return Fingerprinter(bits=bits0, radius_multiplier=o['mult'], stereo=o['stereo'], counts=counts, include_disconnected=o['incl'],
                             rdkit_invariants=o['rdkit'], exclude_floating=o['exfloat'], remove_duplicate_substructs=o['remdup'])
    if form == 'pos':
        return Fingerprinter(bits0, level, o['mult'], o['stereo'], counts, o['incl'], o['rdkit'], o['exfloat'], o['remdup'])
    return Fingerprinter(bits=bits0, level=level, radius_multiplier=o['mult'], stereo=o['stereo'], counts=counts,
                         include_disconnected=o['incl'], rdkit_invariants=o['rdkit'], exclude_floating=o['exfloat'],
                         remove_duplicate_substructs=o['remdup'])


class watchdog(object):
    """A run of the implementation that does not come back within `seconds` is reported as not terminating (level -1 'always
    terminates'; a capped run stops at its cap) instead of hanging the check."""
    def __init__(self, seconds, f):
        self.seconds, self.f = seconds, f

    def _fire(self, *a):
        raise Fail('the run did not stop within %d s (iteration %r reached and still going)' % (self.seconds, self.f.current_level))

    def __enter__(self):
        import signal
        self.old = signal.signal(signal.SIGALRM, self._fire)
        signal.setitimer(signal.ITIMER_REAL, self.seconds)

    def __exit__(self, *a):
        import signal
        signal.setitimer(signal.ITIMER_REAL, 0)
        signal.signal(signal.SIGALRM, self.old)
        return False


RUN_LIMIT_S = 300


def do_run(f, mol, cid, form, limit=None):
    with watchdog(limit or RUN_LIMIT_S, f):
        _do_run(f, mol, cid, form)


def _do_run(f, mol, cid, form):
    if form == 'conf_mol':
        f.run(mol.GetConformer(cid), mol)
    elif form == 'kw':
        f.run(conf=cid, mol=mol)
    elif form == 'conf':
        f.run(mol.GetConformer(cid))
    else:
        f.run(cid, mol)


def state(f):
    k = f.current_level
    return (None if k is None else int(k), molfacts.observe(f))


def mask_obj(rng, mask):
    return rng.choice([set, list, tuple, frozenset])(mask)


def do_query(f, req, bits, mask, form, exact=False):
    """get_fingerprint_at_level in one of its call forms; req == 'omit' leaves the level out (default -1)."""
    def call():
        kw = {}
        if mask is not None:
            kw['atom_mask'] = mask
        if exact:
            kw['exact'] = True
        if req == 'omit':
            if bits != 'omit':
                kw['bits'] = bits
            return f.get_fingerprint_at_level(**kw)
        if form == 'pos' and bits != 'omit':
            if mask is not None:
                return f.get_fingerprint_at_level(req, bits, exact, mask)
            return f.get_fingerprint_at_level(req, bits, exact)
        if bits != 'omit':
            kw['bits'] = bits
        if form == 'pos':
            return f.get_fingerprint_at_level(req, **kw)
        return f.get_fingerprint_at_level(level=req, **kw)
    r = fpgen.attempt(call)
    if r[0] != 'ok':
        return r
    o = fpgen.obs(r[1])
    return ('ok', {'kind': o['kind'], 'bits': o['bits'], 'level': o['level'], 'idx': o['idx'],
                   'cnt': [[k, str(v)] for k, v in o['cnt']] if o['kind'] != 'KBit' else None})


def oracle(st, counts, bits0, req, bits, mask, exact=False):
    """What get_fingerprint_at_level must return, computed from the observed level_shells: identifiers of the shells of the level
    delivered (the requested one if it was generated, else the last one) whose substructure avoids the mask, unsigned, folded by
    remainder; labelled with the request."""
    k, lv = st
    r = -1 if req == 'omit' else (None if req is None else int(req))
    explicit = r is not None and r != -1
    if not lv or (exact and not (explicit and r in lv)):
        return ('err', 'EIndex')
    true = r if (explicit and r in lv) else k
    mk = set(int(x) for x in (mask or ()))
    ids = [(i + M32) % M32 for (i, c, sub) in lv[true] if not (set(sub) & mk)]
    b = bits0 if bits in ('omit', -1, None) else int(bits)
    cnt = {}
    for i in ids:
        cnt[i % b] = cnt.get(i % b, 0) + 1
    return ('ok', {'kind': 'KCount' if counts else 'KBit', 'bits': b, 'level': r, 'idx': sorted(cnt),
                   'cnt': [[i, str(c)] for i, c in sorted(cnt.items())] if counts else None})


def draw_query(rng, st, atoms, pool_levels):
    req = rng.choice(pool_levels)
    bits = rng.choice(BITS + ['omit', 'omit', None, -1])
    if bits not in ('omit', None, -1) and rng.random() < 0.2:
        bits = np.int64(bits)
    mask = None if rng.random() < 0.45 or not atoms else mask_obj(rng, rng.sample(atoms, min(len(atoms), rng.choice([1, 1, 2, 3]))))
    return req, bits, mask, rng.choice(['kw', 'kw', 'pos'])


def qjson(req, bits, mask, form, exact=False):
    return {'level': req if req in ('omit', None) else int(req), 'level_type': type(req).__name__, 'bits': bits if bits in ('omit', None) else int(bits),
            'mask': None if mask is None else sorted(int(x) for x in mask), 'mask_type': type(mask).__name__, 'form': form, 'exact': exact}


def multiset_sub(a, b):
    b = list(b)
    for x in a:
        if x in b:
            b.remove(x)
        else:
            return x
    return None


def pub_shells(f, req, mask):
    sh = f.get_shells_at_level(req) if mask is None else f.get_shells_at_level(req, atom_mask=mask)
    return sorted((int(s.identifier), int(s.center_atom), tuple(sorted(int(x) for x in s.substruct.atoms))) for s in sh)


class Fail(Exception):
    def __init__(self, what, extra=None):
        Exception.__init__(self, what)
        self.what, self.extra = what, extra or {}


def st_json(st):
    return {'current_level': st[0], 'levels': {str(l): [[i, c, list(s)] for i, c, s in v] for l, v in st[1].items()}}


def st_diff(a, b):
    """Short description of the first difference between two states."""
    if a[0] != b[0]:
        return 'current_level %r vs %r' % (a[0], b[0])
    if sorted(a[1]) != sorted(b[1]):
        return 'levels stored %r vs %r' % (sorted(a[1]), sorted(b[1]))
    for l in sorted(a[1]):
        if a[1][l] != b[1][l]:
            return 'level %d: %d vs %d shells, %d differ' % (l, len(a[1][l]), len(b[1][l]), len(set(a[1][l]) ^ set(b[1][l])))
    return 'equal'


# ---------------------------------------------------------------------------------------------- stream: levels
def check_levels(rec, mol, stats):
    rng = random.Random(rec['sub'])
    o, cid, L, bits0, counts = rec['o'], rec['cid'], rec['L'], rec['bits0'], rec['counts']
    finite = L not in (-1, None)

    def fresh(level, ltype=None):
        f = build(o, typed(level, ltype or rng.choice(LTYPES)), bits0, counts, rng.choice(['kw', 'kw', 'pos', 'default_level']))
        do_run(f, mol, cid, rng.choice(RUN_FORMS))
        return f

    fL = fresh(L, rec['ltype'])
    stL = state(fL)
    reached = stL[0]
    stats['levels_reached_hist'][str(reached)] = stats['levels_reached_hist'].get(str(reached), 0) + 1
    atoms = sorted(set(x for _, _, s in stL[1][0] for x in s))
    if sorted(stL[1]) != list(range(reached + 1)):
        raise Fail('level_shells holds levels %r after a run that ended at level %d' % (sorted(stL[1]), reached))
    if finite and reached > L:
        raise Fail('a run limited to level %d ended at level %d' % (L, reached))
    # ---- nesting: stored shells, public getters (with a mask), unfolded identifiers with multiplicity
    mask = None if rng.random() < 0.5 or not atoms else mask_obj(rng, rng.sample(atoms, min(len(atoms), rng.choice([1, 2]))))
    for k in range(reached):
        stats['nest_pairs'] += 1
        x = multiset_sub(stL[1][k], stL[1][k + 1])
        if x is not None:
            raise Fail('shell %r of level %d is missing at level %d (level_shells)' % (x, k, k + 1))
        a, b = pub_shells(fL, typed(k, rng.choice(LTYPES)), mask), pub_shells(fL, k + 1, mask)
        x = multiset_sub(a, b)
        if x is not None:
            raise Fail('get_shells_at_level: shell %r of level %d is missing at level %d under mask %r' % (x, k, k + 1, mask))
        x = multiset_sub([i for i, _, _ in a], [i for i, _, _ in b])
        if x is not None:
            raise Fail('identifier %d of level %d is missing at level %d under mask %r' % (x, k, k + 1, mask))
        qa, qb = do_query(fL, k, M32, mask, 'kw'), do_query(fL, k + 1, M32, mask, 'kw')
        if qa[0] != 'ok' or qb[0] != 'ok' or not set(qa[1]['idx']) <= set(qb[1]['idx']) or \
                (counts and any(int(c) > int(dict(map(tuple, qb[1]['cnt'])).get(i, 0)) for i, c in qa[1]['cnt'])):
            raise Fail('unfolded fingerprint of level %d is not contained in that of level %d (mask %r)' % (k, k + 1, mask), {'level_k': qa, 'level_k1': qb})
    # ---- truncation: run limited to k  =  prefix of the long run, fingerprints equal for any bits / mask / form
    top = L if finite else reached + 2
    ks = list(range(0, min(top, reached + 1) + 1))
    if len(ks) > 10:                      # long runs (chains): levels 0, 1, the last two and a sample in between
        ks = sorted(set(ks[:2] + ks[-2:] + rng.sample(ks, 6 if len(ks) < 22 else 3)))
    if top > reached + 2:
        ks.append(rng.randint(reached + 2, top))
    for k in ks:
        fk = fresh(k)
        stk = state(fk)
        exp = min(k, reached)
        stats['truncation_pairs'] += 1
        want = (exp, {j: stL[1][j] for j in range(exp + 1)})
        if stk != want:
            raise Fail('a run limited to level %d differs from the first %d levels of a run to %r: %s' % (k, exp, L, st_diff(stk, want)),
                       {'limited_run': st_json(stk), 'long_run': st_json(stL)})
        for _ in range(2):
            req, bits, mk, form = draw_query(rng, stk, atoms, [k])
            kk = typed(k, rng.choice(LTYPES))
            A, B, O = do_query(fL, kk, bits, mk, form), do_query(fk, kk, bits, mk, rng.choice(['kw', 'pos'])), oracle(stk, counts, bits0, k, bits, mk)
            stats['queries'] += 2
            if not (A == B == O):
                raise Fail('fingerprint at level %d from a run to %r, from a run limited to %d and the expected one differ' % (k, L, k),
                           {'query': qjson(kk, bits, mk, form), 'from_long_run': A, 'from_limited_run': B, 'expected': O})
        req, bits, mk, form = draw_query(rng, stk, atoms, [-1, None, 'omit'])
        B, O = do_query(fk, req, bits, mk, form), oracle(stk, counts, bits0, req, bits, mk)
        stats['queries'] += 1
        if B != O:
            raise Fail('request %r on a run limited to %d does not give its last level (or is mislabelled)' % (req, k),
                       {'query': qjson(req, bits, mk, form), 'got': B, 'expected': O})
    # ---- level -1 / None is the limit
    if o['remdup']:
        f1 = fL if not finite else fresh(rng.choice([-1, None]), 'int')
        s1 = state(f1)
        c = s1[0]
        stats['converged_hist'][str(c)] = stats['converged_hist'].get(str(c), 0) + 1
        if finite and ((L >= c and stL != s1) or (L < c and (reached != L or any(stL[1][j] != s1[1][j] for j in range(L + 1))))):
            raise Fail('run to %d and run to convergence (level %d) are inconsistent: %s' % (L, c, st_diff(stL, s1)), {'capped': st_json(stL), 'uncapped': st_json(s1)})
        for Lx in [c, c + 1, c + rng.randint(2, 9), rng.choice(BIG), rng.choice([-1, None])]:
            fx = fresh(Lx)
            sx = state(fx)
            stats['limit_pairs'] += 1
            if sx != s1:
                raise Fail('level -1 converged at %d but a run to level %r ends in another state: %s' % (c, Lx, st_diff(sx, s1)),
                           {'L': str(Lx), 'run_to_L': st_json(sx), 'uncapped': st_json(s1)})
            for _ in range(2):
                req, bits, mk, form = draw_query(rng, s1, atoms, list(range(0, c + 4)) + [-1, None, 'omit', rng.choice(BIG)])
                req = req if req in ('omit', None) else typed(req, rng.choice(LTYPES))
                A, B, O = do_query(fx, req, bits, mk, form), do_query(f1, req, bits, mk, form), oracle(s1, counts, bits0, req, bits, mk)
                stats['queries'] += 2
                if not (A == B == O):
                    raise Fail('request %r on a run to %r, on the level -1 run (converged at %d) and the expected fingerprint differ' % (req, Lx, c),
                               {'query': qjson(req, bits, mk, form), 'from_run_to_L': A, 'from_uncapped': B, 'expected': O})
    # ---- a sequence of queries on one object: each equals the oracle whatever was asked before; repeats; exact; state untouched
    levels = list(range(0, reached + 3)) + [-1, None, 'omit', rng.choice(BIG)]
    hist = []
    for i in range(rec.get('nq', 10)):
        if hist and rng.random() < 0.25:
            req, bits, mk, form, ex = rng.choice(hist)
        else:
            req, bits, mk, form = draw_query(rng, stL, atoms, levels)
            req = req if req in ('omit', None) else typed(req, rng.choice(LTYPES))
            ex = is_explicit(req) and rng.random() < 0.25
        hist.append((req, bits, mk, form, ex))
        A, O = do_query(fL, req, bits, mk, form, exact=ex), oracle(stL, counts, bits0, req, bits, mk, exact=ex)
        stats['queries'] += 1
        if A != O:
            raise Fail('query %d of a sequence on one Fingerprinter differs from the expected fingerprint' % i,
                       {'sequence': [qjson(*h) for h in hist], 'got': A, 'expected': O})
    if state(fL) != stL:
        raise Fail('queries changed the state of the Fingerprinter: %s' % st_diff(state(fL), stL))
    return reached


def deep_inputs(rng, n):
    """Chains of 56 - 90 atoms without disconnected neighbours, run to convergence: levels 28 - 45, where any hidden bound on the number
    of iterations of an uncapped run (or on the level of a capped one) shows."""
    out = []
    for i in range(n):
        name, m = chain_mol(rng, rng.choice([56, 64, 72, 80, 90]))
        out.append((name, m, rng.choice([0, 5]), {'incl': False, 'stereo': False, 'remdup': True, 'deep': True}))
    return out


def levels_stream(ctx, stats, n, n_deep=0):
    rng = ctx.rng
    for (name, m, cid, forced) in deep_inputs(rng, n_deep) + cov_pool(rng, n):
        forced = dict(forced)
        deep = forced.pop('deep', False)
        L = rng.choice([-1, None] if deep else [-1, None, -1, None, 2, 3, 4, 5, 6, 7, 8, 10, 12, 20, 40])
        finite = L not in (-1, None)
        o = draw_opts(rng, forced, finite)
        if deep:
            o['mult'] = rng.choice([1.5, 1.718, 2.0, 3.0])
        rec = {'cov_stream': 'levels', 'name': name, 'cid': int(cid), 'o': o, 'L': L, 'ltype': rng.choice(LTYPES), 'bits0': rng.choice(BITS[:-3] + [1024, 4096]),
               'counts': rng.random() < 0.5, 'sub': rng.getrandbits(32)}
        ex = excluded_input(m, o)
        if ex:
            stats['skipped'][ex] = stats['skipped'].get(ex, 0) + 1
            continue
        stats['inputs'] += 1
        stats['by_class'][cls_of(name)] = stats['by_class'].get(cls_of(name), 0) + 1
        stats['long_run_level'][str(L)] = stats['long_run_level'].get(str(L), 0) + 1
        stats['remdup_false'] += 0 if o['remdup'] else 1
        stats['counts'] += 1 if rec['counts'] else 0
        run_check(ctx, check_levels, rec, m, [cid], stats)


def run_check(ctx, fn, rec, m, cids, stats):
    """Run one per-input check; a failed comparison or an exception of the implementation becomes a failure with a replayable payload."""
    try:
        reached = fn(rec, m, stats)
        ctx.count((rec['cov_stream'], rec['name'], rec['sub']), bool(reached))
        return False
    except Fail as e:
        what, extra = e.what, e.extra
    except Exception as e:  # noqa
        import traceback
        what, extra = 'the implementation raised %s: %s' % (type(e).__name__, str(e)[:200]), {'traceback': traceback.format_exc()[-1500:]}
    ctx.count((rec['cov_stream'], rec['name'], rec['sub']), True)
    payload = dict(rec, mol=mol_json(m, cids), opts=molgen_opts_json(rec['o']))
    payload.update(extra)
    ctx.fail('C12 %s stream, %s (conformer %s, options %s, level %r): %s' % (rec['cov_stream'], rec['name'], rec.get('cid', rec.get('seq')), molgen_opts_json(rec['o']), rec.get('L'), what),
             payload, finding_key='C12:cov:%s' % rec['cov_stream'])
    return True


def molgen_opts_json(o):
    return {k: o[k] for k in molgen.OPT_KEYS if k != 'level'}


# ---------------------------------------------------------------------------------------------- stream: reuse
def check_reuse(rec, mols, stats):
    """mols: list of molecule objects; rec['seq']: [(index into mols, conformer id, run form)]."""
    rng = random.Random(rec['sub'])
    o, L, bits0, counts = rec['o'], rec['L'], rec['bits0'], rec['counts']
    f = build(o, typed(L, rec['ltype']), bits0, counts)
    maxseen = 0
    for step, (mi, cid, form) in enumerate(rec['seq']):
        do_run(f, mols[mi], cid, form)
        st = state(f)
        g = build(o, L, bits0, counts)
        do_run(g, mols[mi], cid, 'id_mol')
        sg = state(g)
        stats['reuse_runs'] += 1
        if st != sg:
            raise Fail('step %d of a sequence on ONE Fingerprinter (%r) leaves a state that differs from a fresh Fingerprinter on the same conformer: %s'
                       % (step, rec['seq'][:step + 1], st_diff(st, sg)), {'reused': st_json(st), 'fresh': st_json(sg)})
        maxseen = max(maxseen, st[0])
        atoms = sorted(set(x for _, _, s in sg[1][0] for x in s))
        for k in list(range(0, maxseen + 2)) + [-1, None, 'omit']:
            req, bits, mk, qform = draw_query(rng, sg, atoms, [k])
            A, O = do_query(f, req, bits, mk, qform), oracle(sg, counts, bits0, req, bits, mk)
            stats['queries'] += 1
            if A != O:
                raise Fail('step %d of a sequence on ONE Fingerprinter (%r): request %r differs from a fresh run' % (step, rec['seq'][:step + 1], req),
                           {'query': qjson(req, bits, mk, qform), 'got': A, 'expected': O})
    return maxseen


def reuse_stream(ctx, stats, n):
    from rdkit import Chem
    rng = ctx.rng
    sh = [(nm, m) for nm, m in molgen.shipped() if m.GetNumConformers() >= 4]
    for i in range(n):
        r = rng.random()
        if r < 0.45:
            name, m = rng.choice(sh)
            cids = rng.sample(range(min(m.GetNumConformers(), 60)), 4)
        elif r < 0.7:
            name, m = chain_mol(rng, rng.choice([6, 10, 14]), nconf=4)
            cids = [0, 5, 11, 12]
        else:
            while True:
                smi = rng.choice(molgen.SMILES)
                m = molgen.embedded(smi, nconf=4, seed=7, keep_hs=rng.random() < 0.5)
                if m is not None:
                    break
            name, cids = smi, list(range(m.GetNumConformers()))
        other_name, other, ocid = molgen.pool(rng, 1)[0]
        L = rng.choice([-1, None, -1, 3, 4, 5, 8, 20])
        o = draw_opts(rng, {'incl': rng.random() < 0.5} if name.startswith('chain') else {}, L not in (-1, None))
        if L in (-1, None) or rng.random() < 0.5:
            o['mult'] = rng.choice([1.3, 1.5, 1.718, 1.718, 2.0])        # conformers then converge at different levels
        if excluded_input(m, o) or excluded_input(other, o):
            stats['skipped']['reuse_excluded'] = stats['skipped'].get('reuse_excluded', 0) + 1
            continue
        mols = [m, other, Chem.Mol(m)]                                       # the molecule, a foreign one, a twin (copy) of the first
        seq = []
        for _ in range(rng.choice([4, 5, 6])):
            r = rng.random()
            if seq and r < 0.2:
                seq.append(seq[-1])                                          # the same conformer again
            elif r < 0.3:
                seq.append((1, ocid, 'id_mol'))
            elif r < 0.4:
                seq.append((2, rng.choice(cids), rng.choice(['id_mol', 'conf_mol'])))
            else:
                seq.append((0, rng.choice(cids), rng.choice(['id_mol', 'id_mol', 'conf_mol', 'kw', 'conf'])))
        rec = {'cov_stream': 'reuse', 'name': name, 'seq': [list(s) for s in seq], 'o': o, 'L': L, 'ltype': rng.choice(LTYPES), 'bits0': rng.choice([M32, M32, 4096, 1024]),
               'counts': rng.random() < 0.4, 'sub': rng.getrandbits(32), 'other': other_name}
        stats['reuse_sequences'] += 1
        try:
            maxseen = check_reuse(rec, mols, stats)
            ctx.count(('reuse', name, rec['sub']), maxseen >= 1)
        except Fail as e:
            fail_multi(ctx, rec, mols, cids, ocid, e.what, e.extra)
        except Exception as e:  # noqa
            import traceback
            fail_multi(ctx, rec, mols, cids, ocid, 'the implementation raised %s: %s' % (type(e).__name__, str(e)[:200]), {'traceback': traceback.format_exc()[-1500:]})


def fail_multi(ctx, rec, mols, cids, ocid, what, extra):
    used0 = sorted(set(c for mi, c, _ in rec['seq'] if mi in (0, 2))) or [cids[0]]
    payload = dict(rec, mols=[mol_json(mols[0], used0), mol_json(mols[1], [ocid])], opts=molgen_opts_json(rec['o']))
    payload.update(extra)
    ctx.count(('reuse', rec['name'], rec['sub']), True)
    ctx.fail('C12 reuse stream, %s (options %s, level %r): %s' % (rec['name'], molgen_opts_json(rec['o']), rec['L'], what), payload, finding_key='C12:cov:reuse')


# ---------------------------------------------------------------------------------------------- stream: stepping
def check_stepping(rec, mol, stats):
    rng = random.Random(rec['sub'])
    o, cid, L, bits0, counts = rec['o'], rec['cid'], rec['L'], rec['bits0'], rec['counts']
    g = build(o, L, bits0, counts)
    do_run(g, mol, cid, 'id_mol')
    sg = state(g)
    f = build(o, typed(L, rec['ltype']), bits0, counts)
    if f.current_level is not None:
        raise Fail('current_level of a new Fingerprinter is %r' % (f.current_level,))
    f.reset_mol()
    f.initialize_mol(mol)
    f.initialize_conformer(mol.GetConformer(cid))
    steps = 0
    while True:
        try:
            next(f) if rng.random() < 0.5 else f.next()
        except StopIteration:
            break
        st = state(f)
        stats['steps'] += 1
        if st[0] != steps or steps > sg[0] or st[1] != {j: sg[1][j] for j in range(steps + 1)}:
            raise Fail('after %d iterations by hand the state is not the first %d levels of the finished run: %s'
                       % (steps + 1, steps, st_diff(st, (steps, {j: sg[1].get(j) for j in range(steps + 1)}))), {'stepped': st_json(st), 'finished_run': st_json(sg)})
        steps += 1
        if steps > 20000:
            raise Fail('the iteration does not stop')
    if state(f) != sg:
        raise Fail('iterating by hand to the stop gives another state than run(): %s' % st_diff(state(f), sg))
    for i in range(2):
        try:
            next(f)
            raise Fail('next() after the stop performed another iteration')
        except StopIteration:
            pass
        if state(f) != sg:
            raise Fail('next() after the stop changed the state: %s' % st_diff(state(f), sg))
    atoms = sorted(set(x for _, _, s in sg[1][0] for x in s))
    for _ in range(3):
        req, bits, mk, form = draw_query(rng, sg, atoms, list(range(0, sg[0] + 3)) + [-1, None, 'omit'])
        A, O = do_query(f, req, bits, mk, form), oracle(sg, counts, bits0, req, bits, mk)
        stats['queries'] += 1
        if A != O:
            raise Fail('request %r after iterating by hand differs from the expected fingerprint' % (req,), {'query': qjson(req, bits, mk, form), 'got': A, 'expected': O})
    return sg[0]


def stepping_stream(ctx, stats, n):
    rng = ctx.rng
    for (name, m, cid, forced) in cov_pool(rng, n):
        L = rng.choice([-1, None, 3, 5, 8, 30])
        o = draw_opts(rng, forced, L not in (-1, None))
        if excluded_input(m, o):
            continue
        rec = {'cov_stream': 'stepping', 'name': name, 'cid': int(cid), 'o': o, 'L': L, 'ltype': rng.choice(LTYPES), 'bits0': rng.choice([M32, 1024]),
               'counts': rng.random() < 0.5, 'sub': rng.getrandbits(32)}
        stats['stepping_inputs'] += 1
        run_check(ctx, check_stepping, rec, m, [cid], stats)


# ---------------------------------------------------------------------------------------------- stream: termination (run first)
def check_termination(rec, mol, stats):
    o, cid, L = rec['o'], rec['cid'], rec['L']
    f = build(o, typed(L, rec['ltype']), M32, False, rec['form'])
    do_run(f, mol, cid, 'id_mol', limit=rec['limit'])
    k = f.current_level
    stats['termination_runs'] += 1
    if L not in (-1, None) and k > L:
        raise Fail('a run limited to level %d ended at level %d' % (L, k))
    return k


def termination_stream(ctx, stats, n):
    """Every kind of cap on small molecules under a watchdog, BEFORE the other streams: a change that makes some run endless (cap 0
    ignored without duplicate removal, no roll-back on convergence ...) is reported with its input instead of hanging the check."""
    rng = ctx.rng
    stats.setdefault('termination_runs', 0)
    bad = False
    for i, (name, m, cid) in enumerate(molgen.pool(rng, n, with_shipped=False)):
        L = [0, 1, 2, -1, None, 0, 5, 1][i % 8]
        o = draw_opts(rng, {}, L not in (-1, None))
        if i % 8 in (0, 1, 5):
            o['remdup'] = False
        if excluded_input(m, o):
            continue
        rec = {'cov_stream': 'termination', 'name': name, 'cid': int(cid), 'o': o, 'L': L, 'ltype': rng.choice(LTYPES), 'form': rng.choice(['kw', 'pos']),
               'limit': 30, 'sub': 0}
        bad |= run_check(ctx, check_termination, rec, m, [cid], stats)
        if bad:
            break
    return bad


# ---------------------------------------------------------------------------------------------- stream: error paths
def errors_stream(ctx, stats):
    from e3fp.fingerprint.fprinter import Fingerprinter
    rng = ctx.rng
    bad = []
    for lv in (-1, None, np.int64(-1)):
        for form in ('kw', 'pos'):
            o = dict(molgen.DEFAULT_OPTS, remdup=False, mult=rng.choice(MULTS), stereo=rng.random() < 0.5)
            r = fpgen.attempt(lambda: build(o, lv, M32, rng.random() < 0.5, form))
            stats['error_paths'] += 1
            if r[0] == 'ok':
                bad.append('Fingerprinter(level=%r, remove_duplicate_substructs=False) was accepted: nothing would stop the run' % (lv,))
    for lv in (0, 3, -1, None, 'omit'):
        f = Fingerprinter(level=rng.choice([-1, 5]))
        r = do_query(f, lv, 'omit', None, 'kw', exact=rng.random() < 0.5)
        stats['error_paths'] += 1
        if r != ('err', 'EIndex'):
            bad.append('request %r on a Fingerprinter that has not run gives %r instead of IndexError' % (lv, r))
    name, m = molgen.shipped()[0]
    f = Fingerprinter(level=rng.choice([-1, 5]))
    f.run(0, m)
    f.reset()
    for lv in (0, 1, -1, None):
        r = do_query(f, lv, 'omit', None, 'kw')
        stats['error_paths'] += 1
        if r != ('err', 'EIndex') or f.current_level is not None:
            bad.append('request %r after reset() gives %r (current_level %r) instead of IndexError' % (lv, r, f.current_level))
    for b in bad:
        ctx.fail('C12 error paths: ' + b, {'cov_stream': 'errors', 'what': b}, finding_key='C12:cov:errors')
    ctx.count(('errors',), True, n=0)
    return bool(bad)


# ---------------------------------------------------------------------------------------------- extra cases for the model tie
def tie_cases(ctx, n):
    """Gridded cases of the new input classes for the model/implementation tie of c12.py (m1lib.Case): chains without disconnected
    atoms run to convergence (levels far beyond those of ordinary molecules), ions that join late or never, coincident atoms, large
    multipliers, no duplicate removal - each queried at levels below, at, just beyond and far beyond the level reached."""
    import m1lib
    rng = ctx.rng
    out = []
    st = ctx.coverage.setdefault('input_distribution', {}).setdefault('tie_extra', {'cases': 0, 'unstable_skipped': 0, 'levels_reached_hist': {}, 'by_class': {}})
    tries = 0
    while len(out) < n and tries < 4 * n:
        tries += 1
        cls = ['chain', 'far_ion', 'coincident', 'chain', 'big_mult', 'no_remdup', 'far_ion'][tries % 7]
        o = molgen.rand_opts(rng)
        if cls == 'chain':
            name, m0 = chain_mol(rng, rng.choice([4, 6, 9, 12]), gapped=False)
            o.update(incl=rng.random() < 0.25, level=rng.choice([-1, None, 20, 7]), remdup=True, mult=rng.choice([1.5, 1.718, 2.0]))
        elif cls == 'far_ion':
            name, m0 = far_ion_mol(rng)
            o.update(exfloat=False, mult=rng.choice([1.5, 1.718, 2.0, 3.0]))
        elif cls == 'coincident':
            name, m0 = coincident_mol(rng)
        elif cls == 'big_mult':
            name, m0, _ = molgen.pool(rng, 1, with_shipped=False)[0]
            o.update(mult=rng.choice([4.0, 10.0, 2.5]))
        else:
            name, m0, _ = molgen.pool(rng, 1, with_shipped=False)[0]
            o.update(level=rng.choice([2, 3, 4, 6]), remdup=False, mult=rng.choice([1.5, 1.718, 2.0]))
        if m0.GetNumHeavyAtoms() > 20:
            continue
        cid = rng.randrange(m0.GetNumConformers())
        m = molfacts.gridded(m0, conf_ids={m0.GetConformer(cid).GetId()})
        c = m1lib.Case('%s [%s]' % (name, cls), m, cid, o, bits=rng.choice([M32, 4096, 1024]), counts=rng.random() < 0.5)
        if c.unstable:
            st['unstable_skipped'] += 1
            continue
        if c.err is None:
            ret = c.heavy_retained()
            for lv in sorted(set([0, max(0, c.k - 1), c.k, c.k + 1, rng.choice(BIG[:5]), rng.choice([-1, None])]), key=str):
                mask = [] if rng.random() < 0.6 or not ret else rng.sample(ret, min(len(ret), rng.choice([1, 2])))
                c.add_query(lv, rng.choice([M32, 1024, 64]), mask)
            st['levels_reached_hist'][str(c.k)] = st['levels_reached_hist'].get(str(c.k), 0) + 1
        st['cases'] += 1
        st['by_class'][cls] = st['by_class'].get(cls, 0) + 1
        out.append(c)
    return out


# ---------------------------------------------------------------------------------------------- entry points
def new_stats():
    return {'inputs': 0, 'by_class': {}, 'long_run_level': {}, 'remdup_false': 0, 'counts': 0, 'levels_reached_hist': {}, 'converged_hist': {},
             'nest_pairs': 0, 'truncation_pairs': 0, 'limit_pairs': 0, 'queries': 0, 'reuse_sequences': 0, 'reuse_runs': 0,
             'stepping_inputs': 0, 'steps': 0, 'error_paths': 0, 'termination_runs': 0, 'skipped': {}}


def preflight(ctx):
    """True if some run did not terminate (recorded as a failure): the caller must not go on to streams that would hang."""
    stats = ctx.coverage.setdefault('input_distribution', {}).setdefault('coverage_streams', new_stats())
    return termination_stream(ctx, stats, ctx.n(24, 200))


def run_streams(ctx):
    stats = ctx.coverage.setdefault('input_distribution', {}).setdefault('coverage_streams', new_stats())
    before = len(ctx.violations) + len(ctx.known_hits)
    levels_stream(ctx, stats, ctx.n(100, 1200), ctx.n(1, 10))
    reuse_stream(ctx, stats, ctx.n(30, 250))
    stepping_stream(ctx, stats, ctx.n(40, 400))
    errors_stream(ctx, stats)
    ctx.count(None, False, n=stats['truncation_pairs'] + stats['limit_pairs'] + stats['nest_pairs'] + stats['reuse_runs'] + stats['steps'] + stats['error_paths'])
    return len(ctx.violations) + len(ctx.known_hits) > before


def replay(ctx, d):
    """Re-run the per-input comparison recorded in a replay file of one of the streams above."""
    c = d['case']
    stats = new_stats()
    print('replay of a C12 %s-stream input: %s' % (c['cov_stream'], d.get('what', '')[:300]))
    try:
        if c['cov_stream'] == 'errors':
            if errors_stream(ctx, stats):
                raise Fail(ctx.violations[-1]['what'])
        elif c['cov_stream'] == 'reuse':
            from rdkit import Chem
            m, other = mol_from_json(c['mols'][0]), mol_from_json(c['mols'][1])
            rec = dict(c, seq=[tuple(s) for s in c['seq']])
            check_reuse(rec, [m, other, Chem.Mol(m)], stats)
        else:
            m = mol_from_json(c['mol'])
            {'levels': check_levels, 'stepping': check_stepping, 'termination': check_termination}[c['cov_stream']](c, m, stats)
    except Fail as e:
        print('still fails: %s' % e.what)
        print('VIOLATION property=%s replay=%s' % (ctx.pid, d.get('_path', '')))
        return 1
    except Exception as e:  # noqa
        print('the implementation raises %s: %s' % (type(e).__name__, e))
        print('VIOLATION property=%s replay=%s' % (ctx.pid, d.get('_path', '')))
        return 1
    print('the recorded comparison passes on this tree now')
    return 0
