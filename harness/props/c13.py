"""C13 - conformer selection contract (model M5 = Model/Conformer.v, theorems in Properties/C13.v).

Theorem-backed (for every energy list, every RMSD oracle, every sorting permutation, every option value and every history of
molecules): order by energy, pairwise separation, energy window, count <= first and <= max_conformers, lowest first, reported
energies / RMSD matrix are those of the returned conformers, maximality, generator reuse.  Tied to the code by the streams
`synthetic`, `options`, `real-filter`, `pipeline`, `reuse` (each compares the Coq model, evaluated by vm_compute, with the code).
Tested only (RDKit owns them): embedding + minimisation reproduce under a seed, input molecule untouched, heavy-atom graph and
stereo preserved, wrapper consistency.

Every case is built from a JSON-able parameter dict by a `make_<stream>` function; `run` draws the parameters, `replay`
re-runs the recorded ones on the implementation and on the model."""
import json

import numpy as np

import core
import conf_gen as cg

IMPORTS = ['From Coq Require Import QArith.', 'From E3FP Require Import Base.Prelude Model.Conformer.']
GRID = [0, 0.25, 0.5, 0.75, 1.0, 1.5, 2.0]
TOL_E = '(Qmake 1 1000000000)'
TOL_R = '(Qmake 1 10000)'
SYM_TOL = 1e-4          # assumed symmetry of GetBestRMS, checked on every real pool


def _attempt(f):
    try:
        return ('ok', f())
    except ValueError:
        return ('err', 'EValue')
    except TypeError:
        return ('err', 'EType')
    except RuntimeError:
        return ('err', 'EOther')           # the model's `Raises EOther`: "No conformers generated"
    except Exception as e:                 # not an `err` constructor: the comparison fails loudly
        return ('err', 'EUnexpected_' + type(e).__name__)


def _optq(x):
    return 'None' if x is None else '(Some %s)' % cg.qlit(x)


def _mods():
    import e3fp.conformer.generator as G
    import e3fp.conformer.generate as GEN
    from e3fp.conformer import util as U
    return G, GEN, U


class Made(object):
    """What a make_<stream> function returns."""

    def __init__(self, payload):
        self.payload = payload
        self.cases = []          # (sub key, bool expr, model expr)
        self.fails = []          # (what, finding key, extra payload)
        self.skips = []          # reasons why (part of) the case is not compared
        self.stats = {}
        self.nontrivial = False

    def case(self, sub, expr, model):
        self.cases.append((sub, expr, model))

    def fail(self, what, key, **extra):
        self.fails.append((what, key, extra))


# --------------------------------------------------------------------------- synthetic oracles
def draw_synth(rng):
    k = rng.choice([1, 2, 3, 3, 4, 4, 5, 6, 8, 10, 18, 24])
    ties = rng.random() < 0.4
    E = [rng.choice(GRID) * rng.choice([1, 1, 2]) + (0 if ties else (i + 1) / 1024.0) for i in range(k)]
    if not ties:
        rng.shuffle(E)
    sym = rng.random() < 0.7
    T = [[0.0] * k for _ in range(k)]
    for a in range(k):
        for b in range(k):
            if a < b or (not sym and a != b):
                T[a][b] = rng.choice(GRID)
    if sym:
        for a in range(k):
            for b in range(a):
                T[a][b] = T[b][a]
    # conformer ids: positions, or something else entirely (the code must go through GetId())
    how = rng.choice(['positions', 'positions', 'shifted', 'scattered'])
    ids = list(range(k)) if how == 'positions' else [i + 7 for i in range(k)] if how == 'shifted' else rng.sample(range(3 * k + 5), k)
    return {'smiles': 'CCCCO', 'k': k, 'E': E, 'T': T, 'conf_ids': ids,
            'cutoff_arg': rng.choice([None, 0, 0.25, 0.25, 0.5, 0.5, 0.75, 1.0, 1.5, -2.0]),
            'ediff_arg': rng.choice([None, None, 0, 0.25, 0.5, 1.0, 2.0, 2.0, 4.0, -3]),
            'first_conformers': rng.choice([-1, 1, 2, 3, 3, 4, max(1, k - 1), max(1, k - 1), k, k, k + 1, 50, 50]),
            'ties': ties, 'symmetric': sym}


def _renumber(mol, ids):
    confs = list(mol.GetConformers())
    for c, i in zip(confs, ids):
        c.SetId(10 ** 6 + i)
    for c in mol.GetConformers():
        c.SetId(c.GetId() - 10 ** 6)


def make_synth(c):
    """filter_conformers with the two oracle calls replaced (harness side only), against filter_core / filter_conformers."""
    G, _, _ = _mods()
    md = Made(dict(c, stream='synthetic'))
    mol = cg.embed_pool(c['smiles'], c['k'], minimise=False)
    if mol.GetNumConformers() != c['k']:
        md.skips.append('pool-size-differs')
        return md
    _renumber(mol, c['conf_ids'])
    pos_of = {i: p for p, i in enumerate(c['conf_ids'])}
    before = [np.array(cf.GetPositions()) for cf in mol.GetConformers()]
    heavy = [a.GetIdx() for a in mol.GetAtoms() if a.GetAtomicNum() > 1]
    g = G.ConformerGenerator(num_conf=5, rmsd_cutoff=c['cutoff_arg'], max_energy_diff=c['ediff_arg'])
    g.first_conformers = c['first_conformers']
    E, T = c['E'], c['T']
    g.get_conformer_energies = lambda m: np.array(E, dtype=float)
    calls = []

    def oracle(prb, ref, prb_id, ref_id, *a, **k):
        calls.append((pos_of[int(prb_id)], pos_of[int(ref_id)]))
        return float(T[pos_of[int(prb_id)]][pos_of[int(ref_id)]])
    with cg.patched_allchem(GetBestRMS=oracle):
        new, acc, en, rm = g.filter_conformers(mol)
    acc = [int(x) for x in acc]
    en = [float(x) for x in en]
    rm = [[float(x) for x in r] for r in rm]
    md.payload['impl'] = {'accepted': acc, 'energies': en, 'rmsds': rm}
    md.payload['resolved'] = {'rmsd_cutoff': g.rmsd_cutoff, 'max_energy_diff': g.max_energy_diff}
    order = [int(x) for x in np.argsort(np.array(E, dtype=float))]
    opts = cg.fopts_lit(c['first_conformers'], g.max_energy_diff, g.rmsd_cutoff)
    model = 'filter_core (table_rmsd %s) %s %s %s' % (cg.qmat(T), cg.qlist(E), opts, cg.natlist(order))
    expr = 'out_eqb (%s) %s' % (model, cg.out_lit(acc, en, rm))
    if not c['ties']:
        expr = '(%s) && out_eqb (filter_conformers (table_rmsd %s) %s %s) %s' % (expr, cg.qmat(T), cg.qlist(E), opts, cg.out_lit(acc, en, rm))
    md.case('', expr, model)
    # the clauses of the property directly on the implementation's output (model-free)
    bad = []
    if any(en[i] > en[i + 1] for i in range(len(en) - 1)):
        bad.append('sorted')
    if en != [E[a] for a in acc]:
        bad.append('energies_reported')
    if len(set(acc)) != len(acc):
        bad.append('nodup')
    if acc and E[acc[0]] != min(E):
        bad.append('lowest_first')
    if len(acc) > max(1, c['first_conformers']):
        bad.append('le_first')
    if g.max_energy_diff != -1.0 and any(E[a] > E[acc[0]] + g.max_energy_diff for a in acc):
        bad.append('window')
    for i in range(len(acc)):
        for j in range(len(acc)):
            if rm[i][j] != (0.0 if i == j else T[acc[min(i, j)]][acc[max(i, j)]]):
                bad.append('rmsd_reported')
            if i < j and T[acc[i]][acc[j]] < g.rmsd_cutoff:
                bad.append('far')
    for v in sorted(set(bad)):
        md.fail('filter_conformers output violates the contract directly (%s)' % v, 'contract:' + v)
    ok = new.GetNumConformers() == len(acc) and [cf.GetId() for cf in new.GetConformers()] == list(range(len(acc)))
    if ok:
        ok = all(np.array_equal(np.array(new.GetConformer(i).GetPositions()), before[a][heavy]) for i, a in enumerate(acc))
    if not ok:
        md.fail('returned molecule does not carry the accepted conformers in order', 'contract:conformers-copied')
    if any(a not in acc for a, _ in calls):
        md.fail('GetBestRMS probe is not an accepted conformer', 'contract:oracle-orientation')
    rej = {'window': 0, 'rmsd': 0, 'first': 0}
    for r in range(c['k']):
        if r not in acc:
            if g.max_energy_diff != -1.0 and E[r] > E[acc[0]] + g.max_energy_diff:
                rej['window'] += 1
            elif any(T[a][r] < g.rmsd_cutoff for a in acc):
                rej['rmsd'] += 1
            else:
                rej['first'] += 1
    md.stats = {'rej': rej, 'n_acc': len(acc)}
    md.nontrivial = 1 < len(acc) < c['k']
    return md


# --------------------------------------------------------------------------- constructor and option state over histories
_CHAINS = {}


def chain_mol(n):
    from rdkit import Chem
    from rdkit.Chem import AllChem
    if n not in _CHAINS:
        m = Chem.MolFromSmiles(cg.CHAINS[n])
        _CHAINS[n] = (m, int(AllChem.CalcNumRotatableBonds(Chem.AddHs(m))))
    return _CHAINS[n]


def draw_options(rng):
    return {'nc': rng.choice([-1, -1, -1, -1, 1, 2, 3, 3, 7, 12, 20, 0, -2]), 'f': rng.choice([-1, -1, -1, -1, 1, 2, 2, 5, 10, 60, 0, -3]),
            'cut': rng.choice([None, 0, 0.5, 1.25, -1.0, -0.5]), 'ed': rng.choice([None, 0, 2.5, -1.0, -4]),
            'pm': rng.choice([1, 1, 1, 1, 2, 2, 3, 3, 5, 8, 0, -1]),
            'hist': [rng.choice(sorted(cg.CHAINS)) for _ in range(rng.choice([1, 2, 3, 5]))]}


def make_options(p):
    G, _, _ = _mods()
    md = Made(dict(p, stream='options'))
    nc, f, cut, ed, pm = p['nc'], p['f'], p['cut'], p['ed'], p['pm']
    r = _attempt(lambda: G.ConformerGenerator(num_conf=nc, first=f, rmsd_cutoff=cut, max_energy_diff=ed, pool_multiplier=pm))
    mk = 'mk_generator %s %s %s %s %s' % (core.zlit(nc), core.zlit(f), _optq(cut), _optq(ed), core.zlit(pm))
    if r[0] == 'err':
        md.payload['impl'] = r[1]
        md.stats = {'ctor_error': 1}
        md.case('', 'result_eqb ctor_obs_eqb (rbind (%s) (fun g => Ok (ctor_obs g))) (Raises %s)' % (mk, r[1]), mk)
        return md
    g = r[1]
    obs0 = '(%s, %s, %s, %s, (%s, %s, %s))' % (core.zlit(g.num_conf), core.zlit(g.first), core.zlit(g.max_conformers), core.zlit(g.first_conformers),
                                               cg.qlit(g.rmsd_cutoff), cg.qlit(g.max_energy_diff), core.zlit(g.pool_multiplier))
    trace, asked = [], []

    def fake_embed(mol, numConfs=None, **kw):
        asked.append(int(numConfs))
        return []
    for n in p['hist']:
        with cg.patched_allchem(EmbedMultipleConfs=fake_embed):
            g.embed_molecule(chain_mol(n)[0])
        trace.append((g.num_conf, g.first, g.max_conformers, g.first_conformers, asked[-1]))
    nrots = [chain_mol(n)[1] for n in p['hist']]
    md.payload['nrot_history'] = nrots
    md.payload['impl_trace(num_conf,first,max_conformers,first_conformers,n_confs)'] = trace
    tr_lit = core.listlit(['((%s, %s, %s, %s), %s)' % tuple(core.zlit(x) for x in t) for t in trace])
    rs = core.zlist(nrots)
    md.case('', 'match %s with Ok g => ctor_obs_eqb (ctor_obs g) %s && trace_eqb (resolve_trace g %s) %s | Raises _ => false end' % (mk, obs0, rs, tr_lit),
            'match %s with Ok g => resolve_trace g %s | Raises _ => [] end' % (mk, rs))
    # the reuse clause directly: the last molecule through a fresh object resolves the same values
    g2 = G.ConformerGenerator(num_conf=nc, first=f, rmsd_cutoff=cut, max_energy_diff=ed, pool_multiplier=pm)
    with cg.patched_allchem(EmbedMultipleConfs=fake_embed):
        g2.embed_molecule(chain_mol(p['hist'][-1])[0])
    if (g2.max_conformers, g2.first_conformers, asked[-1]) != (trace[-1][2], trace[-1][3], trace[-1][4]):
        md.fail('resolved options depend on the molecules processed before', 'reuse:resolved-options')
    md.nontrivial = len(set(x >= 8 for x in nrots)) > 1 or nc != -1
    return md


# --------------------------------------------------------------------------- real RDKit pools
def pool_like_impl(smiles, name, n_confs, seed, forcefield):
    """Rebuild, with RDKit only, the pool e3fp would embed and minimise for this molecule (same calls, same seed)."""
    from rdkit import Chem
    from rdkit.Chem import AllChem
    from e3fp.conformer.util import mol_from_smiles
    m = Chem.AddHs(mol_from_smiles(smiles, name))
    Chem.SanitizeMol(m)
    AllChem.EmbedMultipleConfs(m, numConfs=n_confs, maxAttempts=10 * n_confs, pruneRmsThresh=-1.0, randomSeed=seed,
                               ignoreSmoothingFailures=True)
    for cf in m.GetConformers():
        if forcefield == 'uff':
            AllChem.UFFGetMoleculeForceField(m, confId=cf.GetId()).Minimize()
        else:
            AllChem.MMFFSanitizeMolecule(m)
            p = AllChem.MMFFGetMoleculeProperties(m, mmffVariant=forcefield)
            AllChem.MMFFGetMoleculeForceField(m, p, confId=cf.GetId()).Minimize()
    return m


def unstable_reason(E, T, cutoff, ediff):
    """None, or why a decision of the loop lies within round-off of its threshold (model and code may then legitimately differ).
    Energies are re-measured bit-identically (checked by the exact comparison of the returned energies): the order is exact."""
    n = len(E)
    if cutoff != -1.0 and any(abs(T[a][b] - cutoff) < 1e-5 for a in range(n) for b in range(n) if a != b):
        return 'rmsd-within-1e-5-of-cutoff'
    if ediff != -1.0 and any(abs(e - (min(E) + ediff)) < 1e-9 for e in E):
        return 'energy-within-1e-9-of-window-edge'
    return None


def asymmetry(T):
    n = len(T)
    return max([abs(T[a][b] - T[b][a]) for a in range(n) for b in range(n)] + [abs(T[a][a]) for a in range(n)] + [0.0])


def _check_symmetry(md, T):
    a = asymmetry(T)
    md.stats['asymmetry'] = a
    if a > SYM_TOL:
        md.fail('GetBestRMS is not symmetric / zero on the diagonal within %g on this pool (max deviation %.3g): the assumption of accepted_far / '
                'rmsd_reported_sym does not hold' % (SYM_TOL, a), 'assumption:getbestrms-symmetry', rmsd_table=T)


def draw_real(rng, i):
    name, smi = cg.MOLS[i % len(cg.MOLS)]
    return {'molecule': name, 'smiles': smi, 'forcefield': rng.choice(['uff', 'uff', 'mmff94', 'mmff94s']), 'num_conf': rng.choice([4, 5, 6, 8]),
            'rmsd_cutoff': rng.choice([None, 0.3, 0.5, 0.8, 1.2]), 'max_energy_diff': rng.choice([None, 0.5, 1.0, 2.0, 5.0]),
            'first': rng.choice([-1, -1, 1, 2, 3]), 'seed': rng.randrange(1, 10 ** 6)}


def make_real(p):
    """filter_conformers on a pool embedded and minimised by e3fp; energies and RMSDs re-measured independently on a copy."""
    from rdkit import Chem
    G, _, U = _mods()
    md = Made(dict(p, stream='real-filter'))
    g = G.ConformerGenerator(num_conf=p['num_conf'], first=p['first'], rmsd_cutoff=p['rmsd_cutoff'], max_energy_diff=p['max_energy_diff'],
                             forcefield=p['forcefield'], seed=p['seed'])
    pool = g.embed_molecule(U.mol_from_smiles(p['smiles'], p['molecule']))
    if not pool.GetNumConformers():
        md.skips.append('embedding-returned-no-conformer')
        return md
    g.minimize_conformers(pool)
    ref = Chem.Mol(pool)
    E = cg.measure_energies(ref, p['forcefield'])
    T = cg.measure_rmsds(ref)
    new, acc, en, rm = g.filter_conformers(pool)
    acc = [int(x) for x in acc]
    md.payload.update(energies_remeasured=E, rmsd_remeasured=T,
                      impl={'accepted': acc, 'energies': [float(x) for x in en], 'rmsds': [[float(x) for x in r] for r in rm]})
    _check_symmetry(md, T)
    why = unstable_reason(E, T, g.rmsd_cutoff, g.max_energy_diff)
    if why:
        md.skips.append(why)
        return md
    model = 'filter_conformers (table_rmsd %s) %s %s' % (cg.qmat(T), cg.qlist(E), cg.fopts_lit(g.first_conformers, g.max_energy_diff, g.rmsd_cutoff))
    md.case('', 'out_close2 %s %s (%s) %s' % (TOL_E, TOL_R, model, cg.out_lit(acc, en, rm)), model)
    md.nontrivial = 1 < len(acc) < len(E)
    return md


def gen_obs(mol, vals):
    return {'smiles': cg.canon_smiles(mol), 'coords': [np.array(cf.GetPositions()).round(12).tolist() for cf in mol.GetConformers()],
            'max_conformers': int(vals[0]), 'indices': [int(x) for x in vals[1]], 'energies': [float(x) for x in vals[2]],
            'rmsds': np.asarray(vals[3]).tolist(), 'prop': mol.GetProp('_ConfEnergies') if mol.HasProp('_ConfEnergies') else None}


def _kw(p):
    return {k: p[k] for k in ('num_conf', 'first', 'pool_multiplier', 'rmsd_cutoff', 'max_energy_diff', 'forcefield', 'seed')}


def _mk_lit(kw):
    return 'mk_generator %s %s %s %s %s' % (core.zlit(kw['num_conf']), core.zlit(kw['first']), _optq(kw['rmsd_cutoff']), _optq(kw['max_energy_diff']),
                                            core.zlit(kw['pool_multiplier']))


def _pool_lit(n, E, T):
    return '(%s, %s, %s)' % (core.zlit(n), cg.qlist(E), cg.qmat(T))


def _res_lit(r):
    """('ok', gen_obs) | ('err', tag) -> result (Z * out) literal."""
    if r[0] == 'err':
        return '(Raises %s)' % r[1]
    o = r[1]
    return '(Ok (%s, %s))' % (core.zlit(o['max_conformers']), cg.out_lit(o['indices'], o['energies'], o['rmsds']))


def draw_pipeline(rng, i):
    name, smi = cg.MOLS[(i * 7 + 3) % len(cg.MOLS)]
    nc = rng.choice([2, 3, 4, 5])
    return {'molecule': name, 'smiles': smi, 'forcefield': rng.choice(['uff', 'uff', 'mmff94']), 'num_conf': nc, 'pool_multiplier': rng.choice([1, 2, 3]),
            'first': rng.choice([-1, -1, 1, 2, nc + 2]), 'rmsd_cutoff': rng.choice([None, 0.4, 0.5, 1.0]), 'max_energy_diff': rng.choice([None, 1.0, 3.0]),
            'seed': rng.randrange(1, 10 ** 6), 'empty_pool': i % 8 == 5}


def make_pipeline(p):
    """generate_conformers end to end against the model's `generate` on a pool rebuilt with RDKit only, plus the clauses RDKit owns."""
    from rdkit import Chem
    from rdkit.Chem import AllChem
    G, _, U = _mods()
    md = Made(dict(p, stream='pipeline'))
    kw = _kw(p)
    name, smi = p['molecule'], p['smiles']
    src = U.mol_from_smiles(smi, name)
    nrot = int(AllChem.CalcNumRotatableBonds(Chem.AddHs(src)))
    n_confs = p['num_conf'] * p['pool_multiplier']
    sig0 = cg.mol_signature(src)
    g = G.ConformerGenerator(get_values=True, sparse_rmsd=False, **kw)
    if p.get('empty_pool'):
        # the branch "No conformers generated": RDKit embeds nothing
        with cg.patched_allchem(EmbedMultipleConfs=lambda *a, **k: []):
            r = _attempt(lambda: gen_obs(*g.generate_conformers(src)))
        md.payload['impl'] = r[1]
        model = 'snd (tab_generate [%s] [%s] g 0%%nat)' % (core.zlit(nrot), _pool_lit(n_confs, [], []))
        md.case('', 'match %s with Ok g => gen_result_close2 %s %s (%s) %s | Raises _ => false end' % (_mk_lit(kw), TOL_E, TOL_R, model, _res_lit(r)),
                'match %s with Ok g => %s | Raises e => Raises e end' % (_mk_lit(kw), model))
        if cg.mol_signature(src) != sig0:
            md.fail('generate_conformers modified its input molecule', 'input-modified')
        md.stats['empty_pool'] = 1
        return md
    mol1, v1 = g.generate_conformers(src)
    o1 = gen_obs(mol1, v1)
    md.payload['impl'] = {x: o1[x] for x in ('indices', 'energies', 'rmsds', 'max_conformers', 'prop')}
    if cg.mol_signature(src) != sig0:
        md.fail('generate_conformers modified its input molecule', 'input-modified', before=sig0, after=cg.mol_signature(src))
    want = Chem.MolToSmiles(Chem.RemoveHs(Chem.Mol(src)), isomericSmiles=True)
    if o1['smiles'] != want:
        md.fail('returned molecule differs from the input (graph/stereo): %s vs %s' % (o1['smiles'], want), 'identity-changed')
    for cf in mol1.GetConformers():
        cp = Chem.Mol(mol1)
        Chem.AssignStereochemistryFrom3D(cp, confId=cf.GetId(), replaceExistingTags=True)
        if Chem.MolToSmiles(cp, isomericSmiles=True) != want:
            md.fail('conformer %d has another stereochemistry in 3D than the input' % cf.GetId(), 'stereo-3d-changed')
            break
    mol2, v2 = G.ConformerGenerator(get_values=True, sparse_rmsd=False, **kw).generate_conformers(U.mol_from_smiles(smi, name))
    o2 = gen_obs(mol2, v2)
    if o1 != o2:
        md.fail('two seeded runs differ', 'seed-not-reproducible', first_run=o1, second_run=o2)
    stored = U.get_conformer_energies_from_mol(mol1)
    if stored is None or [('%.4f' % e) for e in o1['energies']] != o1['prop'].split('|') or len(stored) != mol1.GetNumConformers():
        md.fail('energies stored on the molecule are not the returned ones at 4 decimals', 'stored-energies')
    T1 = cg.measure_rmsds(mol1)
    n1 = mol1.GetNumConformers()
    if any(abs(T1[min(a, b)][max(a, b)] - o1['rmsds'][a][b]) > 1e-4 for a in range(n1) for b in range(n1)):
        md.fail('reported RMSD matrix is not the RMSD of the returned conformers', 'rmsd-matrix', remeasured=T1)
    cap = min(p['first'], p['num_conf']) if p['first'] != -1 else p['num_conf']
    if len(o1['indices']) > cap or o1['max_conformers'] != p['num_conf']:
        md.fail('more conformers than requested (first/maximum): %d returned, cap %d' % (len(o1['indices']), cap), 'count')
    # the model's `generate` (constructor, option resolution, pool size, filter) on a pool rebuilt without e3fp
    pool = pool_like_impl(smi, name, n_confs, p['seed'], p['forcefield'])
    E = cg.measure_energies(pool, p['forcefield'])
    T = cg.measure_rmsds(pool)
    md.payload.update(energies_remeasured=E, rmsd_remeasured=T)
    _check_symmetry(md, T)
    why = unstable_reason(E, T, g.rmsd_cutoff, g.max_energy_diff)
    if why:
        md.skips.append(why)
    else:
        model = 'snd (tab_generate [%s] [%s] g 0%%nat)' % (core.zlit(nrot), _pool_lit(n_confs, E, T))
        md.case('', 'match %s with Ok g => gen_result_close2 %s %s (%s) %s | Raises _ => false end' % (_mk_lit(kw), TOL_E, TOL_R, model, _res_lit(('ok', o1))),
                'match %s with Ok g => %s | Raises e => Raises e end' % (_mk_lit(kw), model))
    md.stats['first_above_num_conf'] = int(p['first'] > p['num_conf'])
    md.nontrivial = len(o1['indices']) > 1
    return md


def draw_reuse(rng):
    seq = [list(cg.MOLS[rng.randrange(len(cg.MOLS))]) for _ in range(rng.choice([2, 3, 4]))]
    if rng.random() < 0.5:
        seq.insert(rng.randrange(len(seq) + 1), ['decane', 'CCCCCCCCCCCC'])     # 9 rotatable bonds: resolves 200 when num_conf = -1
    nc = rng.choice([-1, 3, 4, 4])
    p = {'num_conf': nc, 'first': rng.choice([-1, 2, 6]) if nc != -1 else 2, 'pool_multiplier': 1 if nc == -1 else rng.choice([1, 2]),
         'rmsd_cutoff': rng.choice([0.5, 1.0]), 'max_energy_diff': rng.choice([None, 2.0]), 'forcefield': 'uff', 'seed': rng.randrange(1, 10 ** 6)}
    p['sequence'] = seq[:2] if nc == -1 else seq     # 50/200 conformers per molecule: keep it short
    return p


def make_reuse(p):
    """One generator object over a sequence of molecules: equal to a fresh object per molecule (implementation), and equal to the
    model's generate (after_history ...) on independently rebuilt pools (explicit num_conf; the auto sizes 50/200 are left to the
    `options` stream and to the implementation-only comparison)."""
    from rdkit import Chem
    from rdkit.Chem import AllChem
    G, _, U = _mods()
    md = Made(dict(p, stream='reuse'))
    kw = _kw(p)
    shared = G.ConformerGenerator(get_values=True, sparse_rmsd=False, **kw)
    outs, nrots, pools, unstable = [], [], [], None
    for name, smi in p['sequence']:
        a = gen_obs(*shared.generate_conformers(U.mol_from_smiles(smi, name)))
        b = gen_obs(*G.ConformerGenerator(get_values=True, sparse_rmsd=False, **kw).generate_conformers(U.mol_from_smiles(smi, name)))
        if a != b:
            md.fail('a reused generator returns something else than a fresh one for %s' % name, 'reuse:result', reused=a, fresh=b)
        outs.append(a)
        if p['num_conf'] != -1:
            n_confs = p['num_conf'] * p['pool_multiplier']
            pool = pool_like_impl(smi, name, n_confs, p['seed'], p['forcefield'])
            E, T = cg.measure_energies(pool, p['forcefield']), cg.measure_rmsds(pool)
            _check_symmetry(md, T)
            unstable = unstable or unstable_reason(E, T, shared.rmsd_cutoff, shared.max_energy_diff)
            nrots.append(int(AllChem.CalcNumRotatableBonds(Chem.AddHs(Chem.MolFromSmiles(smi)))))
            pools.append(_pool_lit(n_confs, E, T))
    md.payload['impl'] = [{x: o[x] for x in ('indices', 'energies', 'max_conformers')} for o in outs]
    if p['num_conf'] == -1:
        md.skips.append('auto-sized-pool-not-sent-to-coq')
    elif unstable:
        md.skips.append(unstable)
    else:
        nl, pl = core.zlist(nrots), core.listlit(pools)
        for i, o in enumerate(outs):
            hist = cg.natlist(range(i))
            model = 'snd (tab_generate %s %s (tab_after %s %s g %s) %d%%nat)' % (nl, pl, nl, pl, hist, i)
            md.case('step%d' % i, 'match %s with Ok g => gen_result_close2 %s %s (%s) %s | Raises _ => false end' % (_mk_lit(kw), TOL_E, TOL_R, model, _res_lit(('ok', o))),
                    'match %s with Ok g => %s | Raises e => Raises e end' % (_mk_lit(kw), model))
    md.nontrivial = True
    return md


def draw_wrapper(rng):
    name, smi = cg.MOLS[rng.randrange(len(cg.MOLS))]
    return {'molecule': name, 'smiles': smi, 'num_conf': rng.choice([3, 4, 5]), 'first': rng.choice([-1, 2]), 'pool_multiplier': rng.choice([1, 2]),
            'rmsd_cutoff': rng.choice([0.4, 0.8]), 'max_energy_diff': rng.choice([None, 3.0]), 'forcefield': rng.choice(['uff', 'mmff94']),
            'seed': rng.randrange(1, 10 ** 6)}


def make_wrapper(p):
    from rdkit.Chem import AllChem
    G, GEN, U = _mods()
    md = Made(dict(p, stream='wrapper'))
    kw = _kw(p)
    name, smi = p['molecule'], p['smiles']
    src = U.mol_from_smiles(smi, name)
    sig0 = cg.mol_signature(src)
    r = GEN.generate_conformers(src, standardise=False, save=False, **kw)
    if r is False:
        md.fail('wrapper generate_conformers returned False', 'wrapper:false')
        return md
    mol, rname, nrot, maxc, idx, en, sparse = r
    full_mol, v = G.ConformerGenerator(get_values=True, sparse_rmsd=False, **kw).generate_conformers(U.mol_from_smiles(smi, name))
    full = gen_obs(full_mol, v)
    stored = U.get_conformer_energies_from_mol(mol)
    md.payload['impl'] = {'indices': [int(x) for x in idx], 'energies': [float(x) for x in en], 'sparse_rmsd': [float(x) for x in sparse]}
    problems = []
    if rname != name:
        problems.append('name')
    if nrot != AllChem.CalcNumRotatableBonds(src):
        problems.append('nrot')
    if maxc != kw['num_conf']:
        problems.append('max_conformers')
    if [int(x) for x in idx] != full['indices'] or [float(x) for x in en] != full['energies']:
        problems.append('indices/energies differ from the generator run with the same seed')
    if mol.GetNumConformers() != len(idx) or len(en) != len(idx):
        problems.append('lengths')
    if stored is None or ['%.4f' % e for e in en] != ['%.4f' % e for e in stored]:
        problems.append('stored energies')
    if cg.mol_signature(src) != sig0:
        problems.append('input modified')
    if problems:
        md.fail('wrapper result inconsistent: ' + '; '.join(problems), 'wrapper:' + problems[0])
    md.case('', 'q_list_eqb (triu %s 1%%nat) %s' % (cg.qmat(full['rmsds']), cg.qlist([float(x) for x in sparse])), 'triu %s 1%%nat' % cg.qmat(full['rmsds']))
    md.nontrivial = len(idx) > 2
    return md


MAKERS = {'synthetic': make_synth, 'options': make_options, 'real-filter': make_real, 'pipeline': make_pipeline, 'reuse': make_reuse,
          'wrapper': make_wrapper}
PARAM_KEYS = {'synthetic': ('smiles', 'k', 'E', 'T', 'conf_ids', 'cutoff_arg', 'ediff_arg', 'first_conformers', 'ties', 'symmetric'),
              'options': ('nc', 'f', 'cut', 'ed', 'pm', 'hist'),
              'real-filter': ('molecule', 'smiles', 'forcefield', 'num_conf', 'rmsd_cutoff', 'max_energy_diff', 'first', 'seed'),
              'pipeline': ('molecule', 'smiles', 'forcefield', 'num_conf', 'pool_multiplier', 'first', 'rmsd_cutoff', 'max_energy_diff', 'seed', 'empty_pool'),
              'reuse': ('num_conf', 'first', 'pool_multiplier', 'rmsd_cutoff', 'max_energy_diff', 'forcefield', 'seed', 'sequence'),
              'wrapper': ('molecule', 'smiles', 'num_conf', 'first', 'pool_multiplier', 'rmsd_cutoff', 'max_energy_diff', 'forcefield', 'seed')}


def run(ctx):
    ok, res = core.proof_step(ctx)
    rng = ctx.rng
    cases, payloads, mexpr = [], {}, {}
    found = [False]
    dist = {'cases_by_stream': {}, 'params_by_stream': {}, 'skipped': {}, 'synthetic_ties': 0, 'synthetic_asymmetric_oracle': 0,
            'synthetic_unstable_argsort_sizes': 0, 'synthetic_ids_not_positions': 0, 'accepted_count_hist': {}, 'reject_first': 0, 'reject_window': 0,
            'reject_rmsd': 0, 'ctor_errors_expected': 0, 'empty_pool_runs': 0, 'first_above_num_conf': 0, 'real_pools_measured': 0,
            'getbestrms_max_asymmetry': 0.0, 'getbestrms_asymmetry_violations': 0, 'by_forcefield': {}}

    def bump(d, k, n=1):
        d[k] = d.get(k, 0) + n

    def take(stream, tag, params, sample=False):
        md = MAKERS[stream](params)
        bump(dist['params_by_stream'], stream)
        for why in md.skips:
            bump(dist['skipped'], '%s: %s' % (stream, why))
        for sub, expr, model in md.cases:
            key = '%s/%s%s' % (stream, tag, ('/' + sub) if sub else '')
            cases.append((key, expr))
            payloads[key] = md.payload
            mexpr[key] = model
            bump(dist['cases_by_stream'], stream)
        for what, fk, extra in md.fails:
            found[0] = True
            ctx.fail(what, dict(md.payload, **extra), finding_key=fk)
        if 'asymmetry' in md.stats:
            dist['real_pools_measured'] += 1
            dist['getbestrms_max_asymmetry'] = max(dist['getbestrms_max_asymmetry'], md.stats['asymmetry'])
            dist['getbestrms_asymmetry_violations'] += md.stats['asymmetry'] > SYM_TOL
        ctx.count((stream, json.dumps({k: params.get(k) for k in PARAM_KEYS[stream]}, sort_keys=True, default=str)), md.nontrivial and bool(md.cases))
        if sample and md.cases:
            ctx.sample({'case': '%s/%s' % (stream, tag), 'parameters': {k: params.get(k) for k in PARAM_KEYS[stream]},
                        'implementation': md.payload.get('impl'), 'model_check': md.cases[0][1][:300]})
        return md

    for i in range(ctx.n(2000, 20000)):
        c = draw_synth(rng)
        md = take('synthetic', str(i), c, sample=i < 2)
        dist['synthetic_ties'] += c['ties']
        dist['synthetic_asymmetric_oracle'] += (not c['symmetric'])
        dist['synthetic_unstable_argsort_sizes'] += (c['k'] > 16 and c['ties'])
        dist['synthetic_ids_not_positions'] += c['conf_ids'] != list(range(c['k']))
        if md.stats:
            bump(dist['accepted_count_hist'], md.stats['n_acc'])
            for k, v in md.stats['rej'].items():
                dist['reject_' + k] += v
    for i in range(ctx.n(150, 1500)):
        md = take('options', str(i), draw_options(rng), sample=i < 1)
        dist['ctor_errors_expected'] += md.stats.get('ctor_error', 0)
    for i in range(ctx.n(24, 180)):
        p = draw_real(rng, i)
        bump(dist['by_forcefield'], p['forcefield'])
        take('real-filter', str(i), p, sample=i < 1)
    for i in range(ctx.n(16, 120)):
        md = take('pipeline', str(i), draw_pipeline(rng, i), sample=i < 1)
        dist['empty_pool_runs'] += md.stats.get('empty_pool', 0)
        dist['first_above_num_conf'] += md.stats.get('first_above_num_conf', 0)
    for i in range(ctx.n(6, 40)):
        take('reuse', str(i), draw_reuse(rng))
    for i in range(ctx.n(6, 40)):
        take('wrapper', str(i), draw_wrapper(rng))

    # a stream that compares nothing proves nothing
    for stream in MAKERS:
        if not dist['cases_by_stream'].get(stream):
            ctx.fail('stream %s produced no comparable case (%d parameter sets drawn, skipped: %s)' % (stream, dist['params_by_stream'].get(stream, 0),
                     {k: v for k, v in dist['skipped'].items() if k.startswith(stream)}), {'stream': stream}, no_input=True, kind='harness-error')

    nbad = core.compare_cases(ctx, cases, IMPORTS, 'C13 conformer selection', payloads, model_expr=mexpr,
                              finding_key_of=lambda k, pl: 'model-vs-code:%s' % pl.get('stream'))
    found_input = found[0] or nbad > 0
    dist['accepted_count_hist'] = {str(k): v for k, v in sorted(dist['accepted_count_hist'].items())}
    ctx.coverage['rule'] = ('synthetic: real k-conformer molecule (k in 1..24, conformer ids = positions / shifted / scattered), energies and RMSD table from a dyadic '
                            'grid injected through the two oracle calls, options from grids hitting ties with the cut-off and the window edge; non-trivial = '
                            '1 < #accepted < k. options: constructor + option state over histories of molecules with 0..15 rotatable bonds. real-filter: '
                            'filter_conformers on e3fp-built pools with independently re-measured energies/RMSDs. pipeline / reuse: generate_conformers against the '
                            'model\'s `generate (after_history ..)` on pools rebuilt with RDKit only, incl. the empty-pool RuntimeError; plus seed, identity, '
                            'input-unmodified and wrapper checks; non-trivial = more than one conformer returned. distinct by full parameter set; every skipped '
                            'comparison is counted under input_distribution.skipped with its reason')
    ctx.coverage['input_distribution'] = dist
    ctx.coverage['trusted_base'] = ['RDKit (ETKDG embedding, UFF/MMFF94 minimisation and energies, GetBestRMS, AddHs/RemoveHs, conformer copying): oracles of the '
                                    'model; their determinism under a seed and the identity of the molecule are exercised by the pipeline/reuse/wrapper streams only '
                                    '(testing, not proof)']
    ctx.assumptions += ['np.argsort returns a permutation that sorts the energies (any such permutation is covered by the theorems; the unstable default sort is '
                        'observed for k >= 17 with ties and fed to the model as observed)',
                        'GetBestRMS is symmetric and zero on the diagonal (needed by accepted_far / rmsd_reported_sym only): CHECKED on every real pool of this run, '
                        'max deviation %.3g over %d pools, %d above %g' % (dist['getbestrms_max_asymmetry'], dist['real_pools_measured'],
                                                                            dist['getbestrms_asymmetry_violations'], SYM_TOL),
                        'float comparisons equal exact rational comparisons: synthetic values are dyadic (exact); real cases within round-off of a threshold are skipped '
                        'and counted (input_distribution.skipped)',
                        'PARTIAL: seed reproducibility, input-unmodified, graph/stereo preservation and the wrapper are tests on %d RDKit runs, not theorems'
                        % sum(dist['params_by_stream'].get(s, 0) for s in ('real-filter', 'pipeline', 'reuse', 'wrapper'))]
    if not ok:
        core.report_broken_proof(ctx, res, found_input)


def replay(ctx, path):
    """Re-run a recorded case: the implementation from the recorded parameters, the model in Coq; exit 1 if they still disagree
    or a direct clause is still violated."""
    d = json.load(open(path))
    c = d.get('case', {})
    print(json.dumps({k: v for k, v in d.items() if k != 'case'}, indent=1))
    stream = c.get('stream')
    if stream not in MAKERS:
        print(json.dumps(c, indent=1, default=str)[:6000])
        print('no re-runnable case in this replay file (kind=%s)' % d.get('kind'))
        return 1
    params = {k: c[k] for k in PARAM_KEYS[stream] if k in c}
    print('stream %s, parameters: %s' % (stream, json.dumps(params, default=str)[:3000]))
    md = MAKERS[stream](params)
    print('implementation now:', json.dumps(md.payload.get('impl'), default=str)[:3000])
    bad = 0
    for what, fk, extra in md.fails:
        print('DIRECT VIOLATION (%s): %s' % (fk, what))
        bad += 1
    for why in md.skips:
        print('comparison skipped:', why)
    if md.cases:
        results, logs = core.coq_eval_bools([(sub or 'case', expr) for sub, expr, _ in md.cases], IMPORTS, ctx.workdir + '/replay', shard=50)
        for sub, expr, model in md.cases:
            r = results.get(sub or 'case')
            print('model = implementation on %s: %s' % (sub or 'case', r))
            if r is not True:
                bad += 1
                print('model output:', core.coq_eval_raw(model, IMPORTS, ctx.workdir + '/raw')[-3000:])
    print('REPLAY %s' % ('FAILS' if bad else 'passes'))
    import shutil
    shutil.rmtree(ctx.workdir, ignore_errors=True)
    return 1 if bad else 0
