"""C13 - conformer selection contract (model M5 = Model/Conformer.v, theorems in Properties/C13.v).

Theorem-backed (for every energy list, every RMSD oracle, every sorting permutation, every option value and every history of
molecules): order by energy, pairwise separation, energy window, count <= first and <= max_conformers, lowest first, reported
energies / RMSD matrix are those of the returned conformers, maximality, generator reuse.  Tied to the code by the streams
`synthetic`, `options`, `real-filter`, `pipeline`, `reuse` (each compares the Coq model, evaluated by vm_compute, with the code).
Tested only (RDKit owns them): embedding + minimisation reproduce under a seed, input molecule untouched, heavy-atom graph and
stereo preserved, wrapper consistency.

Every case is built from a JSON-able parameter dict by a `make_<stream>` function; `run` draws the parameters, `replay`
re-runs the recorded ones on the implementation and on the model."""
import json

import numpy as np

import core
import conf_gen as cg
from props import c13_cov as cov

IMPORTS = ['From Coq Require Import QArith.', 'From E3FP Require Import Base.Prelude Model.Conformer.']
GRID = [0, 0.25, 0.5, 0.75, 1.0, 1.5, 2.0]
TOL_E = '(Qmake 1 1000000000)'
TOL_R = '(Qmake 1 10000)'
SYM_TOL = 1e-4          # assumed symmetry of GetBestRMS, checked on every real pool


def _attempt(f):
    try:
        return ('ok', f())
    except ValueError:
        return ('err', 'EValue')
    except TypeError:
        return ('err', 'EType')
    except RuntimeError:
        return ('err', 'EOther')           # the model's `Raises EOther`: "No conformers generated"
    except Exception as e:                 # not an `err` constructor: the comparison fails loudly
        return ('err', 'EUnexpected_' + type(e).__name__)


def _embed_nothing(mol, *a, **k):
    """Stands in for an RDKit embedding that fails for every attempt: like the real call (clearConfs=True) it leaves no conformer."""
    mol.RemoveAllConformers()
    return []


def _optq(x):
    return 'None' if x is None else '(Some %s)' % cg.qlit(x)


def _mods():
    import e3fp.conformer.generator as G
    import e3fp.conformer.generate as GEN
    from e3fp.conformer import util as U
    return G, GEN, U


class Made(object):
    """What a make_<stream> function returns."""

    def __init__(self, payload):
        self.payload = payload
        self.cases = []          # (sub key, bool expr, model expr)
        self.fails = []          # (what, finding key, extra payload)
        self.skips = []          # reasons why (part of) the case is not compared
        self.stats = {}
        self.nontrivial = False

    def case(self, sub, expr, model):
        self.cases.append((sub, expr, model))

    def fail(self, what, key, **extra):
        self.fails.append((what, key, extra))


# --------------------------------------------------------------------------- synthetic oracles
def draw_synth(rng):
    k = rng.choice([1, 2, 3, 3, 4, 4, 5, 6, 8, 10, 18, 24])
    ties = rng.random() < 0.4
    E = [rng.choice(GRID) * rng.choice([1, 1, 2]) + (0 if ties else (i + 1) / 1024.0) for i in range(k)]
    all_equal = ties and rng.random() < 0.1
    if all_equal:
        E = [E[0]] * k
    if not ties:
        rng.shuffle(E)
    # negative and large energies (MMFF energies are often negative): a dyadic offset keeps every value exact
    shift = rng.choice(cov.ENERGY_SHIFTS)
    E = [e + shift for e in E]
    sym = rng.random() < 0.7
    T = [[0.0] * k for _ in range(k)]
    for a in range(k):
        for b in range(k):
            if a < b or (not sym and a != b):
                T[a][b] = rng.choice(GRID)
    # some tables carry values a hair (2^-33) above a grid point: exact in double precision, not in single; a value just above the
    # cut-off is far, one on it is far, one just below is near
    fine = rng.random() < 0.3
    if fine:
        for a in range(k):
            for b in range(k):
                if T[a][b] > 0 and rng.random() < 0.5:
                    T[a][b] += rng.choice([1, 3]) * 2.0 ** -33
    if sym:
        for a in range(k):
            for b in range(a):
                T[a][b] = T[b][a]
    # conformer ids: positions, or something else entirely (the code must go through GetId())
    how = rng.choice(['positions', 'positions', 'shifted', 'scattered'])
    ids = list(range(k)) if how == 'positions' else [i + 7 for i in range(k)] if how == 'shifted' else rng.sample(range(3 * k + 5), k)
    return {'smiles': rng.choice(cov.SYNTH_POOLS), 'named': rng.random() < 0.7, 'energy_shift': shift, 'all_equal': all_equal,
            'k': k, 'E': E, 'T': T, 'conf_ids': ids, 'fine_rmsd': fine,
            'cutoff_arg': rng.choice([None, 0, 0.25, 0.25, 0.5, 0.5, 0.75, 1.0, 1.5, -2.0]),
            'ediff_arg': rng.choice([None, None, 0, 0.25, 0.5, 1.0, 2.0, 2.0, 4.0, -3]),
            'first_conformers': rng.choice([-1, 1, 2, 3, 3, 4, max(1, k - 1), max(1, k - 1), k, k, k + 1, 50, 50]),
            'ties': ties, 'symmetric': sym}


def _renumber(mol, ids):
    confs = list(mol.GetConformers())
    for c, i in zip(confs, ids):
        c.SetId(10 ** 6 + i)
    for c in mol.GetConformers():
        c.SetId(c.GetId() - 10 ** 6)


def make_synth(c):
    """filter_conformers with the two oracle calls replaced (harness side only), against filter_core / filter_conformers."""
    G, _, _ = _mods()
    md = Made(dict(c, stream='synthetic'))
    mol = cg.embed_pool(c['smiles'], c['k'], minimise=False)
    if mol.GetNumConformers() != c['k']:
        md.skips.append('pool-size-differs')
        return md
    from rdkit import Chem
    if not c.get('named', True):
        mol.ClearProp('_Name')
    _renumber(mol, c['conf_ids'])
    pos_of = {i: p for p, i in enumerate(c['conf_ids'])}
    full_before = [(cf.GetId(), np.array(cf.GetPositions())) for cf in mol.GetConformers()]
    stripped = Chem.RemoveHs(Chem.Mol(mol))          # independent copy: what the returned conformers must be copies of
    before = [np.array(stripped.GetConformer(i).GetPositions()) for i in c['conf_ids']]
    want_smiles = Chem.MolToSmiles(stripped, isomericSmiles=True)
    g = G.ConformerGenerator(num_conf=5, rmsd_cutoff=c['cutoff_arg'], max_energy_diff=c['ediff_arg'])
    g.first_conformers = c['first_conformers']
    E, T = c['E'], c['T']
    g.get_conformer_energies = lambda m: np.array(E, dtype=float)
    calls = []

    def oracle(prb, ref, prb_id, ref_id, *a, **k):
        calls.append((pos_of[int(prb_id)], pos_of[int(ref_id)]))
        return float(T[pos_of[int(prb_id)]][pos_of[int(ref_id)]])
    with cg.patched_allchem(GetBestRMS=oracle):
        new, acc, en, rm = g.filter_conformers(mol)
    acc = [int(x) for x in acc]
    en = [float(x) for x in en]
    rm = [[float(x) for x in r] for r in rm]
    md.payload['impl'] = {'accepted': acc, 'energies': en, 'rmsds': rm}
    md.payload['resolved'] = {'rmsd_cutoff': g.rmsd_cutoff, 'max_energy_diff': g.max_energy_diff}
    order = [int(x) for x in np.argsort(np.array(E, dtype=float))]
    opts = cg.fopts_lit(c['first_conformers'], g.max_energy_diff, g.rmsd_cutoff)
    model = 'filter_core (table_rmsd %s) %s %s %s' % (cg.qmat(T), cg.qlist(E), opts, cg.natlist(order))
    expr = 'out_eqb (%s) %s' % (model, cg.out_lit(acc, en, rm))
    if not c['ties']:
        expr = '(%s) && out_eqb (filter_conformers (table_rmsd %s) %s %s) %s' % (expr, cg.qmat(T), cg.qlist(E), opts, cg.out_lit(acc, en, rm))
    md.case('', expr, model)
    # the clauses of the property directly on the implementation's output (model-free)
    bad = []
    if any(en[i] > en[i + 1] for i in range(len(en) - 1)):
        bad.append('sorted')
    if en != [E[a] for a in acc]:
        bad.append('energies_reported')
    if len(set(acc)) != len(acc):
        bad.append('nodup')
    if acc and E[acc[0]] != min(E):
        bad.append('lowest_first')
    if len(acc) > max(1, c['first_conformers']):
        bad.append('le_first')
    if g.max_energy_diff != -1.0 and any(E[a] > E[acc[0]] + g.max_energy_diff for a in acc):
        bad.append('window')
    for i in range(len(acc)):
        for j in range(len(acc)):
            if rm[i][j] != (0.0 if i == j else T[acc[min(i, j)]][acc[max(i, j)]]):
                bad.append('rmsd_reported')
            if i < j and T[acc[i]][acc[j]] < g.rmsd_cutoff:
                bad.append('far')
    for v in sorted(set(bad)):
        md.fail('filter_conformers output violates the contract directly (%s)' % v, 'contract:' + v)
    ok = new.GetNumConformers() == len(acc) and [cf.GetId() for cf in new.GetConformers()] == list(range(len(acc)))
    if ok:
        ok = all(np.array_equal(np.array(new.GetConformer(i).GetPositions()), before[a]) for i, a in enumerate(acc))
    if not ok:
        md.fail('returned molecule does not carry the accepted conformers in order', 'contract:conformers-copied')
    if Chem.MolToSmiles(Chem.Mol(new), isomericSmiles=True) != want_smiles:
        md.fail('filter_conformers returns another molecule (graph / charges / isotopes / stereo) than its pool: %s vs %s'
                % (Chem.MolToSmiles(Chem.Mol(new)), want_smiles), 'identity-changed')
    full_after = [(cf.GetId(), np.array(cf.GetPositions())) for cf in mol.GetConformers()]
    if len(full_after) != len(full_before) or any(i != j or not np.array_equal(x, y) for (i, x), (j, y) in zip(full_before, full_after)):
        md.fail('filter_conformers modified the pool it was given', 'pool-modified')
    if any(a not in acc for a, _ in calls):
        md.fail('GetBestRMS probe is not an accepted conformer', 'contract:oracle-orientation')
    rej = {'window': 0, 'rmsd': 0, 'first': 0}
    for r in range(c['k']):
        if r not in acc:
            if g.max_energy_diff != -1.0 and E[r] > E[acc[0]] + g.max_energy_diff:
                rej['window'] += 1
            elif any(T[a][r] < g.rmsd_cutoff for a in acc):
                rej['rmsd'] += 1
            else:
                rej['first'] += 1
    md.stats = {'rej': rej, 'n_acc': len(acc)}
    md.nontrivial = 1 < len(acc) < c['k']
    return md


# --------------------------------------------------------------------------- constructor and option state over histories
_CHAINS = {}


def chain_mol(n):
    from rdkit import Chem
    from rdkit.Chem import AllChem
    if n not in _CHAINS:
        m = Chem.MolFromSmiles(cg.CHAINS[n])
        _CHAINS[n] = (m, int(AllChem.CalcNumRotatableBonds(Chem.AddHs(m))))
    return _CHAINS[n]


def draw_options(rng):
    return {'nc': rng.choice([-1, -1, -1, -1, 1, 2, 3, 3, 7, 12, 20, 0, -2]), 'f': rng.choice([-1, -1, -1, -1, 1, 2, 2, 5, 10, 60, 0, -3]),
            'cut': rng.choice([None, 0, 0.5, 1.25, -1.0, -0.5]), 'ed': rng.choice([None, 0, 2.5, -1.0, -4]),
            'pm': rng.choice([1, 1, 1, 1, 2, 2, 3, 3, 5, 8, 0, -1]),
            # coverage extension: numeric type of the two float options, positional call, force-field names, seed handed to RDKit
            'ctype': rng.choice(['float', 'float', 'int', 'np.float64']), 'positional': rng.random() < 0.3,
            'ff': rng.choice(['uff', 'uff', 'uff', 'mmff94', 'mmff94s', 'UFF', 'mmff', '', None, 'mmff94x']),
            'seed': rng.choice([-1, 0, 1, 42, 2 ** 31 - 1]),
            'hist': [rng.choice(sorted(cg.CHAINS)) for _ in range(rng.choice([1, 2, 3, 5]))]}


def make_options(p):
    G, _, _ = _mods()
    md = Made(dict(p, stream='options'))
    nc, f, pm = p['nc'], p['f'], p['pm']
    ff, seed = p.get('ff', 'uff'), p.get('seed', -1)
    cut, cut_v = cov.conv_number(p['cut'], p.get('ctype', 'float'))
    ed, ed_v = cov.conv_number(p['ed'], p.get('ctype', 'float'))

    def construct():
        if p.get('positional'):
            return G.ConformerGenerator(nc, f, cut, ed, ff, pm, seed)
        return G.ConformerGenerator(num_conf=nc, first=f, rmsd_cutoff=cut, max_energy_diff=ed, pool_multiplier=pm, forcefield=ff, seed=seed)
    r = _attempt(construct)
    mk = 'mk_generator %s %s %s %s %s' % (core.zlit(nc), core.zlit(f), _optq(cut_v), _optq(ed_v), core.zlit(pm))
    if ff not in G.FORCEFIELD_CHOICES:
        # not an argument of the model's constructor: an unknown force field is refused, whatever else is given
        md.payload['impl'] = r[1] if r[0] == 'err' else 'accepted'
        md.stats = {'ctor_error': 1, 'bad_forcefield': 1}
        if r != ('err', 'EValue'):
            md.fail('constructor does not refuse forcefield=%r with a ValueError' % (ff,), 'ctor:forcefield')
        md.stats['checks'] = 1
        return md
    if r[0] == 'err':
        md.payload['impl'] = r[1]
        md.stats = {'ctor_error': 1}
        md.case('', 'result_eqb ctor_obs_eqb (rbind (%s) (fun g => Ok (ctor_obs g))) (Raises %s)' % (mk, r[1]), mk)
        return md
    g = r[1]
    obs0 = '(%s, %s, %s, %s, (%s, %s, %s))' % (core.zlit(g.num_conf), core.zlit(g.first), core.zlit(g.max_conformers), core.zlit(g.first_conformers),
                                               cg.qlit(g.rmsd_cutoff), cg.qlit(g.max_energy_diff), core.zlit(g.pool_multiplier))
    trace, asked = [], []

    seeds_seen = []

    def fake_embed(mol, numConfs=None, **kw):
        asked.append(int(numConfs))
        seeds_seen.append(kw.get('randomSeed', 'absent'))
        return []
    if (g.forcefield, g.seed) != (ff, seed):
        md.fail('constructor stores forcefield/seed %r instead of %r' % ((g.forcefield, g.seed), (ff, seed)), 'ctor:forcefield-seed')
    for n in p['hist']:
        with cg.patched_allchem(EmbedMultipleConfs=fake_embed):
            g.embed_molecule(chain_mol(n)[0])
        trace.append((g.num_conf, g.first, g.max_conformers, g.first_conformers, asked[-1]))
    nrots = [chain_mol(n)[1] for n in p['hist']]
    md.payload['nrot_history'] = nrots
    md.payload['impl_trace(num_conf,first,max_conformers,first_conformers,n_confs)'] = trace
    tr_lit = core.listlit(['((%s, %s, %s, %s), %s)' % tuple(core.zlit(x) for x in t) for t in trace])
    rs = core.zlist(nrots)
    md.case('', 'match %s with Ok g => ctor_obs_eqb (ctor_obs g) %s && trace_eqb (resolve_trace g %s) %s | Raises _ => false end' % (mk, obs0, rs, tr_lit),
            'match %s with Ok g => resolve_trace g %s | Raises _ => [] end' % (mk, rs))
    # the reuse clause directly: the last molecule through a fresh object resolves the same values
    g2 = G.ConformerGenerator(num_conf=nc, first=f, rmsd_cutoff=cut, max_energy_diff=ed, pool_multiplier=pm, forcefield=ff, seed=seed)
    with cg.patched_allchem(EmbedMultipleConfs=fake_embed):
        g2.embed_molecule(chain_mol(p['hist'][-1])[0])
    if any(x != 'absent' and x != seed for x in seeds_seen):
        md.fail('embed_molecule hands RDKit another random seed (%r) than the generator\'s (%r)' % (seeds_seen, seed), 'seed-not-forwarded')
    if (g2.max_conformers, g2.first_conformers, asked[-1]) != (trace[-1][2], trace[-1][3], trace[-1][4]):
        md.fail('resolved options depend on the molecules processed before', 'reuse:resolved-options')
    md.nontrivial = len(set(x >= 8 for x in nrots)) > 1 or nc != -1
    return md


# --------------------------------------------------------------------------- real RDKit pools
def pool_like_impl(smiles, name, n_confs, seed, forcefield):
    """Rebuild, with RDKit only, the pool the generator is documented to embed and minimise for this molecule (same embedding call, same seed,
    the force field the option names)."""
    from rdkit import Chem
    from rdkit.Chem import AllChem
    from e3fp.conformer.util import mol_from_smiles
    m = Chem.AddHs(mol_from_smiles(smiles, name))
    Chem.SanitizeMol(m)
    AllChem.EmbedMultipleConfs(m, numConfs=n_confs, maxAttempts=10 * n_confs, pruneRmsThresh=-1.0, randomSeed=seed,
                               ignoreSmoothingFailures=True)
    cov.minimise_by_id(m, forcefield)
    return m


def forcefield_defect(md, p):
    """forcefield='mmff94s' on a molecule for which the generator does not compute MMFF94s energies: reported under its own key, and the
    rest of the case (which would only repeat it) is not run."""
    if p.get('forcefield') != 'mmff94s':
        return False
    names = [s for _, s in p['sequence']] if 'sequence' in p else [p['smiles']]
    for smi in names:
        d = cov.mmff94s_defect(_mods()[0], smi)
        if d:
            md.fail('forcefield="mmff94s": the energies the generator minimises, sorts and reports are not RDKit\'s MMFF94s energies of the conformers '
                    '(they equal the MMFF94 ones): %s' % smi, cov.KEY_MMFF94S, **d)
            md.skips.append('mmff94s-defect-reported-instead')
            md.stats['mmff94s_defect'] = 1
            return True
    return False


def unstable_reason(E, T, cutoff, ediff):
    """None, or why a decision of the loop lies within round-off of its threshold (model and code may then legitimately differ).
    Energies are re-measured bit-identically (checked by the exact comparison of the returned energies): the order is exact."""
    n = len(E)
    if cutoff != -1.0 and any(abs(T[a][b] - cutoff) < 1e-5 for a in range(n) for b in range(n) if a != b):
        return 'rmsd-within-1e-5-of-cutoff'
    if ediff != -1.0 and any(abs(e - (min(E) + ediff)) < 1e-9 for e in E):
        return 'energy-within-1e-9-of-window-edge'
    return None


def asymmetry(T):
    n = len(T)
    return max([abs(T[a][b] - T[b][a]) for a in range(n) for b in range(n)] + [abs(T[a][a]) for a in range(n)] + [0.0])


def _check_symmetry(md, T):
    a = asymmetry(T)
    md.stats['asymmetry'] = a
    if a > SYM_TOL:
        md.fail('GetBestRMS is not symmetric / zero on the diagonal within %g on this pool (max deviation %.3g): the assumption of accepted_far / '
                'rmsd_reported_sym does not hold' % (SYM_TOL, a), 'assumption:getbestrms-symmetry', rmsd_table=T)


def draw_real(rng, i, off=0):
    mols = cov.all_mols()
    name, smi = mols[(i * 5 + off) % len(mols)]
    return {'molecule': name, 'smiles': smi, 'forcefield': rng.choice(['uff', 'uff', 'mmff94', 'mmff94s']), 'num_conf': rng.choice([4, 5, 6, 8]),
            'rmsd_cutoff': rng.choice([None, 0.1, 0.2, 0.3, 0.5, 0.8, 1.2]), 'max_energy_diff': rng.choice([None, None, 0.5, 1.0, 2.0, 5.0]),
            'first': rng.choice([-1, -1, -1, 1, 2, 3]), 'seed': rng.choice([rng.randrange(1, 10 ** 6)] * 5 + cov.SEEDS_SPECIAL),
            # coverage extension: conformer ids of the pool that are not the positions 0..k-1
            'ids': rng.choice([None, None, 'shifted', 'scattered', 'gapped']), 'ids_seed': rng.randrange(10 ** 6)}


def make_real(p):
    """filter_conformers on a pool embedded and minimised by e3fp; energies and RMSDs re-measured independently on a copy.
    With p['ids'] the pool's conformer ids are renumbered / thinned out first, and the minimisation is repeated with RDKit only."""
    from rdkit import Chem
    G, _, U = _mods()
    md = Made(dict(p, stream='real-filter'))
    if forcefield_defect(md, p):
        return md
    g = G.ConformerGenerator(num_conf=p['num_conf'], first=p['first'], rmsd_cutoff=p['rmsd_cutoff'], max_energy_diff=p['max_energy_diff'],
                             forcefield=p['forcefield'], seed=p['seed'])
    pool = g.embed_molecule(U.mol_from_smiles(p['smiles'], p['molecule']))
    if not pool.GetNumConformers():
        md.skips.append('embedding-returned-no-conformer')
        return md
    if p.get('ids'):
        cov.scatter_ids(pool, p['ids'], p.get('ids_seed', 0))
    twin = Chem.Mol(pool)
    cov.minimise_by_id(twin, p['forcefield'])
    g.minimize_conformers(pool)
    ref = Chem.Mol(pool)
    E = cov.measure_energies(ref, p['forcefield'])
    T = cg.measure_rmsds(ref)
    E_twin = cov.measure_energies(twin, p['forcefield'])
    if [cf.GetId() for cf in twin.GetConformers()] != [cf.GetId() for cf in pool.GetConformers()] or \
            any(abs(a - b) > 1e-9 for a, b in zip(E, E_twin)):
        md.fail('minimize_conformers does not leave each conformer (addressed by its id) at the minimum RDKit finds from the same start',
                'minimise:by-id', energies_after_e3fp=E, energies_after_rdkit_only=E_twin)
    E_impl = [float(x) for x in g.get_conformer_energies(Chem.Mol(pool))]
    if len(E_impl) != len(E) or any(abs(a - b) > 1e-9 for a, b in zip(E, E_impl)):
        md.fail('get_conformer_energies does not return the energies of the conformers in pool order', 'energies:by-id',
                energies_impl=E_impl, energies_remeasured=E)
    want_smiles = Chem.MolToSmiles(Chem.RemoveHs(Chem.Mol(pool)), isomericSmiles=True)
    full_before = [(cf.GetId(), np.array(cf.GetPositions())) for cf in pool.GetConformers()]
    new, acc, en, rm = g.filter_conformers(pool)
    acc = [int(x) for x in acc]
    md.payload.update(energies_remeasured=E, rmsd_remeasured=T, conformer_ids=[i for i, _ in full_before],
                      impl={'accepted': acc, 'energies': [float(x) for x in en], 'rmsds': [[float(x) for x in r] for r in rm]})
    full_after = [(cf.GetId(), np.array(cf.GetPositions())) for cf in pool.GetConformers()]
    if len(full_after) != len(full_before) or any(i != j or not np.array_equal(x, y) for (i, x), (j, y) in zip(full_before, full_after)):
        md.fail('filter_conformers modified the pool it was given', 'pool-modified')
    if Chem.MolToSmiles(Chem.Mol(new), isomericSmiles=True) != want_smiles:
        md.fail('filter_conformers returns another molecule (graph / charges / isotopes / stereo) than its pool: %s vs %s'
                % (Chem.MolToSmiles(Chem.Mol(new)), want_smiles), 'identity-changed')
    # the returned conformers are the accepted ones of the pool, in order (rigid motions allowed: GetBestRMS aligns)
    heavy = Chem.RemoveHs(Chem.Mol(ref))
    hpos = [np.array(cf.GetPositions()) for cf in heavy.GetConformers()]
    if new.GetNumConformers() != len(acc) or [cf.GetId() for cf in new.GetConformers()] != list(range(len(acc))) or \
            any(cov.kabsch_rmsd(np.array(new.GetConformer(i).GetPositions()), hpos[a]) > 1e-4 for i, a in enumerate(acc)):
        md.fail('returned molecule does not carry the accepted conformers in order', 'contract:conformers-copied')
    _check_symmetry(md, T)
    md.stats['ids'] = p.get('ids') or 'positions'
    md.stats['mol_class'] = cov.CLASS_OF.get(p['molecule'], 'first-pool')
    why = unstable_reason(E, T, g.rmsd_cutoff, g.max_energy_diff)
    if why:
        md.skips.append(why)
        return md
    model = 'filter_conformers (table_rmsd %s) %s %s' % (cg.qmat(T), cg.qlist(E), cg.fopts_lit(g.first_conformers, g.max_energy_diff, g.rmsd_cutoff))
    md.case('', 'out_close2 %s %s (%s) %s' % (TOL_E, TOL_R, model, cg.out_lit(acc, en, rm)), model)
    md.nontrivial = 1 < len(acc) < len(E)
    return md


def gen_obs(mol, vals):
    return {'smiles': cg.canon_smiles(mol), 'coords': [np.array(cf.GetPositions()).round(12).tolist() for cf in mol.GetConformers()],
            'max_conformers': int(vals[0]), 'indices': [int(x) for x in vals[1]], 'energies': [float(x) for x in vals[2]],
            'rmsds': np.asarray(vals[3]).tolist(), 'prop': mol.GetProp('_ConfEnergies') if mol.HasProp('_ConfEnergies') else None}


def _kw(p):
    return {k: p[k] for k in ('num_conf', 'first', 'pool_multiplier', 'rmsd_cutoff', 'max_energy_diff', 'forcefield', 'seed')}


def _mk_lit(kw):
    return 'mk_generator %s %s %s %s %s' % (core.zlit(kw['num_conf']), core.zlit(kw['first']), _optq(kw['rmsd_cutoff']), _optq(kw['max_energy_diff']),
                                            core.zlit(kw['pool_multiplier']))


def _pool_lit(n, E, T):
    return '(%s, %s, %s)' % (core.zlit(n), cg.qlist(E), cg.qmat(T))


def _res_lit(r):
    """('ok', gen_obs) | ('err', tag) -> result (Z * out) literal."""
    if r[0] == 'err':
        return '(Raises %s)' % r[1]
    o = r[1]
    return '(Ok (%s, %s))' % (core.zlit(o['max_conformers']), cg.out_lit(o['indices'], o['energies'], o['rmsds']))


def draw_pipeline(rng, i, off=0):
    mols = cov.all_mols()
    name, smi = mols[(i * 11 + 3 + off) % len(mols)]
    nc = rng.choice([1, 2, 3, 4, 5, 5, 6])
    return {'molecule': name, 'smiles': smi, 'forcefield': rng.choice(['uff', 'uff', 'mmff94', 'mmff94s']), 'num_conf': nc, 'pool_multiplier': rng.choice([1, 2, 3]),
            'first': rng.choice([-1, -1, -1, 1, 2, nc + 2]), 'rmsd_cutoff': rng.choice([None, 0.1, 0.2, 0.4, 0.5, 1.0]),
            'max_energy_diff': rng.choice([None, None, 1.0, 3.0]),
            'seed': rng.choice([rng.randrange(1, 10 ** 6)] * 5 + cov.SEEDS_SPECIAL), 'empty_pool': i % 8 == 5,
            # coverage extension: the same molecule handed over in another legal representation
            'variant': rng.choice(cov.INPUT_VARIANTS)}


def make_pipeline(p):
    """generate_conformers end to end against the model's `generate` on a pool rebuilt with RDKit only, plus the clauses RDKit owns."""
    from rdkit import Chem
    from rdkit.Chem import AllChem
    G, _, U = _mods()
    md = Made(dict(p, stream='pipeline'))
    if forcefield_defect(md, p):
        return md
    kw = _kw(p)
    name, smi = p['molecule'], p['smiles']
    variant = p.get('variant', 'propertymol')
    src = cov.build_input(smi, name, variant)
    nrot = int(AllChem.CalcNumRotatableBonds(Chem.AddHs(src)))
    n_confs = p['num_conf'] * p['pool_multiplier']
    sig0 = cg.mol_signature(src)
    g = G.ConformerGenerator(get_values=True, sparse_rmsd=False, **kw)
    md.stats['variant'] = variant
    md.stats['mol_class'] = cov.CLASS_OF.get(name, 'first-pool')
    if p.get('empty_pool'):
        # the branch "No conformers generated": RDKit embeds nothing
        with cg.patched_allchem(EmbedMultipleConfs=_embed_nothing):
            r = _attempt(lambda: gen_obs(*g.generate_conformers(src)))
        md.payload['impl'] = r[1]
        model = 'snd (tab_generate [%s] [%s] g 0%%nat)' % (core.zlit(nrot), _pool_lit(n_confs, [], []))
        md.case('', 'match %s with Ok g => gen_result_close2 %s %s (%s) %s | Raises _ => false end' % (_mk_lit(kw), TOL_E, TOL_R, model, _res_lit(r)),
                'match %s with Ok g => %s | Raises e => Raises e end' % (_mk_lit(kw), model))
        if cg.mol_signature(src) != sig0:
            md.fail('generate_conformers modified its input molecule', 'input-modified')
        md.stats['empty_pool'] = 1
        return md
    mol1, v1 = g.generate_conformers(src)
    o1 = gen_obs(mol1, v1)
    md.payload['impl'] = {x: o1[x] for x in ('indices', 'energies', 'rmsds', 'max_conformers', 'prop')}
    if cg.mol_signature(src) != sig0:
        md.fail('generate_conformers modified its input molecule', 'input-modified', before=sig0, after=cg.mol_signature(src))
    want = Chem.MolToSmiles(Chem.RemoveHs(Chem.Mol(src)), isomericSmiles=True)
    if o1['smiles'] != want:
        md.fail('returned molecule differs from the input (graph/stereo): %s vs %s' % (o1['smiles'], want), 'identity-changed')
    if src.HasProp('_Name') and (not mol1.HasProp('_Name') or mol1.GetProp('_Name') != src.GetProp('_Name')):
        md.fail('returned molecule does not carry the name of the input', 'identity-changed:name')
    if mol1 is src:
        md.fail('generate_conformers returns its input object', 'input-modified')
    for cf in mol1.GetConformers():
        cp = Chem.Mol(mol1)
        Chem.AssignStereochemistryFrom3D(cp, confId=cf.GetId(), replaceExistingTags=True)
        if Chem.MolToSmiles(cp, isomericSmiles=True) != want:
            md.fail('conformer %d has another stereochemistry in 3D than the input' % cf.GetId(), 'stereo-3d-changed')
            break
    mol2, v2 = G.ConformerGenerator(get_values=True, sparse_rmsd=False, **kw).generate_conformers(U.mol_from_smiles(smi, name))
    o2 = gen_obs(mol2, v2)
    if o1 != o2:
        o3 = o2
        if variant != 'propertymol':
            o3 = gen_obs(*G.ConformerGenerator(get_values=True, sparse_rmsd=False, **kw).generate_conformers(cov.build_input(smi, name, variant)))
        if o1 != o3:
            md.fail('two seeded runs differ', 'seed-not-reproducible', first_run=o1, second_run=o3)
        else:
            md.fail('the result depends on how the molecule is handed over (%s vs mol_from_smiles), not only on molecule, options and seed' % variant,
                    'depends-on-input-representation', this_variant=o1, from_smiles=o2)
    stored = U.get_conformer_energies_from_mol(mol1)
    if stored is None or [('%.4f' % e) for e in o1['energies']] != o1['prop'].split('|') or len(stored) != mol1.GetNumConformers():
        md.fail('energies stored on the molecule are not the returned ones at 4 decimals', 'stored-energies')
    T1 = cg.measure_rmsds(mol1)
    n1 = mol1.GetNumConformers()
    if any(abs(T1[min(a, b)][max(a, b)] - o1['rmsds'][a][b]) > 1e-4 for a in range(n1) for b in range(n1)):
        md.fail('reported RMSD matrix is not the RMSD of the returned conformers', 'rmsd-matrix', remeasured=T1)
    cap = min(p['first'], p['num_conf']) if p['first'] != -1 else p['num_conf']
    if len(o1['indices']) > cap or o1['max_conformers'] != p['num_conf']:
        md.fail('more conformers than requested (first/maximum): %d returned, cap %d' % (len(o1['indices']), cap), 'count')
    # the model's `generate` (constructor, option resolution, pool size, filter) on a pool rebuilt without e3fp
    pool = pool_like_impl(smi, name, n_confs, p['seed'], p['forcefield'])
    E = cov.measure_energies(pool, p['forcefield'])
    T = cg.measure_rmsds(pool)
    md.payload.update(energies_remeasured=E, rmsd_remeasured=T)
    _check_symmetry(md, T)
    # the returned conformers are the pool conformers named by the returned indices, in order (rigid motions allowed)
    hpos = [np.array(cf.GetPositions()) for cf in Chem.RemoveHs(Chem.Mol(pool)).GetConformers()]
    if any(a >= len(hpos) or cov.kabsch_rmsd(np.array(mol1.GetConformer(i).GetPositions()), hpos[a]) > 1e-4 for i, a in enumerate(o1['indices'])):
        md.fail('the returned conformers are not the pool conformers named by the returned indices', 'contract:conformers-copied')
    why = unstable_reason(E, T, g.rmsd_cutoff, g.max_energy_diff)
    if why:
        md.skips.append(why)
    else:
        model = 'snd (tab_generate [%s] [%s] g 0%%nat)' % (core.zlit(nrot), _pool_lit(n_confs, E, T))
        md.case('', 'match %s with Ok g => gen_result_close2 %s %s (%s) %s | Raises _ => false end' % (_mk_lit(kw), TOL_E, TOL_R, model, _res_lit(('ok', o1))),
                'match %s with Ok g => %s | Raises e => Raises e end' % (_mk_lit(kw), model))
    md.stats['first_above_num_conf'] = int(p['first'] > p['num_conf'])
    md.nontrivial = len(o1['indices']) > 1
    return md


REUSE_PATTERNS = ['plain', 'aba', 'error-mid', 'interleave', 'aba']


def draw_reuse(rng, i=0):
    mols = cov.all_mols()
    seq = [list(mols[rng.randrange(len(mols))]) for _ in range(rng.choice([2, 3, 4]))]
    if rng.random() < 0.5:
        seq.insert(rng.randrange(len(seq) + 1), ['decane', 'CCCCCCCCCCCC'])     # 9 rotatable bonds: resolves 200 when num_conf = -1
    nc = -1 if i % 8 == 7 else rng.choice([3, 4, 4])
    p = {'num_conf': nc, 'first': rng.choice([-1, 2, 6]) if nc != -1 else 2, 'pool_multiplier': 1 if nc == -1 else rng.choice([1, 2]),
         'rmsd_cutoff': rng.choice([0.1, 0.3, 0.5, 1.0]), 'max_energy_diff': rng.choice([None, 2.0]), 'forcefield': rng.choice(['uff', 'uff', 'mmff94', 'mmff94s']),
         'seed': rng.choice([rng.randrange(1, 10 ** 6)] * 5 + cov.SEEDS_SPECIAL)}
    p['sequence'] = seq[:2] if nc == -1 else seq     # 50/200 conformers per molecule: keep it short
    # coverage extension: A B A with the same Python object for both A; a failing molecule in the middle; another generator object with
    # other options working on the same molecules in between
    p['pattern'] = 'plain' if nc == -1 else REUSE_PATTERNS[i % len(REUSE_PATTERNS)]
    if p['pattern'] == 'aba':
        p['sequence'] = [seq[0], seq[1], seq[0]] + seq[2:3]
    p['fail_at'] = rng.randrange(len(p['sequence']) - 1) if p['pattern'] == 'error-mid' else None
    # 'aba' keeps every input object alive and ends by relabelling one atom of A in place and asking again; the other patterns hand
    # over temporaries (CPython then reuses their addresses for later molecules)
    p['keep_objects'] = p['pattern'] == 'aba' or rng.random() < 0.3
    return p


def make_reuse(p):
    """One generator object over a sequence of molecules: equal to a fresh object per molecule (implementation), and equal to the
    model's generate (after_history ...) on independently rebuilt pools (explicit num_conf; the auto sizes 50/200 are left to the
    `options` stream and to the implementation-only comparison).  A molecule named twice in the sequence is the same Python object
    both times; at p['fail_at'] RDKit embeds nothing (RuntimeError) and the object is used on; with pattern 'interleave' a second
    generator object with other options processes each molecule first."""
    from rdkit import Chem
    from rdkit.Chem import AllChem
    G, _, U = _mods()
    md = Made(dict(p, stream='reuse'))
    if forcefield_defect(md, p):
        return md
    kw = _kw(p)
    shared = G.ConformerGenerator(get_values=True, sparse_rmsd=False, **kw)
    other_kw = dict(kw, num_conf=kw['num_conf'] + 2 if kw['num_conf'] != -1 else 3, rmsd_cutoff=0.2, first=-1, max_energy_diff=None)
    other = G.ConformerGenerator(get_values=True, sparse_rmsd=False, **other_kw)
    outs, nrots, pools, unstable = [], [], [], None
    objs, sigs, returned = {}, {}, []
    keep = p.get('keep_objects', True)
    for step, (name, smi) in enumerate(p['sequence']):
        if not keep:
            objs.pop(name, None)
        if name not in objs:
            objs[name] = U.mol_from_smiles(smi, name)
            sigs[name] = cg.mol_signature(objs[name])
        src = objs[name]
        n_confs = p['num_conf'] * p['pool_multiplier']
        if p.get('pattern') == 'interleave':
            x = gen_obs(*other.generate_conformers(src))
            y = gen_obs(*G.ConformerGenerator(get_values=True, sparse_rmsd=False, **other_kw).generate_conformers(U.mol_from_smiles(smi, name)))
            if x != y:
                md.fail('a reused generator returns something else than a fresh one for %s' % name, 'reuse:result', reused=x, fresh=y)
        if p.get('fail_at') == step:
            with cg.patched_allchem(EmbedMultipleConfs=_embed_nothing):
                r = _attempt(lambda: gen_obs(*shared.generate_conformers(src)))
            outs.append(r)
            nrots.append(int(AllChem.CalcNumRotatableBonds(Chem.AddHs(Chem.MolFromSmiles(smi)))))
            pools.append(_pool_lit(n_confs, [], []))
            continue
        got = shared.generate_conformers(src)
        returned.append(got[0])
        a = gen_obs(*got)
        del got
        if not keep:
            del src
            objs.pop(name, None)        # a true temporary: its address is free for the next molecule
        b = gen_obs(*G.ConformerGenerator(get_values=True, sparse_rmsd=False, **kw).generate_conformers(U.mol_from_smiles(smi, name)))
        if a != b:
            md.fail('a reused generator returns something else than a fresh one for %s' % name, 'reuse:result', reused=a, fresh=b)
        outs.append(('ok', a))
        if p['num_conf'] != -1:
            pool = pool_like_impl(smi, name, n_confs, p['seed'], p['forcefield'])
            E, T = cov.measure_energies(pool, p['forcefield']), cg.measure_rmsds(pool)
            _check_symmetry(md, T)
            unstable = unstable or unstable_reason(E, T, shared.rmsd_cutoff, shared.max_energy_diff)
            nrots.append(int(AllChem.CalcNumRotatableBonds(Chem.AddHs(Chem.MolFromSmiles(smi)))))
            pools.append(_pool_lit(n_confs, E, T))
    # the options of the object are what they were made: nothing a molecule (or a failure) did is left behind
    opt_names = ('num_conf', 'first', 'pool_multiplier', 'rmsd_cutoff', 'max_energy_diff', 'forcefield', 'seed', 'get_values', 'sparse_rmsd', 'store_energies')
    made = G.ConformerGenerator(get_values=True, sparse_rmsd=False, **kw)
    drift = {n: (getattr(shared, n, None), getattr(made, n, None)) for n in opt_names if getattr(shared, n, None) != getattr(made, n, None)}
    if drift:
        md.fail('the options of a generator object changed while it processed molecules: %s' % drift, 'reuse:options-drift')
    for name, sig in sigs.items():
        if name in objs and cg.mol_signature(objs[name]) != sig:
            md.fail('generate_conformers modified its input molecule', 'input-modified', molecule=name)
    if len(set(id(m) for m in returned)) != len(returned) or any(m is o for m in returned for o in objs.values()):
        md.fail('two calls return the same molecule object (or the input itself): results are aliased', 'reuse:aliased-result')
    if p.get('pattern') == 'aba' and keep:
        # the same Python object, changed in place between two calls (one carbon relabelled 14C): the generator must see the change
        name, smi = p['sequence'][0]
        src = objs[name]
        [at for at in src.GetAtoms() if at.GetAtomicNum() == 6][0].SetIsotope(14)
        x = gen_obs(*shared.generate_conformers(src))
        y = gen_obs(*G.ConformerGenerator(get_values=True, sparse_rmsd=False, **kw).generate_conformers(Chem.Mol(src)))
        want = Chem.MolToSmiles(Chem.RemoveHs(Chem.Mol(src)), isomericSmiles=True)
        if x != y or x['smiles'] != want:
            md.fail('a molecule object changed in place between two calls of one generator is not processed as it is now (%s, wanted %s)'
                    % (x['smiles'], want), 'reuse:changed-object', reused=x, fresh=y)
        md.stats['changed_in_place'] = 1
    md.payload['impl'] = [{x: o[1][x] for x in ('indices', 'energies', 'max_conformers')} if o[0] == 'ok' else o[1] for o in outs]
    if p['num_conf'] == -1:
        md.skips.append('auto-sized-pool-not-sent-to-coq')
    elif unstable:
        md.skips.append(unstable)
    else:
        nl, pl = core.zlist(nrots), core.listlit(pools)
        for i, o in enumerate(outs):
            hist = cg.natlist(range(i))
            model = 'snd (tab_generate %s %s (tab_after %s %s g %s) %d%%nat)' % (nl, pl, nl, pl, hist, i)
            md.case('step%d' % i, 'match %s with Ok g => gen_result_close2 %s %s (%s) %s | Raises _ => false end' % (_mk_lit(kw), TOL_E, TOL_R, model, _res_lit(o)),
                    'match %s with Ok g => %s | Raises e => Raises e end' % (_mk_lit(kw), model))
    md.stats['pattern'] = p.get('pattern', 'plain')
    md.stats['same_object_twice'] = int(keep and len(objs) < len(p['sequence']))
    md.stats['temporaries'] = int(not keep)
    md.nontrivial = True
    return md


def draw_wrapper(rng, i=0):
    mols = cov.all_mols()
    name, smi = mols[rng.randrange(len(mols))]
    p = {'molecule': name, 'smiles': smi, 'num_conf': rng.choice([3, 4, 5]), 'first': rng.choice([-1, 2]), 'pool_multiplier': rng.choice([1, 2]),
         'rmsd_cutoff': rng.choice([0.4, 0.8]), 'max_energy_diff': rng.choice([None, 3.0]), 'forcefield': rng.choice(['uff', 'mmff94', 'mmff94s']),
         'seed': rng.choice([rng.randrange(1, 10 ** 6)] * 5 + cov.SEEDS_SPECIAL),
         # coverage extension: where the name comes from, positional call, saving (compression, explicit file, existing file, overwrite),
         # standardisation of an already standard molecule, options the generator refuses (-> False), the library defaults
         'name_mode': rng.choice(['prop', 'prop', 'explicit', 'none']), 'positional': rng.random() < 0.3, 'standardise': False,
         'save': None, 'bad_option': None, 'defaults': False}
    kind = i % 6
    if kind in (1, 2):
        p['save'] = {'compress': rng.choice([0, 1, 2, None, 7]), 'out_file': rng.random() < 0.3, 'pre_exists': rng.random() < 0.5,
                     'overwrite': rng.random() < 0.5}
    elif kind == 3:
        p['bad_option'] = rng.choice(['num_conf', 'first', 'pool_multiplier', 'forcefield', 'empty-pool'])
    elif kind == 4:
        p['molecule'], p['smiles'] = rng.choice([m for m in mols if m[0] in cov.STANDARD_SAFE])
        p['standardise'] = True
    elif kind == 5:
        p['molecule'], p['smiles'] = rng.choice([('ethanol', 'CCO'), ('propanol', 'CCCO'), ('d2_propanol', '[2H]C([2H])(O)CC')])
        p['defaults'] = True
    return p


def make_wrapper(p):
    """e3fp.conformer.generate.generate_conformers against the generator run with the same options and seed."""
    import os
    from rdkit import Chem
    from rdkit.Chem import AllChem
    G, GEN, U = _mods()
    md = Made(dict(p, stream='wrapper'))
    if forcefield_defect(md, p):
        return md
    kw = _kw(p)
    name, smi = p['molecule'], p['smiles']
    mode = p.get('name_mode', 'prop')
    src = U.mol_from_smiles(smi, name)
    given = None
    if mode == 'none':
        src.ClearProp('_Name')
    elif mode == 'explicit':
        given = 'given.%s-x_y' % name
    want_name = given if mode == 'explicit' else name if mode == 'prop' else None
    sig0 = cg.mol_signature(src)
    call_kw = dict(kw)
    if p.get('defaults'):
        # only the seed is given: everything else is the library default (num_conf = -1 -> 50 for these molecules, first = -1, ...)
        call_kw = {'seed': kw['seed']}
        kw = dict(num_conf=G.NUM_CONF_DEF, first=G.FIRST_DEF, pool_multiplier=G.POOL_MULTIPLIER_DEF, rmsd_cutoff=G.RMSD_CUTOFF_DEF,
                  max_energy_diff=G.MAX_ENERGY_DIFF_DEF, forcefield=G.FORCEFIELD_DEF, seed=kw['seed'])
    bad = p.get('bad_option')
    if bad in ('num_conf', 'first', 'pool_multiplier'):
        call_kw[bad] = 0
    elif bad == 'forcefield':
        call_kw['forcefield'] = 'amber'
    save = p.get('save')
    tmp = cov.scratch_dir() if save else None
    try:
        extra = {'standardise': bool(p.get('standardise')), 'save': bool(save)}
        path = None
        if save:
            ext = {0: '', 1: '.gz', 2: '.bz2'}.get(save['compress'], '')
            extra.update(out_dir=tmp, compress=save['compress'], overwrite=save['overwrite'])
            if save['out_file']:
                path = os.path.join(tmp, 'sub', 'explicit.sdf' + ('.gz' if save['compress'] == 1 else ''))
                extra['out_file'] = path
            elif want_name is not None:
                path = os.path.join(tmp, '%s.sdf%s' % (want_name, ext))
            if save['pre_exists'] and path is not None:
                os.makedirs(os.path.dirname(path), exist_ok=True)
                with open(path, 'w') as f:
                    f.write('SENTINEL')

        def call():
            if p.get('positional') and not p.get('defaults'):
                return GEN.generate_conformers(src, given, extra['standardise'], call_kw['num_conf'], call_kw['first'], call_kw['pool_multiplier'],
                                               call_kw['rmsd_cutoff'], call_kw['max_energy_diff'], call_kw['forcefield'], call_kw['seed'],
                                               **{k: v for k, v in extra.items() if k != 'standardise'})
            return GEN.generate_conformers(src, name=given, **dict(call_kw, **extra))
        if bad == 'empty-pool':
            with cg.patched_allchem(EmbedMultipleConfs=_embed_nothing):
                rr = _attempt(call)
        else:
            rr = _attempt(call)
        md.stats.update(name_mode=mode, save=bool(save), bad_option=bad or '', standardise=bool(p.get('standardise')), defaults=bool(p.get('defaults')),
                        positional=bool(p.get('positional') and not p.get('defaults')))
        if save and path is None:
            # nothing to name the file after: the documented ValueError
            md.payload['impl'] = rr[1] if rr[0] == 'err' else 'returned'
            if rr != ('err', 'EValue'):
                md.fail('saving a molecule without a name and without out_file does not raise ValueError', 'wrapper:save-without-name')
            md.stats['checks'] = 1
            return md
        if rr[0] == 'err':
            md.payload['impl'] = rr[1]
            md.fail('wrapper generate_conformers raised %s' % rr[1], 'wrapper:raised')
            return md
        r = rr[1]
        if bad:
            md.payload['impl'] = repr(r)[:200]
            if r is not False:
                md.fail('wrapper does not return False for an option the generator refuses (%s)' % bad, 'wrapper:bad-option')
            if cg.mol_signature(src) != sig0:
                md.fail('wrapper result inconsistent: input modified', 'wrapper:input modified')
            md.stats['checks'] = 1
            return md
        if save and save['pre_exists'] and not save['overwrite']:
            md.payload['impl'] = repr(r)[:200]
            if r is not False or open(path).read() != 'SENTINEL':
                md.fail('an existing output file is not left alone (overwrite=False): returned %r' % (r,), 'wrapper:existing-file')
            md.stats['checks'] = 1
            return md
        if r is False:
            md.fail('wrapper generate_conformers returned False', 'wrapper:false')
            return md
        mol, rname, nrot, maxc, idx, en, sparse = r
        full_mol, v = G.ConformerGenerator(get_values=True, sparse_rmsd=False, **kw).generate_conformers(U.mol_from_smiles(smi, name))
        full = gen_obs(full_mol, v)
        stored = U.get_conformer_energies_from_mol(mol)
        md.payload['impl'] = {'indices': [int(x) for x in idx], 'energies': [float(x) for x in en], 'sparse_rmsd': [float(x) for x in sparse],
                              'name': rname, 'max_conformers': int(maxc)}
        problems = []
        if rname != want_name:
            problems.append('name')
        if nrot != AllChem.CalcNumRotatableBonds(src):
            problems.append('nrot')
        if maxc != full['max_conformers'] or (kw['num_conf'] != -1 and maxc != kw['num_conf']):
            problems.append('max_conformers')
        if [int(x) for x in idx] != full['indices'] or [float(x) for x in en] != full['energies']:
            problems.append('indices/energies differ from the generator run with the same seed')
        if mol.GetNumConformers() != len(idx) or len(en) != len(idx):
            problems.append('lengths')
        if [np.array(cf.GetPositions()).round(12).tolist() for cf in mol.GetConformers()] != full['coords']:
            problems.append('coordinates differ from the generator run with the same seed')
        if cg.canon_smiles(mol) != Chem.MolToSmiles(Chem.RemoveHs(Chem.Mol(src)), isomericSmiles=True):
            problems.append('molecule changed')
        if stored is None or ['%.4f' % e for e in en] != ['%.4f' % e for e in stored]:
            problems.append('stored energies')
        if cg.mol_signature(src) != sig0:
            problems.append('input modified')
        if save:
            if not os.path.isfile(path):
                problems.append('file not written where asked')
            else:
                recs = cov.read_sdf_coords(path)
                have = [np.array(cf.GetPositions()) for cf in mol.GetConformers()]
                if len(recs) != len(have) or any(x is None or x.shape != y.shape or np.abs(x - y).max() > 1.01e-4 for x, y in zip(recs, have)):
                    problems.append('saved file does not hold the returned conformers in order')
            if sorted(os.listdir(tmp)) != [os.path.relpath(path, tmp).split(os.sep)[0]]:
                problems.append('unexpected files written: %s' % sorted(os.listdir(tmp)))
        # the values handed to the HDF5 buffer are the returned ones (a stub buffer: the third-party HDF5Buffer is not exercised)
        class _Buf(object):
            filename = 'stub'
            got = None

            def add_group(self, gname, gdict):
                self.got = (gname, gdict)
        buf = _Buf()
        okv = GEN.values_to_hdf5(buf, r)
        if okv is not True or buf.got is None or buf.got[0] != rname:
            problems.append('values_to_hdf5 does not record the group under the molecule name')
        else:
            gd = buf.got[1]
            try:
                same = (list(np.asarray(gd['indices']['data'])) == list(idx) and list(np.asarray(gd['energies']['data'])) == list(en)
                        and list(np.asarray(gd['rmsd']['data']).ravel()) == list(np.asarray(sparse).ravel())
                        and int(gd['targetConfNum']['data']) == int(maxc) and int(gd['numRotatableBonds']['data']) == int(nrot))
            except Exception:
                same = False
            if not same:
                problems.append('values_to_hdf5 records other values than the returned ones')
        if GEN.values_to_hdf5(_Buf(), r[:3]) is not False:
            problems.append('values_to_hdf5 accepts a truncated tuple')
        if problems:
            md.fail('wrapper result inconsistent: ' + '; '.join(problems), 'wrapper:' + problems[0])
        md.case('', 'q_list_eqb (triu %s 1%%nat) %s' % (cg.qmat(full['rmsds']), cg.qlist([float(x) for x in sparse])), 'triu %s 1%%nat' % cg.qmat(full['rmsds']))
        md.nontrivial = len(idx) > 2
        return md
    finally:
        if tmp:
            cov.drop_dir(tmp)


def draw_api(rng):
    mols = cov.all_mols()
    name, smi = mols[rng.randrange(len(mols))]
    return {'molecule': name, 'smiles': smi, 'num_conf': rng.choice([2, 3, 4, 5]), 'first': rng.choice([-1, -1, 2]), 'pool_multiplier': rng.choice([1, 2]),
            'rmsd_cutoff': rng.choice([None, 0.3, 0.6]), 'max_energy_diff': rng.choice([None, 4.0]), 'forcefield': rng.choice(['uff', 'mmff94', 'mmff94s']),
            'seed': rng.choice([rng.randrange(1, 10 ** 6)] * 5 + cov.SEEDS_SPECIAL), 'stale_prop': rng.random() < 0.3}


def make_api(p):
    """The ways of calling one generator (get_values / sparse_rmsd / store_energies, __call__, keyword argument) return the same conformers,
    energies and RMSDs as the full-valued run with the same seed."""
    from rdkit import Chem
    G, _, U = _mods()
    md = Made(dict(p, stream='api'))
    if forcefield_defect(md, p):
        return md
    kw = _kw(p)
    name, smi = p['molecule'], p['smiles']

    def src():
        m = U.mol_from_smiles(smi, name)
        if p.get('stale_prop'):
            m.SetProp('_ConfEnergies', '9.0000|9.5000')
        return m

    def coords(m):
        return [np.array(cf.GetPositions()).round(12).tolist() for cf in m.GetConformers()]
    ref_mol, ref_v = G.ConformerGenerator(get_values=True, sparse_rmsd=False, **kw).generate_conformers(src())
    ref = gen_obs(ref_mol, ref_v)
    md.payload['impl'] = {x: ref[x] for x in ('indices', 'energies', 'rmsds', 'prop')}
    bad = []
    # default flags: a molecule only, energies stored
    m1 = G.ConformerGenerator(**kw)(src())
    if isinstance(m1, tuple) or not isinstance(m1, Chem.Mol):
        bad.append('get_values=False does not return a molecule')
    elif coords(m1) != ref['coords'] or (m1.GetProp('_ConfEnergies') if m1.HasProp('_ConfEnergies') else None) != ref['prop']:
        bad.append('__call__ with get_values=False returns other conformers / stored energies')
    # sparse RMSDs (the default of get_values=True)
    m2, v2 = G.ConformerGenerator(get_values=True, **kw).generate_conformers(mol=src())
    sparse = [float(x) for x in np.asarray(v2[3]).ravel()]
    n = len(ref['indices'])
    if coords(m2) != ref['coords'] or [int(x) for x in v2[1]] != ref['indices'] or [float(x) for x in v2[2]] != ref['energies'] or int(v2[0]) != ref['max_conformers']:
        bad.append('sparse_rmsd=True changes conformers / indices / energies')
    if np.asarray(v2[3]).ndim != 1 or sparse != [ref['rmsds'][a][b] for a in range(n) for b in range(a + 1, n)]:
        bad.append('sparse RMSDs are not the upper triangle of the full matrix')
    # store_energies=False: same conformers and values, nothing written on the molecule
    m3, v3 = G.ConformerGenerator(get_values=True, sparse_rmsd=False, store_energies=False, **kw).generate_conformers(src())
    o3 = gen_obs(m3, v3)
    if any(o3[x] != ref[x] for x in ('coords', 'indices', 'energies', 'rmsds', 'max_conformers', 'smiles')):
        bad.append('store_energies=False changes the result')
    if not p.get('stale_prop') and o3['prop'] is not None:
        bad.append('store_energies=False still stores energies')
    stored = U.get_conformer_energies_from_mol(ref_mol)
    if stored is None or len(stored) != ref_mol.GetNumConformers() or ref['prop'] != '|'.join('%.4f' % e for e in ref['energies']):
        bad.append('stored energies are not the returned ones at 4 decimals')
    ind = np.asarray(ref_v[1])
    if ind.dtype.kind != 'i' or np.asarray(ref_v[2]).dtype.kind != 'f' or np.asarray(ref_v[3]).shape != (n, n) or not isinstance(ref_v[0], int):
        bad.append('value types / shapes')
    for b in bad:
        md.fail('generator call forms disagree: ' + b, 'api:' + b.split(' ')[0])
    md.case('', 'q_list_eqb (triu %s 1%%nat) %s' % (cg.qmat(ref['rmsds']), cg.qlist(sparse)), 'triu %s 1%%nat' % cg.qmat(ref['rmsds']))
    md.nontrivial = n > 1
    return md


def make_eprop(p):
    md = Made(dict(p, stream='energy-property'))
    cov.check_eprop(md, p)
    return md


def make_ctor_type(p):
    md = Made(dict(p, stream='ctor-types'))
    cov.check_ctor_type(md, p, _mods()[0])
    return md


MAKERS = {'synthetic': make_synth, 'options': make_options, 'real-filter': make_real, 'pipeline': make_pipeline, 'reuse': make_reuse,
          'wrapper': make_wrapper, 'api': make_api, 'energy-property': make_eprop, 'ctor-types': make_ctor_type}
DIRECT_ONLY = ('energy-property', 'ctor-types')      # checked on the implementation alone: no Coq case expected
_OPTS = ('num_conf', 'first', 'pool_multiplier', 'rmsd_cutoff', 'max_energy_diff', 'forcefield', 'seed')
PARAM_KEYS = {'synthetic': ('smiles', 'named', 'k', 'E', 'T', 'conf_ids', 'cutoff_arg', 'ediff_arg', 'first_conformers', 'ties', 'symmetric', 'energy_shift',
                            'all_equal', 'fine_rmsd'),
              'options': ('nc', 'f', 'cut', 'ed', 'pm', 'hist', 'ctype', 'positional', 'ff', 'seed'),
              'real-filter': ('molecule', 'smiles', 'forcefield', 'num_conf', 'rmsd_cutoff', 'max_energy_diff', 'first', 'seed', 'ids', 'ids_seed'),
              'pipeline': ('molecule', 'smiles', 'forcefield', 'num_conf', 'pool_multiplier', 'first', 'rmsd_cutoff', 'max_energy_diff', 'seed', 'empty_pool',
                           'variant'),
              'reuse': _OPTS + ('sequence', 'pattern', 'fail_at', 'keep_objects'),
              'wrapper': ('molecule', 'smiles') + _OPTS + ('name_mode', 'positional', 'standardise', 'save', 'bad_option', 'defaults'),
              'api': ('molecule', 'smiles') + _OPTS + ('stale_prop',),
              'energy-property': ('energies', 'container', 'preset'),
              'ctor-types': ('field', 'type', 'value')}


def safe_make(stream, params):
    """MAKERS[stream](params); an exception escaping from the implementation (or from an oracle called on its output) becomes a failure
    of this case, with the parameters as the replayable input, instead of ending the run."""
    try:
        return MAKERS[stream](params)
    except Exception as e:
        import traceback
        md = Made(dict(params, stream=stream))
        tb = traceback.format_exc()
        md.payload['impl'] = 'raised %s: %s' % (type(e).__name__, str(e)[:300])
        md.fail('the %s case could not be completed: %s: %s' % (stream, type(e).__name__, str(e)[:200]), 'unexpected-exception:' + stream,
                traceback=tb[-3000:])
        return md


def run(ctx):
    ok, res = core.proof_step(ctx)
    rng = ctx.rng
    cases, payloads, mexpr = [], {}, {}
    found = [False]
    dist = {'cases_by_stream': {}, 'params_by_stream': {}, 'skipped': {}, 'synthetic_ties': 0, 'synthetic_asymmetric_oracle': 0,
            'synthetic_unstable_argsort_sizes': 0, 'synthetic_ids_not_positions': 0, 'accepted_count_hist': {}, 'reject_first': 0, 'reject_window': 0,
            'reject_rmsd': 0, 'ctor_errors_expected': 0, 'empty_pool_runs': 0, 'first_above_num_conf': 0, 'real_pools_measured': 0,
            'getbestrms_max_asymmetry': 0.0, 'getbestrms_asymmetry_violations': 0, 'by_forcefield': {},
            # coverage extension (work/coverage_C13.md)
            'direct_checks_by_stream': {}, 'synthetic_pool_molecule': {}, 'synthetic_unnamed_pool': 0, 'synthetic_energy_shift': {}, 'synthetic_all_equal': 0, 'synthetic_fine_rmsd_values': 0,
            'synthetic_negative_lowest_energy': 0, 'options_numeric_type': {}, 'options_positional': 0, 'options_bad_forcefield': 0, 'options_seed': {},
            'real_conformer_ids': {}, 'molecule_class_by_stream': {}, 'special_seed_runs': 0, 'pipeline_input_variant': {}, 'reuse_pattern': {},
            'reuse_same_object_twice': 0, 'wrapper_name_mode': {}, 'wrapper_save_runs': 0, 'wrapper_refused_runs': 0, 'wrapper_standardise_runs': 0,
            'wrapper_default_option_runs': 0, 'wrapper_positional': 0, 'mmff94s_defect_cases': 0, 'reuse_object_changed_in_place': 0, 'reuse_temporaries': 0}
    cov.SCRATCH[0] = ctx.workdir

    def bump(d, k, n=1):
        d[k] = d.get(k, 0) + n

    def take(stream, tag, params, sample=False):
        md = safe_make(stream, params)
        bump(dist['params_by_stream'], stream)
        for why in md.skips:
            bump(dist['skipped'], '%s: %s' % (stream, why))
        for sub, expr, model in md.cases:
            key = '%s/%s%s' % (stream, tag, ('/' + sub) if sub else '')
            cases.append((key, expr))
            payloads[key] = md.payload
            mexpr[key] = model
            bump(dist['cases_by_stream'], stream)
        for what, fk, extra in md.fails:
            found[0] = True
            ctx.fail(what, dict(md.payload, **extra), finding_key=fk)
        dist['mmff94s_defect_cases'] += md.stats.get('mmff94s_defect', 0)
        if md.stats.get('checks'):
            bump(dist['direct_checks_by_stream'], stream, md.stats['checks'])
        if md.stats.get('mol_class'):
            bump(dist['molecule_class_by_stream'], '%s: %s' % (stream, md.stats['mol_class']))
        if params.get('seed') in cov.SEEDS_SPECIAL and stream != 'options':
            dist['special_seed_runs'] += 1
        if 'asymmetry' in md.stats:
            dist['real_pools_measured'] += 1
            dist['getbestrms_max_asymmetry'] = max(dist['getbestrms_max_asymmetry'], md.stats['asymmetry'])
            dist['getbestrms_asymmetry_violations'] += md.stats['asymmetry'] > SYM_TOL
        ctx.count((stream, json.dumps({k: params.get(k) for k in PARAM_KEYS[stream]}, sort_keys=True, default=str)),
                  md.nontrivial and (bool(md.cases) or stream in DIRECT_ONLY))
        if sample and md.cases:
            ctx.sample({'case': '%s/%s' % (stream, tag), 'parameters': {k: params.get(k) for k in PARAM_KEYS[stream]},
                        'implementation': md.payload.get('impl'), 'model_check': md.cases[0][1][:300]})
        return md

    for i in range(ctx.n(2000, 20000)):
        c = draw_synth(rng)
        md = take('synthetic', str(i), c, sample=i < 2)
        dist['synthetic_ties'] += c['ties']
        dist['synthetic_asymmetric_oracle'] += (not c['symmetric'])
        dist['synthetic_unstable_argsort_sizes'] += (c['k'] > 16 and c['ties'])
        dist['synthetic_ids_not_positions'] += c['conf_ids'] != list(range(c['k']))
        bump(dist['synthetic_pool_molecule'], c['smiles'])
        bump(dist['synthetic_energy_shift'], str(c['energy_shift']))
        dist['synthetic_unnamed_pool'] += (not c['named'])
        dist['synthetic_all_equal'] += c['all_equal']
        dist['synthetic_fine_rmsd_values'] += c['fine_rmsd']
        dist['synthetic_negative_lowest_energy'] += min(c['E']) < 0
        if md.stats:
            bump(dist['accepted_count_hist'], md.stats['n_acc'])
            for k, v in md.stats['rej'].items():
                dist['reject_' + k] += v
    for i in range(ctx.n(200, 2000)):
        p = draw_options(rng)
        md = take('options', str(i), p, sample=i < 1)
        dist['ctor_errors_expected'] += md.stats.get('ctor_error', 0)
        dist['options_bad_forcefield'] += md.stats.get('bad_forcefield', 0)
        bump(dist['options_numeric_type'], p['ctype'])
        bump(dist['options_seed'], str(p['seed']))
        dist['options_positional'] += p['positional']
    for i in range(ctx.n(40, 400)):
        take('ctor-types', str(i), cov.draw_ctor_type(rng))
    for i in range(ctx.n(200, 2000)):
        take('energy-property', str(i), cov.draw_eprop(rng))
    # always drawn: the two molecules of the pool for which MMFF94 and MMFF94s differ, with forcefield='mmff94s'
    for tag, (name, smi) in (('fixed-amide', ('amide', 'CC(=O)NCC')), ('fixed-anilide', ('anilide', 'CNc1ccccc1'))):
        take('real-filter', tag, {'molecule': name, 'smiles': smi, 'forcefield': 'mmff94s', 'num_conf': 6, 'rmsd_cutoff': 0.3, 'max_energy_diff': None,
                                  'first': -1, 'seed': 20 + rng.randrange(1000), 'ids': None, 'ids_seed': 0})
        take('pipeline', tag, {'molecule': name, 'smiles': smi, 'forcefield': 'mmff94s', 'num_conf': 4, 'pool_multiplier': 2, 'first': -1, 'rmsd_cutoff': 0.3,
                               'max_energy_diff': None, 'seed': 20 + rng.randrange(1000), 'empty_pool': False, 'variant': 'propertymol'})
    off = rng.randrange(1000)
    for i in range(ctx.n(120, 600)):
        p = draw_real(rng, i, off)
        bump(dist['by_forcefield'], p['forcefield'])
        md = take('real-filter', str(i), p, sample=i < 1)
        bump(dist['real_conformer_ids'], md.stats.get('ids', 'no-pool'))
    for i in range(ctx.n(80, 400)):
        md = take('pipeline', str(i), draw_pipeline(rng, i, off), sample=i < 1)
        dist['empty_pool_runs'] += md.stats.get('empty_pool', 0)
        dist['first_above_num_conf'] += md.stats.get('first_above_num_conf', 0)
        bump(dist['pipeline_input_variant'], md.stats.get('variant', '?'))
    for i in range(ctx.n(16, 80)):
        md = take('reuse', str(i), draw_reuse(rng, i))
        bump(dist['reuse_pattern'], md.stats.get('pattern', '?'))
        dist['reuse_same_object_twice'] += md.stats.get('same_object_twice', 0)
        dist['reuse_object_changed_in_place'] += md.stats.get('changed_in_place', 0)
        dist['reuse_temporaries'] += md.stats.get('temporaries', 0)
    for i in range(ctx.n(48, 240)):
        md = take('wrapper', str(i), draw_wrapper(rng, i))
        bump(dist['wrapper_name_mode'], md.stats.get('name_mode', '?'))
        dist['wrapper_save_runs'] += bool(md.stats.get('save'))
        dist['wrapper_refused_runs'] += bool(md.stats.get('bad_option'))
        dist['wrapper_standardise_runs'] += bool(md.stats.get('standardise'))
        dist['wrapper_default_option_runs'] += bool(md.stats.get('defaults'))
        dist['wrapper_positional'] += bool(md.stats.get('positional'))
    for i in range(ctx.n(30, 150)):
        take('api', str(i), draw_api(rng), sample=i < 1)

    # a stream that compares nothing proves nothing
    for stream in MAKERS:
        if stream in DIRECT_ONLY:
            if not dist['direct_checks_by_stream'].get(stream):
                ctx.fail('stream %s checked nothing' % stream, {'stream': stream}, no_input=True, kind='harness-error')
            continue
        if not dist['cases_by_stream'].get(stream):
            ctx.fail('stream %s produced no comparable case (%d parameter sets drawn, skipped: %s)' % (stream, dist['params_by_stream'].get(stream, 0),
                     {k: v for k, v in dist['skipped'].items() if k.startswith(stream)}), {'stream': stream}, no_input=True, kind='harness-error')

    nbad = core.compare_cases(ctx, cases, IMPORTS, 'C13 conformer selection', payloads, model_expr=mexpr,
                              finding_key_of=lambda k, pl: 'model-vs-code:%s' % pl.get('stream'))
    found_input = found[0] or nbad > 0
    dist['accepted_count_hist'] = {str(k): v for k, v in sorted(dist['accepted_count_hist'].items())}
    ctx.coverage['rule'] = ('synthetic: real k-conformer molecule (k in 1..24; pool molecule plain, charged, two fragments, isotope-labelled, with a retained '
                            'stereo hydrogen, symmetric; named or not; conformer ids = positions / shifted / scattered), energies (incl. negative, large, all equal) '
                            'and RMSD table (dyadic grid, optionally + 2^-33) injected through the two oracle calls, options from grids hitting ties with the cut-off '
                            'and the window edge; non-trivial = 1 < #accepted < k. options: constructor (keyword / positional, float / int / numpy option values, '
                            'force-field names, seeds) + option state over histories of molecules with 0..15 rotatable bonds. ctor-types / energy-property: '
                            'implementation only. real-filter: filter_conformers on e3fp-built pools (ids optionally shifted / scattered / gapped) with independently '
                            're-measured energies/RMSDs and an RDKit-only repeat of the minimisation. pipeline / reuse: generate_conformers against the model\'s '
                            '`generate (after_history ..)` on pools rebuilt with RDKit only (input handed over as PropertyMol / bare Mol / with hydrogens / with '
                            'conformers / with stale properties; histories A B A on one object, a failing molecule in the middle, a second generator in between, '
                            'an input changed in place), incl. the empty-pool RuntimeError; plus seed (0 and 2^31-1 included), identity (charges, isotopes, '
                            'fragments, name), input-unmodified, wrapper (names, positional, saving with every compression, existing file, refused options, '
                            'standardise, defaults, HDF5 values) and call-form (api) checks; non-trivial = more than one conformer returned. distinct by full '
                            'parameter set; every skipped comparison is counted under input_distribution.skipped with its reason')
    ctx.coverage['input_distribution'] = dist
    ctx.coverage['trusted_base'] = ['RDKit (ETKDG embedding, UFF/MMFF94/MMFF94s minimisation and energies under RDKit\'s own variant names, GetBestRMS, AddHs/RemoveHs, conformer copying): oracles of the '
                                    'model; their determinism under a seed and the identity of the molecule are exercised by the pipeline/reuse/wrapper streams only '
                                    '(testing, not proof)']
    ctx.assumptions += ['np.argsort returns a permutation that sorts the energies (any such permutation is covered by the theorems; the unstable default sort is '
                        'observed for k >= 17 with ties and fed to the model as observed)',
                        'GetBestRMS is symmetric and zero on the diagonal (needed by accepted_far / rmsd_reported_sym only): CHECKED on every real pool of this run, '
                        'max deviation %.3g over %d pools, %d above %g' % (dist['getbestrms_max_asymmetry'], dist['real_pools_measured'],
                                                                            dist['getbestrms_asymmetry_violations'], SYM_TOL),
                        'float comparisons equal exact rational comparisons: synthetic values are dyadic (exact); real cases within round-off of a threshold are skipped '
                        'and counted (input_distribution.skipped)',
                        'PARTIAL: seed reproducibility, input-unmodified, graph/stereo preservation and the wrapper are tests on %d RDKit runs, not theorems'
                        % sum(dist['params_by_stream'].get(s, 0) for s in ('real-filter', 'pipeline', 'reuse', 'wrapper', 'api'))]
    if not ok:
        core.report_broken_proof(ctx, res, found_input)


def replay(ctx, path):
    """Re-run a recorded case: the implementation from the recorded parameters, the model in Coq; exit 1 if they still disagree
    or a direct clause is still violated."""
    d = json.load(open(path))
    c = d.get('case', {})
    print(json.dumps({k: v for k, v in d.items() if k != 'case'}, indent=1))
    stream = c.get('stream')
    if stream not in MAKERS:
        print(json.dumps(c, indent=1, default=str)[:6000])
        print('no re-runnable case in this replay file (kind=%s)' % d.get('kind'))
        return 1
    params = {k: c[k] for k in PARAM_KEYS[stream] if k in c}
    cov.SCRATCH[0] = ctx.workdir
    print('stream %s, parameters: %s' % (stream, json.dumps(params, default=str)[:3000]))
    md = safe_make(stream, params)
    print('implementation now:', json.dumps(md.payload.get('impl'), default=str)[:3000])
    bad = 0
    for what, fk, extra in md.fails:
        print('DIRECT VIOLATION (%s): %s' % (fk, what))
        bad += 1
    for why in md.skips:
        print('comparison skipped:', why)
    if md.cases:
        results, logs = core.coq_eval_bools([(sub or 'case', expr) for sub, expr, _ in md.cases], IMPORTS, ctx.workdir + '/replay', shard=50)
        for sub, expr, model in md.cases:
            r = results.get(sub or 'case')
            print('model = implementation on %s: %s' % (sub or 'case', r))
            if r is not True:
                bad += 1
                print('model output:', core.coq_eval_raw(model, IMPORTS, ctx.workdir + '/raw')[-3000:])
    print('REPLAY %s' % ('FAILS' if bad else 'passes'))
    import shutil
    shutil.rmtree(ctx.workdir, ignore_errors=True)
    return 1 if bad else 0
