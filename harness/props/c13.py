"""C13 - conformer selection contract (model M5 = Model/Conformer.v, theorems in Properties/C13.v).

Theorem-backed (for every energy list, every RMSD oracle, every sorting permutation, every option value and every history of
molecules): order by energy, pairwise separation, energy window, count <= first, lowest first, reported energies / RMSD matrix
are those of the returned conformers, maximality, generator reuse.  Tied to the code by streams (a), (b), (d) below.
Tested only (RDKit owns them; stream (c)): embedding + minimisation reproduce under a seed, input molecule untouched,
heavy-atom graph and stereo preserved, wrapper consistency."""
import json
from fractions import Fraction

import numpy as np

import core
import conf_gen as cg

IMPORTS = ['From Coq Require Import QArith.', 'From E3FP Require Import Base.Prelude Model.Conformer.']
GRID = [0, 0.25, 0.5, 0.75, 1.0, 1.5, 2.0]
TOL_E = '(Qmake 1 1000000000)'
TOL_R = '(Qmake 1 10000)'


def _attempt(f):
    try:
        return ('ok', f())
    except ValueError:
        return ('err', 'EValue')
    except TypeError:
        return ('err', 'EType')
    except RuntimeError:
        return ('err', 'EOther')


def _optq(x):
    return 'None' if x is None else '(Some %s)' % cg.qlit(x)


# --------------------------------------------------------------------------- (b) synthetic oracles
def synth_case(rng, G, k_choices):
    k = rng.choice(k_choices)
    smiles = 'CCCCO'
    mol = cg.embed_pool(smiles, k, minimise=False)
    k = mol.GetNumConformers()
    ties = rng.random() < 0.4
    E = [rng.choice(GRID) * rng.choice([1, 1, 2]) + (0 if ties else (i + 1) / 1024.0) for i in range(k)]
    if not ties:
        rng.shuffle(E)
    sym = rng.random() < 0.7
    T = [[0.0] * k for _ in range(k)]
    for a in range(k):
        for b in range(k):
            if a < b or (not sym and a != b):
                T[a][b] = rng.choice(GRID)
    if sym:
        for a in range(k):
            for b in range(a):
                T[a][b] = T[b][a]
    cutoff_arg = rng.choice([None, 0, 0.25, 0.25, 0.5, 0.5, 0.75, 1.0, 1.5, -2.0])
    ediff_arg = rng.choice([None, None, 0, 0.25, 0.5, 1.0, 2.0, 2.0, 4.0, -3])
    fc = rng.choice([-1, 1, 2, 3, 3, 4, max(1, k - 1), max(1, k - 1), k, k, k + 1, 50, 50])
    return {'smiles': smiles, 'k': k, 'E': E, 'T': T, 'cutoff_arg': cutoff_arg, 'ediff_arg': ediff_arg, 'first_conformers': fc,
            'ties': ties, 'symmetric': sym}


def run_synth(G, c):
    """Drive the real filter_conformers with the two oracle calls replaced (harness side only)."""
    mol = cg.embed_pool(c['smiles'], c['k'], minimise=False)
    before = [np.array(cf.GetPositions()) for cf in mol.GetConformers()]
    heavy = [a.GetIdx() for a in mol.GetAtoms() if a.GetAtomicNum() > 1]
    g = G.ConformerGenerator(num_conf=5, rmsd_cutoff=c['cutoff_arg'], max_energy_diff=c['ediff_arg'])
    g.first_conformers = c['first_conformers']
    E = c['E']
    g.get_conformer_energies = lambda m: np.array(E, dtype=float)
    calls = []
    with cg.patched_allchem(GetBestRMS=cg.table_oracle(c['T'], calls)):
        new, acc, en, rm = g.filter_conformers(mol)
    acc = [int(x) for x in acc]
    # the returned molecule carries the accepted conformers, in order (heavy atoms; hydrogens are removed by the code)
    copied_ok = new.GetNumConformers() == len(acc) and [cf.GetId() for cf in new.GetConformers()] == list(range(len(acc)))
    if copied_ok:
        for i, a in enumerate(acc):
            if not np.array_equal(np.array(new.GetConformer(i).GetPositions()), before[a][heavy]):
                copied_ok = False
    return g, acc, [float(x) for x in en], [[float(x) for x in r] for r in rm], calls, copied_ok


def synth_expr(c, g, acc, en, rm):
    order = [int(x) for x in np.argsort(np.array(c['E'], dtype=float))]
    opts = cg.fopts_lit(c['first_conformers'], g.max_energy_diff, g.rmsd_cutoff)
    core_m = 'filter_core (table_rmsd %s) %s %s %s' % (cg.qmat(c['T']), cg.qlist(c['E']), opts, cg.natlist(order))
    expr = 'out_eqb (%s) %s' % (core_m, cg.out_lit(acc, en, rm))
    model = core_m
    if not c['ties']:
        m2 = 'filter_conformers (table_rmsd %s) %s %s' % (cg.qmat(c['T']), cg.qlist(c['E']), opts)
        expr = '(%s) && out_eqb (%s) %s' % (expr, m2, cg.out_lit(acc, en, rm))
    return expr, model


def direct_contract(c, g, acc, en, rm):
    """The property's clauses evaluated directly on the implementation's output (used when something diverges and as a
    second, model-free check): returns a list of violated clause names."""
    bad = []
    E, T = c['E'], c['T']
    if any(en[i] > en[i + 1] for i in range(len(en) - 1)):
        bad.append('sorted')
    if en != [E[a] for a in acc]:
        bad.append('energies_reported')
    if len(set(acc)) != len(acc):
        bad.append('nodup')
    if acc and E[acc[0]] != min(E):
        bad.append('lowest_first')
    if len(acc) > max(1, c['first_conformers']):
        bad.append('le_first')
    if g.max_energy_diff != -1.0 and any(E[a] > E[acc[0]] + g.max_energy_diff for a in acc):
        bad.append('window')
    for i in range(len(acc)):
        for j in range(len(acc)):
            want = 0.0 if i == j else T[acc[min(i, j)]][acc[max(i, j)]]
            if rm[i][j] != want:
                bad.append('rmsd_reported')
            if i < j and T[acc[i]][acc[j]] < g.rmsd_cutoff:
                bad.append('far')
    return sorted(set(bad))


# --------------------------------------------------------------------------- (a)/(c) real RDKit runs
def pool_like_impl(smiles, name, n_confs, seed, forcefield):
    """Rebuild, with RDKit only, the pool e3fp would embed and minimise for this molecule (same calls, same seed)."""
    from rdkit import Chem
    from rdkit.Chem import AllChem
    from e3fp.conformer.util import mol_from_smiles
    m = Chem.AddHs(mol_from_smiles(smiles, name))
    Chem.SanitizeMol(m)
    AllChem.EmbedMultipleConfs(m, numConfs=n_confs, maxAttempts=10 * n_confs, pruneRmsThresh=-1.0, randomSeed=seed,
                               ignoreSmoothingFailures=True)
    for cf in m.GetConformers():
        if forcefield == 'uff':
            AllChem.UFFGetMoleculeForceField(m, confId=cf.GetId()).Minimize()
        else:
            AllChem.MMFFSanitizeMolecule(m)
            p = AllChem.MMFFGetMoleculeProperties(m, mmffVariant=forcefield)
            AllChem.MMFFGetMoleculeForceField(m, p, confId=cf.GetId()).Minimize()
    return m


def stable_inputs(E, T, cutoff, ediff):
    """False when a decision of the loop lies within round-off of its threshold (then model and code may legitimately differ)."""
    s = sorted(E)      # energies are re-measured bit-identically (checked by the exact comparison of the returned energies): order is exact
    if cutoff != -1.0 and any(abs(T[a][b] - cutoff) < 1e-5 for a in range(len(E)) for b in range(len(E)) if a != b):
        return False
    if ediff != -1.0 and any(abs(e - (s[0] + ediff)) < 1e-9 for e in E):
        return False
    return True


def run(ctx):
    ok, res = core.proof_step(ctx)
    import e3fp.conformer.generator as G
    import e3fp.conformer.generate as GEN
    from e3fp.conformer.util import mol_from_smiles, get_conformer_energies_from_mol
    from rdkit import Chem
    from rdkit.Chem import AllChem
    rng = ctx.rng
    cases, payloads, mexpr = [], {}, {}
    found_input = False
    dist = {'synthetic': 0, 'synthetic_ties': 0, 'synthetic_asymmetric_oracle': 0, 'synthetic_unstable_argsort_sizes': 0,
            'accepted_count_hist': {}, 'reject_first': 0, 'reject_window': 0, 'reject_rmsd': 0,
            'resolution_histories': 0, 'ctor_errors_expected': 0, 'real_filter': 0, 'real_unstable_skipped': 0,
            'real_pipeline': 0, 'reuse_sequences': 0, 'wrapper': 0, 'first_above_num_conf': 0, 'by_forcefield': {}}

    def add_case(key, expr, payload, model):
        cases.append((key, expr))
        payloads[key] = payload
        mexpr[key] = model

    # ---------------------------------------------------------------- (b) synthetic energies and RMSD tables
    k_choices = [1, 2, 3, 3, 4, 4, 5, 6, 8, 10, 18, 24]
    for i in range(ctx.n(2000, 20000)):
        c = synth_case(rng, G, k_choices)
        g, acc, en, rm, calls, copied_ok = run_synth(G, c)
        expr, model = synth_expr(c, g, acc, en, rm)
        key = 'syn/%d' % i
        pl = dict(c, stream='synthetic', impl={'accepted': acc, 'energies': en, 'rmsds': rm},
                  resolved={'rmsd_cutoff': g.rmsd_cutoff, 'max_energy_diff': g.max_energy_diff})
        add_case(key, expr, pl, model)
        viol = direct_contract(c, g, acc, en, rm)
        if viol:
            found_input = True
            ctx.fail('filter_conformers output violates the contract directly (%s)' % ','.join(viol), pl, finding_key='contract:' + viol[0])
        if not copied_ok:
            found_input = True
            ctx.fail('returned molecule does not carry the accepted conformers in order', pl, finding_key='contract:conformers-copied')
        if any(a not in acc[:len(acc)] for a, _ in calls):
            found_input = True
            ctx.fail('GetBestRMS probe is not an accepted conformer', pl, finding_key='contract:oracle-orientation')
        dist['synthetic'] += 1
        dist['synthetic_ties'] += c['ties']
        dist['synthetic_asymmetric_oracle'] += (not c['symmetric'])
        dist['synthetic_unstable_argsort_sizes'] += (c['k'] > 16 and c['ties'])
        dist['accepted_count_hist'][len(acc)] = dist['accepted_count_hist'].get(len(acc), 0) + 1
        for r in range(c['k']):
            if r not in acc:
                e0 = c['E'][acc[0]]
                if g.max_energy_diff != -1.0 and c['E'][r] > e0 + g.max_energy_diff:
                    dist['reject_window'] += 1
                elif any(c['T'][a][r] < g.rmsd_cutoff for a in acc):
                    dist['reject_rmsd'] += 1
                else:
                    dist['reject_first'] += 1
        nontriv = 1 < len(acc) < c['k']
        ctx.count(('syn', json.dumps(c, sort_keys=True)), nontriv)
        if i < 2:
            ctx.sample({'case': key, 'input': {x: c[x] for x in ('k', 'E', 'T', 'cutoff_arg', 'ediff_arg', 'first_conformers')},
                        'implementation': pl['impl'], 'model_check': expr[:300]})

    # ---------------------------------------------------------------- (d) option state over histories of molecules
    chain_mols = {}
    for n, smi in cg.CHAINS.items():
        m = Chem.MolFromSmiles(smi)
        chain_mols[n] = (m, int(AllChem.CalcNumRotatableBonds(Chem.AddHs(m))))
    for i in range(ctx.n(150, 1500)):
        nc = rng.choice([-1, -1, -1, 1, 2, 3, 7, 12, 0, -2])
        f = rng.choice([-1, -1, -1, 1, 2, 5, 10, 60, 0, -3])
        cut = rng.choice([None, 0, 0.5, 1.25, -1.0, -0.5])
        ed = rng.choice([None, 0, 2.5, -1.0, -4])
        pm = rng.choice([1, 1, 1, 2, 2, 3, 5, 0, -1])
        r = _attempt(lambda: G.ConformerGenerator(num_conf=nc, first=f, rmsd_cutoff=cut, max_energy_diff=ed, pool_multiplier=pm))
        mk = 'mk_generator %s %s %s %s %s' % (core.zlit(nc), core.zlit(f), _optq(cut), _optq(ed), core.zlit(pm))
        key = 'res/%d' % i
        if r[0] == 'err':
            dist['ctor_errors_expected'] += 1
            add_case(key, 'result_eqb ctor_obs_eqb (rbind (%s) (fun g => Ok (ctor_obs g))) (Raises %s)' % (mk, r[1]),
                     {'stream': 'constructor', 'args': [nc, f, cut, ed, pm], 'impl': r[1]}, mk)
            ctx.count(('ctor', nc, f, cut, ed, pm), False)
            continue
        g = r[1]
        obs0 = '(%s, %s, %s, %s, (%s, %s, %s))' % (core.zlit(g.num_conf), core.zlit(g.first), core.zlit(g.max_conformers),
                                                   core.zlit(g.first_conformers), cg.qlit(g.rmsd_cutoff), cg.qlit(g.max_energy_diff),
                                                   core.zlit(g.pool_multiplier))
        hist = [rng.choice(sorted(chain_mols)) for _ in range(rng.choice([1, 2, 3, 5]))]
        trace = []
        asked = []

        def fake_embed(mol, numConfs=None, **kw):
            asked.append(int(numConfs))
            return []
        for n in hist:
            with cg.patched_allchem(EmbedMultipleConfs=fake_embed):
                g.embed_molecule(chain_mols[n][0])
            trace.append((g.num_conf, g.first, g.max_conformers, g.first_conformers, asked[-1]))
        tr_lit = core.listlit(['((%s, %s, %s, %s), %s)' % tuple(core.zlit(x) for x in t) for t in trace])
        rs = core.zlist([chain_mols[n][1] for n in hist])
        expr = ('match %s with Ok g => ctor_obs_eqb (ctor_obs g) %s && trace_eqb (resolve_trace g %s) %s | Raises _ => false end'
                % (mk, obs0, rs, tr_lit))
        add_case(key, expr, {'stream': 'resolution', 'args': [nc, f, cut, ed, pm], 'nrot_history': [chain_mols[n][1] for n in hist],
                             'impl_trace(num_conf,first,max_conformers,first_conformers,n_confs)': trace},
                 'match %s with Ok g => resolve_trace g %s | Raises _ => [] end' % (mk, rs))
        # the reuse clause directly: the last molecule through a fresh object gives the same resolved values
        g2 = G.ConformerGenerator(num_conf=nc, first=f, rmsd_cutoff=cut, max_energy_diff=ed, pool_multiplier=pm)
        with cg.patched_allchem(EmbedMultipleConfs=fake_embed):
            g2.embed_molecule(chain_mols[hist[-1]][0])
        if (g2.max_conformers, g2.first_conformers, asked[-1]) != (trace[-1][2], trace[-1][3], trace[-1][4]):
            found_input = True
            ctx.fail('resolved options depend on the molecules processed before', payloads[key], finding_key='reuse:resolved-options')
        dist['resolution_histories'] += 1
        ctx.count(('res', nc, f, pm, tuple(hist)), len(set(chain_mols[n][1] >= 8 for n in hist)) > 1 or nc != -1)

    # ---------------------------------------------------------------- (a) real conformers, re-measured independently
    n_real = ctx.n(24, 180)
    for i in range(n_real):
        name, smi = cg.MOLS[i % len(cg.MOLS)]
        ff = rng.choice(['uff', 'uff', 'mmff94', 'mmff94s'])
        k = rng.choice([4, 5, 6, 8])
        cutoff = rng.choice([None, 0.3, 0.5, 0.8, 1.2])
        ediff = rng.choice([None, 0.5, 1.0, 2.0, 5.0])
        first = rng.choice([-1, -1, 1, 2, 3])
        seed = rng.randrange(1, 10 ** 6)
        g = G.ConformerGenerator(num_conf=k, first=first, rmsd_cutoff=cutoff, max_energy_diff=ediff, forcefield=ff, seed=seed)
        src = mol_from_smiles(smi, name)
        pool = g.embed_molecule(src)
        if not pool.GetNumConformers():
            continue
        g.minimize_conformers(pool)
        ref = Chem.Mol(pool)
        E = cg.measure_energies(ref, ff)
        T = cg.measure_rmsds(ref)
        new, acc, en, rm = g.filter_conformers(pool)
        acc = [int(x) for x in acc]
        pl = {'stream': 'real-filter', 'molecule': name, 'smiles': smi, 'forcefield': ff, 'num_conf': k, 'first': first, 'rmsd_cutoff': cutoff,
              'max_energy_diff': ediff, 'seed': seed, 'energies_remeasured': E, 'rmsd_remeasured': T,
              'impl': {'accepted': acc, 'energies': [float(x) for x in en], 'rmsds': [[float(x) for x in r] for r in rm]}}
        dist['by_forcefield'][ff] = dist['by_forcefield'].get(ff, 0) + 1
        if not stable_inputs(E, T, g.rmsd_cutoff, g.max_energy_diff):
            dist['real_unstable_skipped'] += 1
            ctx.count(('real', name, seed), False)
            continue
        opts = cg.fopts_lit(g.first_conformers, g.max_energy_diff, g.rmsd_cutoff)
        model = 'filter_conformers (table_rmsd %s) %s %s' % (cg.qmat(T), cg.qlist(E), opts)
        add_case('real/%d' % i, 'out_close2 %s %s (%s) %s' % (TOL_E, TOL_R, model, cg.out_lit(acc, en, rm)), pl, model)
        dist['real_filter'] += 1
        ctx.count(('real', name, ff, k, cutoff, ediff, first, seed), 1 < len(acc) < len(E))
        if i < 2:
            ctx.sample({'case': 'real/%d' % i, 'input': {x: pl[x] for x in ('smiles', 'forcefield', 'num_conf', 'first', 'rmsd_cutoff', 'max_energy_diff', 'seed')},
                        'implementation': pl['impl']})

    # ---------------------------------------------------------------- (c) the clauses RDKit owns: implementation-only differential runs
    def gen_obs(mol, vals):
        return {'smiles': cg.canon_smiles(mol), 'coords': [np.array(cf.GetPositions()).round(12).tolist() for cf in mol.GetConformers()],
                'max_conformers': int(vals[0]), 'indices': [int(x) for x in vals[1]], 'energies': [float(x) for x in vals[2]],
                'rmsds': np.asarray(vals[3]).tolist(), 'prop': mol.GetProp('_ConfEnergies') if mol.HasProp('_ConfEnergies') else None}

    n_pipe = ctx.n(16, 120)
    for i in range(n_pipe):
        name, smi = cg.MOLS[(i * 7 + 3) % len(cg.MOLS)]
        ff = rng.choice(['uff', 'uff', 'mmff94'])
        nc = rng.choice([2, 3, 4, 5])
        pm = rng.choice([1, 2, 3])
        first = rng.choice([-1, -1, 1, 2, nc + 2])
        cutoff = rng.choice([None, 0.4, 0.5, 1.0])
        ediff = rng.choice([None, 1.0, 3.0])
        seed = rng.randrange(1, 10 ** 6)
        kw = dict(num_conf=nc, first=first, pool_multiplier=pm, rmsd_cutoff=cutoff, max_energy_diff=ediff, forcefield=ff, seed=seed)
        pl = dict(kw, stream='pipeline', molecule=name, smiles=smi)
        src = mol_from_smiles(smi, name)
        sig0 = cg.mol_signature(src)
        g = G.ConformerGenerator(get_values=True, sparse_rmsd=False, **kw)
        mol1, v1 = g.generate_conformers(src)
        o1 = gen_obs(mol1, v1)
        # input molecule unmodified
        if cg.mol_signature(src) != sig0:
            found_input = True
            ctx.fail('generate_conformers modified its input molecule', dict(pl, before=sig0, after=cg.mol_signature(src)), finding_key='input-modified')
        # same molecule: heavy-atom graph and stereo; every returned conformer has the input's stereo when re-perceived from 3D
        want = Chem.MolToSmiles(Chem.RemoveHs(Chem.Mol(src)), isomericSmiles=True)
        if o1['smiles'] != want:
            found_input = True
            ctx.fail('returned molecule differs from the input (graph/stereo): %s vs %s' % (o1['smiles'], want), pl, finding_key='identity-changed')
        for cf in mol1.GetConformers():
            cp = Chem.Mol(mol1)
            Chem.AssignStereochemistryFrom3D(cp, confId=cf.GetId(), replaceExistingTags=True)
            if Chem.MolToSmiles(cp, isomericSmiles=True) != want:
                found_input = True
                ctx.fail('conformer %d has another stereochemistry in 3D than the input' % cf.GetId(), pl, finding_key='stereo-3d-changed')
                break
        # fixed seed reproduces exactly: a second, fresh generator
        mol2, v2 = G.ConformerGenerator(get_values=True, sparse_rmsd=False, **kw).generate_conformers(mol_from_smiles(smi, name))
        o2 = gen_obs(mol2, v2)
        if o1 != o2:
            found_input = True
            ctx.fail('two seeded runs differ', dict(pl, first_run=o1, second_run=o2), finding_key='seed-not-reproducible')
        # energies stored on the molecule = returned energies at 4 decimals
        stored = get_conformer_energies_from_mol(mol1)
        if stored is None or [('%.4f' % e) for e in o1['energies']] != o1['prop'].split('|') or len(stored) != mol1.GetNumConformers():
            found_input = True
            ctx.fail('energies stored on the molecule are not the returned ones at 4 decimals', dict(pl, run=o1), finding_key='stored-energies')
        # the matrix returned = RMSDs re-measured on the returned conformers
        T1 = cg.measure_rmsds(mol1)
        n1 = mol1.GetNumConformers()
        if any(abs(T1[min(a, b)][max(a, b)] - o1['rmsds'][a][b]) > 1e-4 for a in range(n1) for b in range(n1)):
            found_input = True
            ctx.fail('reported RMSD matrix is not the RMSD of the returned conformers', dict(pl, remeasured=T1, run=o1), finding_key='rmsd-matrix')
        # end to end against the model on an independently rebuilt pool (same RDKit calls and seed, no e3fp code)
        pool = pool_like_impl(smi, name, nc * pm, seed, ff)
        E = cg.measure_energies(pool, ff)
        T = cg.measure_rmsds(pool)
        if stable_inputs(E, T, g.rmsd_cutoff, g.max_energy_diff):
            opts = cg.fopts_lit(min(first, nc) if first != -1 else nc, g.max_energy_diff, g.rmsd_cutoff)
            model = 'filter_conformers (table_rmsd %s) %s %s' % (cg.qmat(T), cg.qlist(E), opts)
            add_case('pipe/%d' % i, 'out_close2 %s %s (%s) %s' % (TOL_E, TOL_R, model, cg.out_lit(o1['indices'], o1['energies'], o1['rmsds'])),
                     dict(pl, energies_remeasured=E, rmsd_remeasured=T, impl={x: o1[x] for x in ('indices', 'energies', 'rmsds', 'max_conformers')}), model)
        else:
            dist['real_unstable_skipped'] += 1
        cap = min(first, nc) if first != -1 else nc
        dist['first_above_num_conf'] += (first > nc)
        if len(o1['indices']) > cap or o1['max_conformers'] != nc:
            found_input = True
            ctx.fail('more conformers than requested (first/maximum)', dict(pl, run=o1), finding_key='count')
        dist['real_pipeline'] += 1
        ctx.count(('pipe', name, json.dumps(kw, sort_keys=True)), len(o1['indices']) > 1)

    # generator reuse across a sequence of molecules = fresh generator per molecule
    for i in range(ctx.n(6, 40)):
        seq = [cg.MOLS[rng.randrange(len(cg.MOLS))] for _ in range(rng.choice([2, 3, 4]))]
        if rng.random() < 0.5:
            seq.insert(rng.randrange(len(seq) + 1), ('decane', 'CCCCCCCCCCCC'))     # 9 rotatable bonds: resolves 200 when num_conf = -1
        nc = rng.choice([-1, 3, 4])
        kw = dict(num_conf=nc, first=rng.choice([-1, 2]) if nc != -1 else 2, pool_multiplier=1, rmsd_cutoff=rng.choice([0.5, 1.0]),
                  max_energy_diff=rng.choice([None, 2.0]), forcefield='uff', seed=rng.randrange(1, 10 ** 6))
        if nc == -1:
            seq = seq[:2]      # 50/200 conformers per molecule: keep it short
        shared = G.ConformerGenerator(get_values=True, sparse_rmsd=False, **kw)
        for name, smi in seq:
            a = gen_obs(*shared.generate_conformers(mol_from_smiles(smi, name)))
            b = gen_obs(*G.ConformerGenerator(get_values=True, sparse_rmsd=False, **kw).generate_conformers(mol_from_smiles(smi, name)))
            if a != b:
                found_input = True
                ctx.fail('a reused generator returns something else than a fresh one for %s' % name,
                         dict(kw, stream='reuse', sequence=seq, reused=a, fresh=b), finding_key='reuse:result')
        dist['reuse_sequences'] += 1
        ctx.count(('reuse', json.dumps(kw, sort_keys=True), str(seq)), True)

    # the wrapper e3fp.conformer.generate.generate_conformers
    for i in range(ctx.n(6, 40)):
        name, smi = cg.MOLS[rng.randrange(len(cg.MOLS))]
        kw = dict(num_conf=rng.choice([3, 4, 5]), first=rng.choice([-1, 2]), pool_multiplier=rng.choice([1, 2]), rmsd_cutoff=rng.choice([0.4, 0.8]),
                  max_energy_diff=rng.choice([None, 3.0]), forcefield=rng.choice(['uff', 'mmff94']), seed=rng.randrange(1, 10 ** 6))
        pl = dict(kw, stream='wrapper', molecule=name, smiles=smi)
        src = mol_from_smiles(smi, name)
        sig0 = cg.mol_signature(src)
        r = GEN.generate_conformers(src, standardise=False, save=False, **kw)
        if r is False:
            found_input = True
            ctx.fail('wrapper generate_conformers returned False', pl, finding_key='wrapper:false')
            continue
        mol, rname, nrot, maxc, idx, en, sparse = r
        full_mol, v = G.ConformerGenerator(get_values=True, sparse_rmsd=False, **kw).generate_conformers(mol_from_smiles(smi, name))
        full = gen_obs(full_mol, v)
        stored = get_conformer_energies_from_mol(mol)
        problems = []
        if rname != name:
            problems.append('name')
        if nrot != AllChem.CalcNumRotatableBonds(src):
            problems.append('nrot')
        if maxc != kw['num_conf']:
            problems.append('max_conformers')
        if [int(x) for x in idx] != full['indices'] or [float(x) for x in en] != full['energies']:
            problems.append('indices/energies differ from the generator run with the same seed')
        if mol.GetNumConformers() != len(idx) or len(en) != len(idx):
            problems.append('lengths')
        if stored is None or ['%.4f' % e for e in en] != ['%.4f' % e for e in stored]:
            problems.append('stored energies')
        if cg.mol_signature(src) != sig0:
            problems.append('input modified')
        if problems:
            found_input = True
            ctx.fail('wrapper result inconsistent: ' + '; '.join(problems), dict(pl, impl={'indices': [int(x) for x in idx], 'energies': [float(x) for x in en]}),
                     finding_key='wrapper:' + problems[0])
        add_case('wrap/%d' % i, 'q_list_eqb (triu %s 1%%nat) %s' % (cg.qmat(full['rmsds']), cg.qlist([float(x) for x in sparse])),
                 dict(pl, full=full['rmsds'], sparse=[float(x) for x in sparse]), 'triu %s 1%%nat' % cg.qmat(full['rmsds']))
        dist['wrapper'] += 1
        ctx.count(('wrap', name, json.dumps(kw, sort_keys=True)), len(idx) > 2)

    def fkey(k, pl):
        return 'model-vs-code:%s' % pl.get('stream')
    nbad = core.compare_cases(ctx, cases, IMPORTS, 'C13 conformer selection', payloads, model_expr=mexpr, finding_key_of=fkey)
    found_input = found_input or nbad > 0
    dist['accepted_count_hist'] = {str(k): v for k, v in sorted(dist['accepted_count_hist'].items())}
    ctx.coverage['rule'] = ('(b) synthetic: real k-conformer molecule (k in 1..24), energies and RMSD table from a dyadic grid injected through the two oracle calls, '
                            'options from grids hitting ties with the cut-off and the window edge; non-trivial = 1 < #accepted < k; distinct by full input. '
                            '(d) constructor + option state over histories of molecules with 0..15 rotatable bonds. (a) filter_conformers on real pools with '
                            'independently re-measured energies/RMSDs. (c) full pipeline, reuse and wrapper runs; non-trivial = more than one conformer returned')
    ctx.coverage['input_distribution'] = dist
    ctx.coverage['trusted_base'] = ['RDKit (ETKDG embedding, UFF/MMFF94 minimisation and energies, GetBestRMS, AddHs/RemoveHs, conformer copying): oracles of the '
                                    'model; their determinism under a seed and the identity of the molecule are exercised by stream (c) only (testing, not proof)']
    ctx.assumptions += ['np.argsort returns a permutation that sorts the energies (any such permutation is covered by the theorems; the unstable default sort is '
                        'observed for k >= 17 with ties and fed to the model as observed)',
                        'GetBestRMS is symmetric and zero on the diagonal (only needed by accepted_far / rmsd_reported_sym; measured asymmetry is below 1e-4)',
                        'float comparisons equal exact rational comparisons: synthetic values are dyadic (exact); real cases within round-off of a threshold are skipped and counted',
                        'PARTIAL: seed reproducibility, input-unmodified, graph/stereo preservation and the wrapper are tests on %d RDKit runs, not theorems'
                        % (dist['real_filter'] + dist['real_pipeline'] + dist['reuse_sequences'] + dist['wrapper'])]
    if not ok:
        core.report_broken_proof(ctx, res, found_input)


def replay(ctx, path):
    """Re-run a recorded case on the implementation (synthetic stream) and print model and implementation outputs."""
    d = json.load(open(path))
    c = d.get('case', {})
    print(json.dumps({k: v for k, v in d.items() if k != 'case'}, indent=1))
    if c.get('stream') == 'synthetic':
        import e3fp.conformer.generator as G
        g, acc, en, rm, calls, copied_ok = run_synth(G, c)
        print('input: k=%d E=%s first_conformers=%s cutoff_arg=%s ediff_arg=%s' % (c['k'], c['E'], c['first_conformers'], c['cutoff_arg'], c['ediff_arg']))
        print('T =', c['T'])
        print('implementation now: accepted=%s energies=%s rmsds=%s' % (acc, en, rm))
        print('direct contract violations:', direct_contract(c, g, acc, en, rm))
        expr, model = synth_expr(c, g, acc, en, rm)
        print('model:', core.coq_eval_raw(model, IMPORTS, ctx.workdir)[-1500:])
    else:
        print(json.dumps(c, indent=1)[:6000])
    return 0
