"""C13 coverage extension: input classes, call forms and call sequences the first generators of c13.py did not draw.

Leaf helpers and the implementation-only streams live here; the streams that are compared with the Coq model (M5) stay in
c13.py and draw their molecules / variants from the tables below.  Nothing here writes under /repo."""
import math
import os
import random
import shutil
import tempfile

import numpy as np

# ----------------------------------------------------------------------------- molecules the first pool lacked
# charges, zwitterions, isotopes (heavy atom and hydrogen labels), disconnected fragments, symmetric / conjugated terminal
# groups (GetBestRMS symmetrises them), rings with two centres, sulfoxide stereo, tiny molecules (one conformer pools)
EXTRA_MOLS = [
    ('zwitterion', '[NH3+]CC([O-])=O'), ('choline', 'C[N+](C)(C)CCO'), ('c13_propanol', '[13CH3]CCO'), ('d2_propanol', '[2H]C([2H])(O)CC'),
    ('d_stereo', '[2H][C@](F)(Cl)CO'), ('acetate_na', 'CC(=O)[O-].[Na+]'), ('hydrate', 'CCO.O'), ('nitro', 'CCC[N+](=O)[O-]'),
    ('tbu', 'CC(C)(C)CO'), ('acid', 'OC(=O)CCC'), ('sulfoxide', 'C[S@](=O)CC'), ('dihalide', 'ClCCBr'), ('ring2', 'C[C@H]1CC[C@@H](O)C1'),
    ('methane', 'C'), ('ethane', 'CC'), ('o18_ether', 'CC[18O]CC'), ('n15_amine', 'CC[15NH]CC'), ('two_frag', 'CCCO.CCN'),
    ('carboxylate', 'CCC([O-])=O'), ('isopropyl', 'CC(C)CCO'),
    # delocalised trigonal nitrogen: MMFF94 and MMFF94s differ here
    ('amide', 'CC(=O)NCC'), ('anilide', 'CNc1ccccc1'), ('aniline', 'Nc1ccccc1C'),
    # sulfoxide centres: the embedding gets them right only because chirality is enforced (carbon centres come out right anyway)
    ('cys_sulfoxide', 'C[S@@](=O)C[C@H](N)C(O)=O'), ('ph_sulfoxide', 'C[S@](=O)c1ccccc1'),
]
CLASS_OF = {'zwitterion': 'charged', 'choline': 'charged', 'nitro': 'charged', 'carboxylate': 'charged', 'acetate_na': 'fragments',
            'hydrate': 'fragments', 'two_frag': 'fragments', 'c13_propanol': 'isotope', 'd2_propanol': 'isotope', 'd_stereo': 'isotope',
            'o18_ether': 'isotope', 'n15_amine': 'isotope', 'tbu': 'symmetric', 'acid': 'symmetric', 'isopropyl': 'symmetric',
            'dihalide': 'mirror-conformers', 'methane': 'tiny', 'ethane': 'tiny', 'sulfoxide': 'stereo', 'ring2': 'stereo', 'amide': 'mmff94s-differs',
            'anilide': 'mmff94s-differs', 'aniline': 'mmff94s-differs', 'cys_sulfoxide': 'stereo', 'ph_sulfoxide': 'stereo'}
# molecules the standardiser leaves alone (neutral, single fragment): standardise=True must not change the result
STANDARD_SAFE = ('butanol', 'pentane', 'lactate', 'ether', 'ketone', 'tbu', 'isopropyl', 'ring2')

# pools for the synthetic stream (the oracles are injected; what matters is the molecule the conformers are copied into)
SYNTH_POOLS = ['CCCCO', 'CCCCO', 'CCCCO', '[H]/N=C/CC', '[NH3+]CC([O-])=O', 'CC(=O)[O-].[Na+]', '[2H]C([2H])(O)CC', 'OCCc1ccccc1']
ENERGY_SHIFTS = [0, 0, 0, 0, -3.5, -0.125, -1024, 2 ** 20]          # dyadic: the shifted energies stay exact

INPUT_VARIANTS = ['propertymol', 'propertymol', 'plain', 'addhs', 'withconf', 'props']
SEEDS_SPECIAL = [0, 2 ** 31 - 1]


def all_mols():
    import conf_gen as cg
    return list(cg.MOLS) + EXTRA_MOLS


def build_input(smiles, name, variant):
    """The same molecule in different legal representations: what generate_conformers returns must not depend on it."""
    from rdkit import Chem
    from rdkit.Chem import AllChem
    from e3fp.conformer.util import mol_from_smiles
    if variant == 'plain':                       # a bare rdkit Mol: no _Name, not a PropertyMol
        return Chem.MolFromSmiles(smiles)
    if variant == 'addhs':                       # hydrogens already explicit
        return Chem.AddHs(mol_from_smiles(smiles, name))
    if variant == 'withconf':                    # carries conformers of its own (the documented "Mol with a single conformer")
        m = Chem.AddHs(Chem.MolFromSmiles(smiles))
        AllChem.EmbedMultipleConfs(m, numConfs=2, randomSeed=99)
        m = Chem.RemoveHs(m)
        m.SetProp('_Name', name)
        return m
    m = mol_from_smiles(smiles, name)
    if variant == 'props':                       # foreign properties and a stale energy list from an earlier run
        m.SetProp('foo', 'bar|baz')
        m.SetProp('_ConfEnergies', '1.0000|2.0000|3.0000|4.0000|5.0000|6.0000|7.0000')
    return m


def scatter_ids(mol, how, seed):
    """Renumber / thin out the conformers of a pool in place: ids shifted, scattered, or with gaps (conformers removed)."""
    confs = list(mol.GetConformers())
    k = len(confs)
    if how == 'gapped' and k >= 3:
        for c in confs[1::3]:
            mol.RemoveConformer(c.GetId())
        return
    ids = [i + 11 for i in range(k)] if how == 'shifted' else random.Random(seed).sample(range(3 * k + 5), k)
    for c, i in zip(confs, ids):
        c.SetId(10 ** 6 + i)
    for c in mol.GetConformers():
        c.SetId(c.GetId() - 10 ** 6)


# RDKit's names of the MMFF variants.  They are case sensitive, and any other string silently means MMFF94: the oracles of this check
# name the variant the option asks for, whatever spelling e3fp hands to RDKit.
MMFF_VARIANT = {'mmff94': 'MMFF94', 'mmff94s': 'MMFF94s'}
KEY_MMFF94S = 'forcefield:mmff94s-computed-as-mmff94'


def force_field(mol, forcefield, conf_id):
    from rdkit.Chem import AllChem
    if forcefield == 'uff':
        return AllChem.UFFGetMoleculeForceField(mol, confId=conf_id)
    AllChem.MMFFSanitizeMolecule(mol)
    p = AllChem.MMFFGetMoleculeProperties(mol, mmffVariant=MMFF_VARIANT[forcefield])
    return AllChem.MMFFGetMoleculeForceField(mol, p, confId=conf_id)


def minimise_by_id(mol, forcefield):
    """RDKit only: minimise every conformer of `mol` in place, addressed by its id."""
    for cf in mol.GetConformers():
        force_field(mol, forcefield, cf.GetId()).Minimize()


def measure_energies(mol, forcefield):
    """RDKit only: force-field energy of every conformer of a copy of `mol`, in pool order."""
    from rdkit import Chem
    m = Chem.Mol(mol)
    return [force_field(m, forcefield, cf.GetId()).CalcEnergy() for cf in m.GetConformers()]


_MMFF94S = {}


def mmff94s_defect(G, smiles):
    """None, or the evidence that a generator built with forcefield='mmff94s' computes other energies for this molecule than RDKit's
    MMFF94s (the molecule must have a delocalised trigonal nitrogen for the two variants to differ)."""
    from rdkit import Chem
    from rdkit.Chem import AllChem
    if smiles not in _MMFF94S:
        m = Chem.AddHs(Chem.MolFromSmiles(smiles))
        AllChem.EmbedMultipleConfs(m, numConfs=2, randomSeed=11)
        got = [float(x) for x in G.ConformerGenerator(num_conf=2, forcefield='mmff94s').get_conformer_energies(Chem.Mol(m))]
        s = measure_energies(m, 'mmff94s')
        plain = measure_energies(m, 'mmff94')
        bad = len(got) != len(s) or any(abs(a - b) > 1e-6 for a, b in zip(got, s))
        _MMFF94S[smiles] = {'smiles': smiles, 'energies_generator_mmff94s': got, 'energies_rdkit_MMFF94s': s, 'energies_rdkit_MMFF94': plain} if bad else None
    return _MMFF94S[smiles]


def kabsch_rmsd(P, Q):
    """Best-fit RMSD of two coordinate sets with the identity atom mapping (proper rotations only)."""
    P = np.asarray(P, dtype=float)
    Q = np.asarray(Q, dtype=float)
    if P.shape != Q.shape:
        return float('inf')
    P = P - P.mean(axis=0)
    Q = Q - Q.mean(axis=0)
    if len(P) < 2:
        return 0.0
    U, S, Vt = np.linalg.svd(P.T.dot(Q))
    d = np.sign(np.linalg.det(U.dot(Vt)))
    S[-1] *= d
    e = max(0.0, (P ** 2).sum() + (Q ** 2).sum() - 2.0 * S.sum())
    return math.sqrt(e / len(P))


def conv_number(x, ctype):
    """A constructor argument in another numeric type with (nearly) the same value; returns (python object, float value)."""
    if x is None:
        return None, None
    if ctype == 'int':
        v = int(math.floor(x))
        return v, float(v)
    if ctype == 'np.float64':
        return np.float64(x), float(x)
    return x, float(x)


# ----------------------------------------------------------------------------- implementation-only stream: energy property
def draw_eprop(rng):
    n = rng.choice([1, 1, 2, 3, 5, 8, 20, 60])
    pool = [0.0, -0.0, 4e-5, -4e-5, 5e-5, 0.00005000001, 1.0, -1.0, 12.34565, -12.34565, 1e6 + 0.12345, -987654.321, 3.14159, 2.5e-7,
            99999.99995, -0.99995]
    E = [rng.choice(pool) if rng.random() < 0.5 else round(rng.uniform(-200, 200), rng.choice([1, 3, 4, 5, 9])) for _ in range(n)]
    return {'energies': E, 'container': rng.choice(['list', 'tuple', 'ndarray', 'generator']), 'preset': rng.random() < 0.3}


def check_eprop(md, p):
    """add_conformer_energies_to_mol / get_conformer_energies_from_mol: the list stored is the list given, in order, at 4 decimals."""
    from rdkit import Chem
    from e3fp.conformer import util as U
    E = [float(x) for x in p['energies']]
    mol = Chem.MolFromSmiles('CCO')
    if U.get_conformer_energies_from_mol(mol) is not None:
        md.fail('get_conformer_energies_from_mol of a molecule without the property is not None', 'eprop:absent')
    if p['preset']:
        mol.SetProp('_ConfEnergies', '7.0000|8.0000')
    arg = {'list': list, 'tuple': tuple, 'ndarray': lambda e: np.array(e, dtype=float), 'generator': lambda e: (x for x in e)}[p['container']](E)
    ret = U.add_conformer_energies_to_mol(mol, arg)
    got = U.get_conformer_energies_from_mol(mol)
    prop = mol.GetProp('_ConfEnergies') if mol.HasProp('_ConfEnergies') else None
    md.payload['impl'] = {'prop': prop, 'read_back': got}
    want = ['%.4f' % e for e in E]
    bad = []
    if ret is not mol:
        bad.append('returns-another-object')
    if prop != '|'.join(want):
        bad.append('string')
    if got is None or len(got) != len(E):
        bad.append('length')
    elif any(g != float(w) for g, w in zip(got, want)):
        bad.append('values')
    elif any(abs(g - e) > 0.5e-4 * (1 + 1e-9) + abs(e) * 1e-15 for g, e in zip(got, E)):
        bad.append('not-within-half-a-unit-of-the-4th-decimal')
    for b in bad:
        md.fail('conformer energies stored on the molecule are not the ones given (%s)' % b, 'eprop:' + b)
    md.stats['checks'] = 5
    md.nontrivial = len(E) > 1


# ----------------------------------------------------------------------------- implementation-only stream: constructor argument types
CTOR_FIELDS = ('num_conf', 'first', 'pool_multiplier')
CTOR_TYPES = ('np.int64', 'np.int32', 'float', 'str', 'none', 'bool')


def draw_ctor_type(rng):
    return {'field': rng.choice(CTOR_FIELDS), 'type': rng.choice(CTOR_TYPES), 'value': rng.choice([1, 2, 3, 7])}


def check_ctor_type(md, p, G):
    """An integer option given in another type is either refused (ValueError/TypeError) or means the same as the int."""
    v = p['value']
    obj = {'np.int64': np.int64(v), 'np.int32': np.int32(v), 'float': float(v), 'str': str(v), 'none': None, 'bool': True}[p['type']]
    ref_v = 1 if p['type'] == 'bool' else v
    base = {'num_conf': 4, 'first': 2, 'pool_multiplier': 2}
    ref = G.ConformerGenerator(**dict(base, **{p['field']: ref_v}))
    try:
        g = G.ConformerGenerator(**dict(base, **{p['field']: obj}))
    except (ValueError, TypeError) as e:
        md.payload['impl'] = type(e).__name__
        md.stats['checks'] = 1
        return
    except Exception as e:
        md.payload['impl'] = type(e).__name__
        md.fail('constructor raises %s for %s=%r' % (type(e).__name__, p['field'], obj), 'ctor-type:unexpected-exception')
        return
    a = (g.num_conf, g.first, g.max_conformers, g.first_conformers, g.pool_multiplier)
    b = (ref.num_conf, ref.first, ref.max_conformers, ref.first_conformers, ref.pool_multiplier)
    md.payload['impl'] = [repr(x) for x in a]
    if p['type'] != 'none' and tuple(int(x) for x in a) != tuple(int(x) for x in b):
        md.fail('constructor accepts %s=%r but stores %r instead of %r' % (p['field'], obj, a, b), 'ctor-type:value')
    if p['type'] == 'none':
        md.fail('constructor accepts %s=None' % p['field'], 'ctor-type:none-accepted')
    md.stats['checks'] = 1
    md.nontrivial = True


# ----------------------------------------------------------------------------- scratch directories for the wrapper's save option
SCRATCH = [None]


def scratch_dir():
    base = SCRATCH[0]
    if base:
        os.makedirs(base, exist_ok=True)
    return tempfile.mkdtemp(prefix='c13w_', dir=base)


def drop_dir(d):
    shutil.rmtree(d, ignore_errors=True)


def read_sdf_coords(path):
    """RDKit only: heavy-atom coordinates of every record of a (compressed) SD file, in file order."""
    import bz2
    import gzip
    from rdkit import Chem
    op = bz2.open if path.endswith('.bz2') else gzip.open if path.endswith('.gz') else open
    out = []
    with op(path, 'rb') as f:
        for m in Chem.ForwardSDMolSupplier(f):
            if m is None:
                out.append(None)
            else:
                out.append(np.array(m.GetConformer(0).GetPositions()))
    return out
