"""C14 - high-level entry points equal direct fingerprinting of the first N conformers (model M6, Properties/C14.v).

Correspondence: the real entry points (fingerprint.generate.fprints_dict_from_mol / fprints_dict_from_sdf,
pipeline.fprints_from_mol / fprints_from_sdf / fprints_from_smiles, MolItemName) against Model/Pipeline.v evaluated in
Coq, where the per-conformer function of the model is a table recorded from *direct* use of Fingerprinter (a fresh
object per conformer: run + get_fingerprint_at_level).

Streams A-E are the original ones (one `do_entry(ci, {})` per random entry-point case); stream F (props/c14_cov.py) feeds
`do_entry` with overrides (more molecules, names, call forms, sequences on shared objects) and adds direct streams."""
import json
import os

import core
import fpgen
import pipe_gen as PG
from core import zlit, optlit, strlit, listlit, blit
from props import c14_cov as COV

IMPORTS = ['From Coq Require Import QArith.', 'From E3FP Require Import Base.Prelude Model.Fprint Model.Pipeline Gen.PipelineFacts.']
PLAIN_NAMES = ['mol', 'ZINC00001084', 'a-b', 'x_y', 'CHEMBL25', 'a-1_', '_1', '-7', '1', 'lig A', 'm.1', 'n-1x', 'q_', 'aéb']
SUFFIX_NAMES = ['mol_1', 'mol-2_3', 'x-3', 'a_1_2', 'mol-007', 'c_0', 'CHEMBL25-1']
SMILES = ['CCO', 'CC(C)CO', 'c1ccccc1O', 'CCN', 'OCC(O)CO', 'CC(=O)OC']


def is_plain(name):
    """Independent statement of the property's name domain: non-empty, no newline, no `-digits` / `_digits` suffix
    after a non-empty prefix (ASCII digits)."""
    import re
    return bool(name) and '\n' not in name and re.search(r'.[-_][0-9]+$', name, re.S) is None


def rand_fp_opts(rng):
    o = {}
    if rng.random() < 0.5:
        o['counts'] = rng.random() < 0.6
    if rng.random() < 0.4:
        o['stereo'] = rng.random() < 0.5
    if rng.random() < 0.4:
        o['radius_multiplier'] = rng.choice([1.5, 1.718, 2.0, 1.0])
    if rng.random() < 0.25:
        o['include_disconnected'] = rng.random() < 0.5
    if rng.random() < 0.25:
        o['rdkit_invariants'] = rng.random() < 0.5
    if rng.random() < 0.2:
        o['exclude_floating'] = rng.random() < 0.5
    if rng.random() < 0.2:
        o['remove_duplicate_substructs'] = rng.random() < 0.5
    return o


def norm_bits(b):
    from e3fp.fingerprint.fprinter import BITS
    return BITS if b in (-1, None) else b


def run(ctx, only=None):
    ok, res = core.proof_step(ctx)
    rng = ctx.rng
    from rdkit import RDLogger
    RDLogger.DisableLog('rdApp.*')          # RDKit's C++ parser messages for the unreadable inputs
    cases, payloads, mexpr = [], {}, {}
    state = {'found': False}
    dist = {'conformer_ids_contiguous': 0, 'conformer_ids_gapped': 0, 'conformer_ids_shifted': 0, 'conformer_ids_reversed': 0, 'conformer_ids_all_zero': 0, 'naming_strings': 0, 'entry': {}, 'first_class': {}, 'level': {}, 'all_iters': 0, 'save': 0, 'unnamed': 0,
            'suffix_names_outside_property': 0, 'first_outside_property': 0, 'smiles_histories': 0, 'smiles_calls': 0,
            'out_ext': {}, 'errors': 0, 'n_confs': {}, 'options': {}, 'bits': {}, 'extension_streams': {}, 'special_option_cases': {}, 'call_forms': {}}

    def pfail(key, what, payload, finding_key=None):
        """A property-level failure observed on the implementation for case `key`."""
        if only is not None and key != only:
            return
        state['found'] = True
        ctx.fail(what, dict(payload, case_key=key), finding_key=finding_key, kind='property')

    def add_case(key, expr, payload, model_out=None):
        payload = dict(payload, case_key=key)
        cases.append((key, expr))
        payloads[key] = payload
        if model_out:
            mexpr[key] = model_out

    from e3fp.conformer.util import MolItemName, mol_from_sdf, mol_to_sdf
    from e3fp.fingerprint import generate as G
    from e3fp import pipeline
    import e3fp.fingerprint.fprint as FP

    # ---------------------------------------------------------------- A. naming: MolItemName against the regex model
    alphabet = ['a', 'B', '1', '0', '7', '-', '_', '-', '_', ' ', '.', '\n', 'é']
    strings = list(PLAIN_NAMES) + list(SUFFIX_NAMES) + ['', '\n', 'a\n', 'a_1\n', 'a\n_1', '-', '_', '-1', '_1', '1-2_3', 'a--1', 'a__1', 'a-_1', 'a_-1',
                                                       'a-1-2_3_4', 'a-01_002', 'x_12345678901234567890']
    for _ in range(ctx.n(300, 3000)):
        strings.append(''.join(rng.choice(alphabet) for _ in range(rng.choice([1, 2, 3, 4, 5, 6, 8]))))
    for s in strings:
        j = rng.choice([0, 1, 2, 9, 10, 11, 99, 100, 12345])
        def go():
            mi = MolItemName.from_str(s)
            return (mi.mol_name, mi.proto_state_num, mi.conf_num, mi.to_conf_name(j))
        r = fpgen.attempt(go)
        if r[0] == 'ok':
            mn, ps, cn, cname = r[1]
            exp = '(Ok (mkitem %s %s %s, %s))' % (strlit(mn), optlit(ps), optlit(cn), strlit(cname))
            # the property's clause, stated on the implementation: plain names give <name>_<j>
            if is_plain(s) and cname != '%s_%d' % (s, j):
                pfail('name/%d' % len(cases), 'conformer name of a plain molecule name is not <name>_<index>', {'name': s, 'j': j, 'impl': cname})
        else:
            # no match: re.match returns None and .groups() raises AttributeError, which the model writes Raises EOther
            exp = '(Raises %s)' % ('EOther' if r[1] == 'EUnexpected_AttributeError' else r[1])
        m = 'rbind (from_str %s) (fun mi => Ok (mi, to_conf_name mi (Some %s)))' % (strlit(s), zlit(j))
        key = 'name/%d' % len(cases)
        add_case(key, 'result_eqb (pair_eqb mol_item_eqb String.eqb) (%s) %s' % (m, exp), {'string': s, 'j': j, 'impl': r[1]}, m)
        ctx.count(('name', s), nontrivial=('-' in s or '_' in s))
        dist['naming_strings'] += 1

    # ---------------------------------------------------------------- B/C. entry points on the shipped molecules
    mols = PG.shipped_mols()
    multi = [(t, m) for t, m in mols if m.GetNumConformers() >= 6]
    single = [(t, m) for t, m in mols if m.GetNumConformers() < 6]
    n_entry = ctx.n(80, 800)

    def do_entry(ci, S):
        """One entry-point case.  S: overrides of the random choices (empty for the original stream; see c14_cov.entry_plans)."""
        tag, base = rng.choice(multi) if rng.random() < 0.85 else rng.choice(single)
        n = min(base.GetNumConformers(), rng.choice([1, 2, 3, 3, 4, 5, 6]))
        if 'base' in S:
            tag, base = S['base']
        if 'sdf_file' in S:
            tag, base = os.path.basename(S['sdf_file']).split('.')[0], None
        if 'mol_obj' in S:
            tag, base = S['mol_obj'][0], None
            n = S['mol_obj'][1].GetNumConformers()
        if base is not None:
            n = min(base.GetNumConformers(), S.get('n', n))
        r_name = rng.random()
        if r_name < 0.45:
            name = PG.mol_name(base) if base is not None else 'mol'
        elif r_name < 0.75:
            name = rng.choice(PLAIN_NAMES)
        elif r_name < 0.84:
            name = None
        elif r_name < 0.88:
            name = ''
        else:
            name = rng.choice(SUFFIX_NAMES)
        if S and 'name' not in S and name is not None and not is_plain(name):
            name = PG.mol_name(base) if base is not None else 'mol'          # extension cases stay inside the property's name domain
        if 'name' in S:
            name = S['name']
        first_choices = [-1, 1, 2, n - 1, n, n + 3]
        first = rng.choice(first_choices) if rng.random() < 0.93 else rng.choice([0, -2, -5])
        first_param = first if rng.random() < 0.9 else None          # None: option absent (default 3)
        if S and first in (0, -2, -5):
            first = 2
            first_param = None if first_param is None else 2
        if 'first' in S:
            first_param = S['first']
            first = 3 if first_param is None else first_param
        level_p = rng.choice([('val', -1), ('none',), ('absent',), ('val', 0), ('val', 1), ('val', 2), ('val', 3), ('val', 5)])
        bits_p = rng.choice([('absent',), ('none',), ('val', -1), ('val', 1024), ('val', 4096), ('val', 32), ('val', 1024)])
        all_iters = rng.choice([None, False, True, True])
        save = rng.random() < 0.4
        entry = rng.choice(['dict_mol', 'dict_mol', 'from_mol', 'from_mol', 'from_sdf', 'dict_sdf'])
        level_p, bits_p, all_iters = S.get('level_p', level_p), S.get('bits_p', bits_p), S.get('all_iters', all_iters)
        save, entry = S.get('save', save), S.get('entry', entry)
        if S.get('call_form') and entry.startswith('dict'):
            entry = 'from_mol'
        if ('mol_class' in S or 'id_mode' in S and S['id_mode'] != 'contiguous' or 'mol_obj' in S) and entry.endswith('sdf'):
            entry = 'from_mol'
        sdf_ok = name is not None and all(c not in name for c in '\n')
        if entry in ('from_sdf', 'dict_sdf') and not sdf_ok:
            entry = 'from_mol'
        # a few directed combinations that random choice reaches only rarely
        directed = {0: ('from_mol', ('absent',), True, False), 1: ('from_mol', ('none',), True, False), 2: ('from_mol', ('val', 3), True, False),
                    3: ('from_mol', ('absent',), None, False), 4: ('dict_mol', ('val', 2), True, True), 5: ('from_mol', ('val', -1), True, True)}
        if ci in directed and not S:
            entry, level_p, all_iters, save = directed[ci]
            if name is None or not is_plain(name):
                name = PG.mol_name(base)
            if first in (0, -2, -5):
                first = 2
                first_param = 2
        fp_opts = rand_fp_opts(rng)
        fp_opts = dict(S.get('fp_opts', fp_opts))
        if S.get('call_form') == 'omit':
            fp_opts = {}
        cdir = S.get('cdir') or os.path.join(ctx.workdir, 'e%d' % ci)
        os.makedirs(cdir, exist_ok=True)
        out_ext = rng.choice([None, '.fp.pkl', '.fp.gz', '.fp.bz2'])
        overwrite = rng.choice([None, False, True])
        out_ext, overwrite = S.get('out_ext', out_ext), S.get('overwrite', overwrite)
        base_name = S.get('out_base_name', 'fp')
        if ci == 4:
            overwrite = None            # directed: a half-written all_iters molecule re-run without overwrite
        P = {'bits': bits_p, 'level': level_p, 'first': first_param, 'out_dir_base': None, 'out_ext': out_ext if save else None,
             'all_iters': all_iters, 'overwrite': overwrite if save else None}
        if save and not (rng.random() < 0.04 and all_iters and level_p[0] == 'val' and level_p[1] >= 0):
            P['out_dir_base'] = os.path.join(cdir, base_name)      # a few all_iters cases keep None: TypeError before any write
        if save and P['out_dir_base'] is None and (S or not (all_iters and level_p[0] == 'val' and level_p[1] >= 0)):
            P['out_dir_base'] = os.path.join(cdir, base_name)
        if save and name is not None and '/' in name:
            save = False
        # conformer ids as RDKit hands them out are not positions: gaps (after RemoveConformer), any order, repeats (AddConformer
        # without assignId); the property speaks of the conformer INDEX (position in conformer order)
        id_mode = 'contiguous'
        if entry in ('dict_mol', 'from_mol') and n >= 2 and rng.random() < 0.35:
            id_mode = rng.choice(['gapped', 'shifted', 'reversed', 'all_zero'])
        id_mode = S.get('id_mode', id_mode)
        if n < 2 or base is None:
            id_mode = 'contiguous'
        ids = {'contiguous': None, 'gapped': sorted(rng.sample(range(0, 3 * n + 2), n)), 'shifted': list(range(1, n + 1)),
               'reversed': list(range(n - 1, -1, -1)), 'all_zero': [0] * n}[id_mode]
        dist['conformer_ids_' + id_mode] += 1
        sdf_path = None
        if 'mol_obj' in S:
            mol = S['mol_obj'][1]                       # a molecule object shared by consecutive calls (c14_cov.sequence_plans)
            name = PG.mol_name(mol)
        elif 'sdf_file' in S:
            sdf_path = S['sdf_file']                    # a shipped file as it is (bz2, energies, up to 300 records)
            mol = mol_from_sdf(sdf_path)
            name = PG.mol_name(mol)
        else:
            mol = PG.make_mol(base, n, name, ids=ids)
        if S.get('mol_class') == 'PropertyMol':
            from rdkit.Chem.PropertyMol import PropertyMol
            mol = PropertyMol(mol)
        elif S.get('mol_class') == 'RWMol':
            from rdkit import Chem as _Chem
            mol = _Chem.RWMol(mol)
        if entry in ('from_sdf', 'dict_sdf') and sdf_path is None:
            sdf_path = os.path.join(cdir, 'in.sdf' + rng.choice(['', '.gz', '.bz2']))
            mol_to_sdf(mol, sdf_path)
            mol = mol_from_sdf(sdf_path)              # the harness's own read: from_sdf = from_mol o read
            name = PG.mol_name(mol)
        # effective values for *direct* fingerprinting (the harness's own reading of the documented meaning)
        lv_raw = {'absent': 5, 'none': None}.get(level_p[0], level_p[1] if level_p[0] == 'val' else None)
        lv = -1 if lv_raw is None else lv_raw
        bits_raw = {'absent': 2 ** 32, 'none': None}.get(bits_p[0], bits_p[1] if bits_p[0] == 'val' else None)
        bits = norm_bits(bits_raw)
        ai = bool(all_iters)
        levels = [lv] if (lv == -1 or not ai) else list(range(lv + 1))
        separate = ai and rng.random() < 0.5
        eff_first0 = 3 if first_param is None else first_param
        table = PG.direct_table(mol, bits, lv, levels, fp_opts, separate=separate,
                                limit=(eff_first0 + 1) if ('sdf_file' in S and eff_first0 >= 1) else None)
        init = PG.direct_init(bits, lv, fp_opts)
        # pre-existing files
        fs0 = []
        if save and P['out_dir_base'] is not None and name is not None:
            ext = out_ext or '.fp.bz2'
            cand = [(P['out_dir_base'] + '_complete', name + ext)] + [(P['out_dir_base'] + str(i), name + ext) for i in range(0, max(7, (lv if isinstance(lv, int) and lv > 0 else 0) + 2))]
            mode = rng.choice(['none', 'none', 'all', 'some'])
            target = [(P['out_dir_base'] + ('_complete' if lv == -1 else str(lv)), name + ext)] if (lv == -1 or not ai) else \
                [(P['out_dir_base'] + str(i), name + ext) for i in range(lv + 1)]
            pre = target if mode == 'all' else [p for p in target if rng.random() < 0.5] if mode == 'some' else []
            if ci == 4:
                pre = target[1:2]
            if S.get('no_pre'):
                pre = []
            for k, p in enumerate(pre):
                os.makedirs(p[0], exist_ok=True)
                open(os.path.join(*p), 'wb').write(PG.SENTINEL % k)
                fs0.append((p, ('sentinel', k)))
        else:
            cand = []
        if 'cdir' in S:
            # a directory shared by consecutive calls: whatever the earlier calls left there is the initial file state
            fs0 = []
            for root, _, files in os.walk(cdir):
                for f in sorted(files):
                    if not f.startswith('in.sdf'):
                        fs0.append(((root, f), PG.read_content(os.path.join(root, f))))
        kw = PG.kwargs_of(P, fp_opts)
        if S.get('np_ints'):
            kw = COV.np_ints(kw)
        kw_before = dict(kw)
        form = S.get('call_form', 'kw')
        if form == 'omit' and kw:
            form = 'kw'
        if entry == 'dict_mol':
            call = lambda: G.fprints_dict_from_mol(mol, save=save, **kw)
        elif entry == 'dict_sdf':
            call = lambda: G.fprints_dict_from_sdf(sdf_path, save=save, **kw)
        elif entry == 'from_mol':
            call = {'kw': lambda: pipeline.fprints_from_mol(mol, fprint_params=kw, save=save),
                    'pos': lambda: pipeline.fprints_from_mol(mol, kw, save),
                    'omit': lambda: pipeline.fprints_from_mol(mol)}[form]
        else:
            call = {'kw': lambda: pipeline.fprints_from_sdf(sdf_path, fprint_params=kw, save=save),
                    'pos': lambda: pipeline.fprints_from_sdf(sdf_path, kw, save),
                    'omit': lambda: pipeline.fprints_from_sdf(sdf_path)}[form]
        snap_before = COV.snapshot_mol(mol)
        r, msgs = PG.logged_call(call)
        # the call must leave its arguments and the functions' mutable defaults alone (a later call would inherit the change)
        side = []
        if COV.snapshot_mol(mol) != snap_before:
            side.append('the molecule (name / conformer ids / coordinates) was changed')
        if list(kw.items()) != list(kw_before.items()):
            side.append('the fprint_params dict was changed: %r -> %r' % ({k: str(v) for k, v in kw_before.items()}, {k: str(v) for k, v in kw.items()}))
        if COV.defaults_state():
            side.append('a default-argument dict of e3fp.pipeline now holds %r' % (COV.defaults_state(),))
            COV.clear_defaults()
        if side:
            pfail('entry/%s/%d' % (entry, ci), 'entry point %s has a side effect on its inputs: %s' % (entry, '; '.join(side)),
                  {'entry': entry, 'molecule': tag, 'name': name, 'params': {k: str(v) for k, v in kw_before.items()}, 'save': save, 'call_form': form})
        kind = 'dict' if entry.startswith('dict') else 'list'
        if r[0] == 'ok':
            if kind == 'dict' and not isinstance(r[1], dict):
                r = ('err', 'EOther')
            else:
                r = ('ok', PG.dict_obs(r[1]) if kind == 'dict' else [fpgen.obs(x) for x in r[1]])
        else:
            dist['errors'] += 1
        logged = PG.generated_count(msgs)
        fs_after = []
        for p in cand:
            fn = os.path.join(*p)
            fs_after.append((p, PG.read_content(fn) if os.path.isfile(fn) else None))
        for root, _, files in os.walk(cdir):
            for f in files:
                p = (root, f)
                if p not in [q for q, _ in fs_after] and not f.startswith('in.sdf'):
                    fs_after.append((p, PG.read_content(os.path.join(root, f))))
        unread = [p for p, c in fs_after if c is not None and c[0] == 'unreadable']
        if unread:
            pfail('entry/%s/%d' % (entry, ci), 'a saved fingerprint file cannot be reloaded with loadz', {'files': unread, 'params': str(kw)})
            fs_after = [(p, c) for p, c in fs_after if c is None or c[0] != 'unreadable']
        if S or ci % 4 == 0:
            for p, c in fs_after:
                if c is not None and c[0] == 'pickled':
                    probs = COV.reload_variants(os.path.join(*p))
                    dist['reload_variants_checked'] = dist.get('reload_variants_checked', 0) + 1
                    if probs:
                        pfail('entry/%s/%d' % (entry, ci), 'a saved fingerprint file reloads differently through load / loadz(update_structure=False): %s' % '; '.join(probs[:2]),
                              {'file': list(p), 'params': {k: str(v) for k, v in kw.items()}, 'problems': probs})
        conf_ids = list(range(mol.GetNumConformers()))
        tl = PG.table_lit(table)
        ml = PG.mol_lit(name, conf_ids)
        pl = PG.fparams_lit(P)
        if kind == 'dict':
            m = 'x_dict %s %s %s %s (args_of_params unit %s %s)' % (tl, init, PG.fs_lit(fs0), ml, pl, blit(save))
            cmp_ = 'fdict_eqb'
        elif entry == 'from_mol':
            m = 'x_from_mol %s %s %s %s %s %s' % (tl, init, PG.fs_lit(fs0), ml, pl, blit(save))
            cmp_ = 'list_eqb fp_obs_eqb'
        else:
            m = 'x_from_sdf %s %s %s (Ok %s) %s %s' % (tl, init, PG.fs_lit(fs0), ml, pl, blit(save))
            cmp_ = 'list_eqb fp_obs_eqb'
        expr = ('let out := %s in result_eqb (%s) (o_val out) %s && option_eqb Z.eqb (o_logged out) %s && fs_agrees (o_fs out) %s'
                % (m, cmp_, PG.result_obs_lit(r, kind), optlit(logged), PG.fs_obs_lit(fs_after)))
        key = 'entry/%s/%d' % (entry, ci)
        summary = r[1] if r[0] == 'err' else ([(k, [PG.json_fp(o) for o in v]) for k, v in r[1]] if kind == 'dict' else [PG.json_fp(o) for o in r[1]])
        payload = {'entry': entry, 'molecule': tag, 'n_conformers': len(conf_ids), 'name': name, 'params': {k: str(v) for k, v in kw.items()},
                   'save': save, 'pre_existing_files': [list(p) for p, _ in fs0], 'impl_result': summary, 'impl_logged_count': logged,
                   'files_after': [[list(p), None if c is None else c[0]] for p, c in fs_after], 'direct_mode': 'separate-run-per-level' if separate else 'one-run'}
        add_case(key, expr, payload, 'let out := %s in (o_val out, o_logged out)' % m)
        eff_first = 3 if first_param is None else first_param
        in_prop = (not name or is_plain(name)) and (eff_first == -1 or eff_first >= 1)
        ctx.count(('entry', entry, tag, len(conf_ids), name, str(sorted(kw.items())), save, tuple(p for p, _ in fs0)),
                  nontrivial=len(conf_ids) >= 2 and in_prop)
        # -- the property itself, stated on the implementation (independent of the model) for in-domain cases
        direct_ok = all(v[0] == 'ok' for v in table.values())      # e.g. an ion pair with every heavy atom floating is rejected by Fingerprinter.run:
        #                                                            the entry points then return {} (modelled; error branch D2), nothing to compare directly
        if in_prop and lv >= -1 and r[0] == 'ok' and direct_ok and not (save and fs0 and not overwrite):
            N = len(conf_ids) if eff_first == -1 else min(eff_first, len(conf_ids))
            lists = r[1] if kind == 'dict' else [(lv, r[1])]
            want_levels = levels if kind == 'dict' else [lv]
            problems = []
            if kind == 'dict' and [k for k, _ in lists] != want_levels:
                problems.append('level keys %r, expected %r' % ([k for k, _ in lists], want_levels))
            for k, fl in lists:
                if len(fl) != N:
                    problems.append('level %d: %d fingerprints, expected %d' % (k, len(fl), N))
                for j, o in enumerate(fl):
                    want = table.get((bits, j, lv, k))
                    wn = None if not name else '%s_%d' % (name, j)
                    if o['name'] != wn:
                        problems.append('fingerprint %d named %r, expected %r' % (j, o['name'], wn))
                    if o['level'] != k or o['bits'] != bits:
                        problems.append('fingerprint %d labelled level %r bits %r, expected %r %r' % (j, o['level'], o['bits'], k, bits))
                    if want is not None and want[0] == 'ok' and (o['idx'] != want[1]['idx'] or o['cnt'] != want[1]['cnt'] or o['kind'] != want[1]['kind']):
                        problems.append('fingerprint %d at level %d differs from direct fingerprinting of conformer %d' % (j, k, j))
            if problems:
                payload2 = dict(payload)
                payload2['problems'] = problems[:6]
                pfail(key, 'entry point %s differs from direct fingerprinting: %s' % (entry, '; '.join(problems[:3])), payload2)
        if in_prop and lv >= -1 and r[0] == 'err' and not save and init == '(Ok tt)' and len(conf_ids) >= 1 and all(v[0] == 'ok' for v in table.values()):
            pfail(key, 'entry point %s raised %s although direct fingerprinting of every conformer succeeds' % (entry, r[1]), payload)
        # bookkeeping
        dist['entry'][entry] = dist['entry'].get(entry, 0) + 1
        fc = 'absent(3)' if first_param is None else '-1' if first == -1 else '<n' if 1 <= first < len(conf_ids) else '=n' if first == len(conf_ids) else '>n' if first > len(conf_ids) else 'outside(0,<-1)'
        dist['first_class'][fc] = dist['first_class'].get(fc, 0) + 1
        dist['level'][str(lv_raw) if level_p[0] != 'absent' else 'absent'] = dist['level'].get(str(lv_raw) if level_p[0] != 'absent' else 'absent', 0) + 1
        dist['all_iters'] += 1 if ai else 0
        dist['save'] += 1 if save else 0
        dist['unnamed'] += 1 if not name else 0
        dist['n_confs'][len(conf_ids)] = dist['n_confs'].get(len(conf_ids), 0) + 1
        if name and not is_plain(name):
            dist['suffix_names_outside_property'] += 1
        if not (eff_first == -1 or eff_first >= 1):
            dist['first_outside_property'] += 1
        if save:
            dist['out_ext'][str(out_ext)] = dist['out_ext'].get(str(out_ext), 0) + 1
        for k_, v_ in fp_opts.items():
            ok_ = '%s=%s' % (k_, v_)
            dist['options'][ok_] = dist['options'].get(ok_, 0) + 1
        dist['bits'][str(bits_raw) if bits_p[0] != 'absent' else 'absent'] = dist['bits'].get(str(bits_raw) if bits_p[0] != 'absent' else 'absent', 0) + 1
        if S:
            st = S.get('stream', '?')
            dist['extension_streams'][st] = dist['extension_streams'].get(st, 0) + 1
            if st == 'special':
                sens = S['opt_under_test'] in ('defaults', 'all-explicit-defaults') or COV.option_sensitive(S['base'][0], S['base'][1], S['opt_under_test'])
                ko = '%s:%s' % (S['opt_under_test'], 'result-depends-on-it' if sens else 'insensitive-molecule')
                dist['special_option_cases'][ko] = dist['special_option_cases'].get(ko, 0) + 1
            if form != 'kw':
                dist['call_forms'][form] = dist['call_forms'].get(form, 0) + 1
            if S.get('np_ints'):
                dist['call_forms']['numpy_ints'] = dist['call_forms'].get('numpy_ints', 0) + 1
            if S.get('mol_class'):
                dist['call_forms'][S['mol_class']] = dist['call_forms'].get(S['mol_class'], 0) + 1

    for ci in range(n_entry):
        do_entry(ci, {})

    # ---------------------------------------------------------------- D. a molecule whose _Name is the empty string
    #   (what an SDF record with an empty title line gives): the property counts it as unnamed (repaired: 712315f).
    for ei, (tag, base) in enumerate(multi[:ctx.n(2, 5)]):
        m_empty = PG.make_mol(base, 2, '')
        r, _ = PG.logged_call(lambda: G.fprints_dict_from_mol(m_empty, first=2, level=2, bits=1024))
        t = PG.direct_table(m_empty, 1024, 2, [2], {})
        exp = PG.result_obs_lit(('ok', PG.dict_obs(r[1])) if r[0] == 'ok' else r, 'dict')
        m = 'x_dict %s (Ok tt) [] %s (mkfargs (Some 1024) (Some 2) 2 tt None ".fp.bz2" false false false)' % (PG.table_lit(t), PG.mol_lit('', [0, 1]))
        add_case('emptyname/%d' % ei, 'result_eqb fdict_eqb (o_val (%s)) %s' % (m, exp), {'name': '', 'molecule': tag, 'impl': str(r)[:300]}, 'o_val (%s)' % m)
        ctx.count(('emptyname', tag), True)
        dist['unnamed'] += 1
        if not (r[0] == 'ok' and len(r[1].get(2, [])) == 2 and all(x.name is None for x in r[1][2])):
            pfail('emptyname/%d' % ei, 'a molecule whose _Name is "" (SDF record with an empty title line) is not fingerprinted as an unnamed molecule',
                  {'name': '', 'molecule': tag, 'n_conformers': 2, 'impl_result': str(r)[:200], 'expected': '2 unnamed fingerprints at level 2'})

    # ---------------------------------------------------------------- D2. the modelled error branches, once per run:
    #   zero conformers (NameError at the log line -> {}), an exception inside the conformer loop (a molecule without heavy
    #   atoms is rejected by Fingerprinter.run -> {}), an SDF file the reader cannot read (the error propagates)
    from rdkit import Chem
    from rdkit.Chem import AllChem
    m_noconf = Chem.MolFromSmiles('CCO')
    m_noconf.SetProp('_Name', 'noconf')
    m_h2 = Chem.MolFromSmiles('[H][H]')
    AllChem.EmbedMolecule(m_h2, randomSeed=7)
    m_h2.SetProp('_Name', 'h2mol')
    dist['error_branches'] = {}
    for label, mol_x in (('zero-conformers', m_noconf), ('fingerprinter-rejects', m_h2)):
        for entry in ('dict_mol', 'from_mol'):
            Px = {'bits': ('val', 1024), 'level': ('val', 2), 'first': 2, 'out_dir_base': None, 'out_ext': None, 'all_iters': None, 'overwrite': None}
            kwx = PG.kwargs_of(Px, {})
            tx = PG.direct_table(mol_x, 1024, 2, [2], {})
            if entry == 'dict_mol':
                r, msgs = PG.logged_call(lambda: G.fprints_dict_from_mol(mol_x, **kwx))
                r = ('ok', PG.dict_obs(r[1])) if r[0] == 'ok' else r
                m = 'x_dict %s (Ok tt) [] %s (args_of_params unit %s false)' % (PG.table_lit(tx), PG.mol_lit('noconf' if mol_x is m_noconf else 'h2mol', list(range(mol_x.GetNumConformers()))), PG.fparams_lit(Px))
                cmp_, kind = 'fdict_eqb', 'dict'
            else:
                r, msgs = PG.logged_call(lambda: pipeline.fprints_from_mol(mol_x, fprint_params=kwx))
                r = ('ok', [fpgen.obs(x) for x in r[1]]) if r[0] == 'ok' else r
                m = 'x_from_mol %s (Ok tt) [] %s %s false' % (PG.table_lit(tx), PG.mol_lit('noconf' if mol_x is m_noconf else 'h2mol', list(range(mol_x.GetNumConformers()))), PG.fparams_lit(Px))
                cmp_, kind = 'list_eqb fp_obs_eqb', 'list'
            key = 'errbranch/%s/%s' % (label, entry)
            add_case(key, 'let out := %s in result_eqb (%s) (o_val out) %s && option_eqb Z.eqb (o_logged out) %s'
                     % (m, cmp_, PG.result_obs_lit(r, kind), optlit(PG.generated_count(msgs))),
                     {'branch': label, 'entry': entry, 'impl_result': str(r)[:200], 'direct_fingerprinting': {str(k): v[0] for k, v in tx.items()}},
                     'let out := %s in (o_val out, o_logged out)' % m)
            ctx.count(('errbranch', label, entry), True)
            dist['error_branches'][label] = dist['error_branches'].get(label, 0) + 1
            # the branch must really have been taken
            want = ('ok', []) if entry == 'dict_mol' else ('err', 'EValue')
            if (r[0], r[1] if r[0] == 'err' else list(r[1])) != want:
                pfail(key, 'error branch %s: %s did not return the documented result ({} / ValueError)' % (label, entry), {'impl_result': str(r)[:200]})
    for label in ('garbage', 'missing'):
        fn = os.path.join(ctx.workdir, 'unreadable_%s.sdf' % label)
        if label == 'garbage':
            open(fn, 'w').write('this is not\nan SD file\n$$$$\n')
        own = fpgen.attempt(lambda: mol_from_sdf(fn))                       # the harness's own read
        r, _ = PG.logged_call(lambda: pipeline.fprints_from_sdf(fn, fprint_params={'level': 2}))
        Px = {'bits': ('absent',), 'level': ('val', 2), 'first': None, 'out_dir_base': None, 'out_ext': None, 'all_iters': None, 'overwrite': None}
        key = 'errbranch/unreadable-sdf/%s' % label
        same = own[0] == 'err' and r[0] == 'err' and own[1] == r[1]
        m = 'x_from_sdf [] (Ok tt) [] (Raises EOther) %s false' % PG.fparams_lit(Px)
        add_case(key, ('result_eqb (list_eqb fp_obs_eqb) (o_val (%s)) (Raises EOther)' % m) if same else 'false',
                 {'branch': 'unreadable SDF', 'file': label, 'reader_alone': str(own)[:120], 'fprints_from_sdf': str(r)[:120]}, 'o_val (%s)' % m)
        ctx.count(('errbranch', 'unreadable', label), True)
        dist['error_branches']['unreadable-sdf'] = dist['error_branches'].get('unreadable-sdf', 0) + 1

    # ---------------------------------------------------------------- E. fprints_from_smiles: histories of calls
    real_gc = pipeline.generate_conformers
    n_hist = ctx.n(4, 30)
    for hi in range(n_hist):
        ncalls = rng.choice([3, 4, 5])
        recs, call_lits, results, eff_checks, table = [], [], [], [], {}
        dflt_obj = pipeline.fprints_from_smiles.__defaults__[0]
        dflt_before_hist = [(k, int(v)) for k, v in dflt_obj.items()]
        hist_payload = []
        for ck in range(ncalls):
            smi = rng.choice(SMILES)
            nm = 's%dx%d' % (hi, ck) + rng.choice(['', 'a', '-b'])
            omit = rng.random() < 0.5
            cp = None
            if not omit:
                cp = {}
                if rng.random() < 0.9:
                    cp['num_conf'] = rng.choice([2, 3])
                if rng.random() < 0.8:
                    cp['seed'] = rng.choice([7, 42])
                if rng.random() < 0.35:
                    cp['first'] = rng.choice([1, 2])
                if rng.random() < 0.3:
                    cp['pool_multiplier'] = 1
            fpar = {'bits': rng.choice([('val', 1024), ('absent',)]), 'level': rng.choice([('val', 2), ('val', -1), ('absent',), ('none',)]),
                    'first': rng.choice([None, 1, 2, -1]), 'out_dir_base': None, 'out_ext': None, 'all_iters': None, 'overwrite': None}
            fkw = PG.kwargs_of(fpar, {})
            seen = {}

            def recording_gc(mol_, name_=None, **kwargs):
                out = real_gc(mol_, name_, **kwargs)
                seen['kwargs'] = kwargs
                seen['out'] = out
                return out
            dflt_before = [(k, int(v)) for k, v in dflt_obj.items()]
            cp_before = None if cp is None else dict(cp)
            pipeline.generate_conformers = recording_gc
            try:
                if cp is None:
                    r, msgs = PG.logged_call(lambda: pipeline.fprints_from_smiles(smi, nm, fprint_params=fkw))
                else:
                    r, msgs = PG.logged_call(lambda: pipeline.fprints_from_smiles(smi, nm, confgen_params=cp, fprint_params=fkw))
            finally:
                pipeline.generate_conformers = real_gc
            if cp is not None and cp != cp_before:
                pfail('smiles/%d' % hi, 'fprints_from_smiles modified the confgen_params dict passed by the caller', {'before': cp_before, 'after': cp})
            eff = [(k, int(v)) for k, v in seen.get('kwargs', {}).items() if k != 'save']
            gen_out = seen.get('out')
            cid0 = (hi * 10 + ck) * 1000
            if gen_out is False or gen_out is None:
                recs.append((nm, None))
            else:
                gmol = gen_out[0]
                lv_raw = {'absent': 5, 'none': None}.get(fpar['level'][0], fpar['level'][1] if fpar['level'][0] == 'val' else None)
                lv = -1 if lv_raw is None else lv_raw
                bits = norm_bits(2 ** 32 if fpar['bits'][0] == 'absent' else fpar['bits'][1])
                eff_first = 3 if fpar['first'] is None else fpar['first']
                lim = None if eff_first == -1 else eff_first + 1
                table.update(PG.direct_table(gmol, bits, lv, [lv], {}, conf_id0=cid0, limit=lim))
                recs.append((nm, [cid0 + j for j in range(gmol.GetNumConformers())]))
            r = ('ok', [fpgen.obs(x) for x in r[1]]) if r[0] == 'ok' else r
            results.append(r)
            cl = '(mkcall tt %s %s %s false)' % (strlit(nm), 'None' if cp is None else '(Some %s)' % cp_lit(list(cp_before.items())), PG.fparams_lit(fpar))
            call_lits.append(cl)
            eff_checks.append('cparams_eqb (smiles_effective unit unit %s %s) %s' % (cp_lit(dflt_before), cl, cp_lit(eff)))
            hist_payload.append({'smiles': smi, 'name': nm, 'confgen_params': 'omitted' if cp is None else cp_before, 'fprint_params': {k: str(v) for k, v in fkw.items()},
                                 'default_dict_before': dflt_before, 'kwargs_seen_by_generate_conformers': eff,
                                 'n_conformers_generated': None if not gen_out else gen_out[0].GetNumConformers(),
                                 'impl_result': r[1] if r[0] == 'err' else [PG.json_fp(o) for o in r[1]]})
            dist['smiles_calls'] += 1
        dflt_after = [(k, int(v)) for k, v in dflt_obj.items()]
        rec_lit = listlit(['(%s, %s)' % (strlit(nm), '(Raises EOther)' if ids is None else '(Ok %s)' % core.zlist(ids)) for nm, ids in recs])
        res_lit = listlit([PG.result_obs_lit(r, 'list') for r in results])
        m = 'x_smiles_history %s %s false [] %s %s' % (PG.table_lit(table), rec_lit, cp_lit(dflt_before_hist), listlit(call_lits))
        expr = ('let h := %s in cparams_eqb (fst (fst h)) %s && list_eqb (result_eqb (list_eqb fp_obs_eqb)) (snd h) %s && %s'
                % (m, cp_lit(dflt_after), res_lit, ' && '.join(eff_checks)))
        key = 'smiles/%d' % hi
        add_case(key, expr, {'history': hist_payload, 'default_dict_after': dflt_after}, 'let h := %s in (fst (fst h), snd h)' % m)
        ctx.count(('smiles', hi, str(hist_payload)[:2000]), nontrivial=True)
        dist['smiles_histories'] += 1
        if dflt_after:
            pfail(key, 'fprints_from_smiles left entries in its default confgen_params dict: a later call inherits them',
                  {'history': hist_payload, 'default_dict_after': dflt_after})
            dflt_obj.clear()

    # ---------------------------------------------------------------- F. coverage extension (props/c14_cov.py; table in work/coverage_C14.md)
    env = COV.Env(ctx, add_case, pfail, dist, is_plain)
    ci = n_entry
    for S in COV.entry_plans(env, multi, single):
        do_entry(ci, S)
        ci += 1
    #   call sequences on one molecule object / one output directory
    dist['sequences'] = {}
    for qi, seq in enumerate(COV.sequence_plans(env, multi)):
        qdir = os.path.join(ctx.workdir, 'q%d' % qi)
        for step in seq['steps']:
            S = dict(step)
            which = S.pop('use', 'A')
            if S.get('before'):
                COV.apply_before(seq['A'][1], S['before'], seq['name'])
            S['mol_obj'] = seq[which]
            if S.pop('shared_dir', False):
                S['cdir'] = qdir
            do_entry(ci, S)
            ci += 1
        dist['sequences'][seq['kind']] = dist['sequences'].get(seq['kind'], 0) + 1
    COV.select_stream(env)
    COV.molitem_stream(env)
    COV.dict_sdf_errors(env)
    COV.smiles_extra(env, cp_lit)

    for k in cases[:2] + [c for c in cases if c[0].startswith('entry/')][:3] + [c for c in cases if c[0].startswith('smiles/')][:1]:
        ctx.sample({'case': k[0], 'input_and_implementation_result': payloads[k[0]], 'model_check': k[1][:300]}, maxn=7)
    if only is not None:
        cases = [c for c in cases if c[0] == only]
    light = ('name/', 'molitem/', 'select/')
    name_cases = [c for c in cases if c[0].startswith(light)]
    other_cases = [c for c in cases if not c[0].startswith(light)]
    nbad = 0
    if name_cases or only is None:          # a replay evaluates the recorded case only
        nbad += core.compare_cases(ctx, name_cases, IMPORTS, 'C14 MolItemName', payloads, model_expr=mexpr, shard=250)
    if other_cases or only is None:
        nbad += core.compare_cases(ctx, other_cases, IMPORTS, 'C14 entry points', payloads, model_expr=mexpr, shard=25)
    found_input = state['found'] or nbad > 0
    ctx.coverage['rule'] = ('shipped SDF molecules cut to 1-6 conformers x first in {-1,1,2,n-1,n,n+3} (a few 0/<-1 and the absent default 3) x level '
                            '{-1,None,absent,0,1,2,3,5} x all_iters x bits {absent,None,-1,32,1024,4096} x seven pass-through options x four entry points '
                            'x save (three extensions, pre-existing sentinel files, overwrite); plus MolItemName on random strings over {letters,digits,-,_,newline,non-ASCII} '
                            'and histories of fprints_from_smiles calls with/without explicit confgen_params.  Coverage extension (props/c14_cov.py, table in '
                            'work/coverage_C14.md): 11 embedded molecules with floating atoms / isotopes / charges / stereo where every pass-through option is run at '
                            'its non-default value whenever that changes the direct result; punctuated names; numpy integers; positional and omitted fprint_params; '
                            'PropertyMol / RWMol; levels 4-12, more bits, extensions and directory names; empty SDF titles; shipped files as they are; call '
                            'sequences on one molecule object and one output directory (A,B,A; resume after a real save; conformer removed; renamed; same name on '
                            'another molecule); fprints_from_fprints_dict called directly on multi-level dicts; the other MolItemName methods; '
                            'fprints_from_smiles positional / save=True / tied to confs_from_smiles; after every entry call the molecule, the caller\'s dict and '
                            'the mutable defaults of e3fp.pipeline are compared with their state before; saved files are also read through load and '
                            'loadz(update_structure=False).  Non-trivial: an in-domain case with >= 2 '
                            'conformers (names: a string containing - or _); distinct by full input.')
    ctx.coverage['input_distribution'] = dist
    ctx.assumptions += [
        'per-conformer fingerprinting is a parameter of the model (Section variable fprint); the theorems that need it assume '
        'fprint_truncation (C12: a successful query at level k of the run to the level cap L equals the query of a run limited to k); all_iters_spec_M1 discharges it for model M1 '
        '(Proofs/PipelineM1.v, premise left: the iteration bound fuel exceeds L); in the cases the function is a table recorded from direct Fingerprinter use',
        'pickle round trip (unpickle (pickle l) = Some l) is a hypothesis of saved_reload; exercised by save + loadz for every out_ext',
        'conformer generation (RDKit ETKDG + force field) and the SD reader/writer are oracles; the conformers a SMILES call produced are recorded '
        'by wrapping pipeline.generate_conformers in the harness process (no source hook)',
        'molecule names are byte strings without non-ASCII decimal digits and without "/" (os.path.join); int() limits on >4300-digit groups ignored',
        'touch_dir, logging other than the Generated-N line, and I/O errors inside savez are not modelled']
    ctx.coverage['trusted_base'] = ['premises named in Properties/C14.v: fprint_truncation (all_iters_spec; discharged for M1 in all_iters_spec_M1), unpickle_pickle (saved_reload, saved_reload_all_iters)']
    if not ok and only is None:
        core.report_broken_proof(ctx, res, found_input)


def cp_lit(items):
    return listlit(['(%s, %s)' % (strlit(k), zlit(v)) for k, v in items])


def replay(ctx, path):
    """Re-run the recorded case on both sides (same seed and tier => same generated inputs); exit 1 + VIOLATION if it still fails."""
    return PG.replay_case(ctx, path, run)
