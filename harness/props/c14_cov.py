"""C14 - coverage extension (part module of c14.py; audit table: work/coverage_C14.md).

Helpers and streams that c14.run calls after its original streams:

  * plans for more entry-point cases (`entry_plans`): molecules on which every pass-through option changes the result
    (salts, hydrates, isotope labels, charges, stereo centres, an all-floating ion pair), punctuation in names, numpy
    integers for bits / level / first, positional and omitted `fprint_params`, PropertyMol / RWMol inputs, more levels,
    bits, extensions and directory base names, SDF records with an empty title line, the shipped .sdf.bz2 files themselves;
  * call sequences on ONE molecule object (`sequence_plans`): A, B, A with the same and with different parameters, a shared
    output directory (resume / overwrite after a real save), a conformer removed or the molecule renamed between two calls,
    two different molecules carrying the same name;
  * `select_stream`: pipeline.fprints_from_fprints_dict called directly on dictionaries with several levels (the only way a
    requested level differs from the largest key), against the model function;
  * `molitem_stream`: <name>_<j> parsed back, and every other public method of MolItemName against from_str / to_conf_name;
  * `smiles_extra`: positional / omitted arguments, save=True (inside the scratch directory), confs_from_smiles tied to
    fprints_from_smiles through a seeded generator;
  * direct observations stated on the implementation only (`snapshot_mol`, `reload_variants`, `defaults_state`)."""
import os

import numpy as np

import core
import fpgen
import pipe_gen as PG
from core import zlit, optlit, strlit, listlit

# name -> SMILES; embedded with RDKit's own ETKDG (an oracle here: any coordinates would do), 3 conformers each
SPECIAL_SMILES = [
    ('na_acetate', 'CC(=O)[O-].[Na+]'), ('mea_hcl', 'C[NH3+].[Cl-]'), ('etoh_hydrate', 'CCO.O'),
    ('d3_ethanol', '[2H]C([2H])([2H])CO'), ('c13_acetic', '[13CH3]C(=O)O'), ('ala_zwit', 'C[C@H]([NH3+])C(=O)[O-]'),
    ('crotonamide', 'C/C=C/C(N)=O'), ('nacl', '[Na+].[Cl-]'), ('benzoate_pair', 'OC(=O)c1ccccc1.NCC'),
    ('chfcl', 'C[C@H](F)Cl'), ('pyridine_hcl', 'c1ccncc1.Cl')]
OPT_DEFAULT = dict(counts=False, stereo=True, radius_multiplier=1.718, include_disconnected=True, rdkit_invariants=False,
                   exclude_floating=True, remove_duplicate_substructs=True)
OPT_OTHER = dict(counts=True, stereo=False, radius_multiplier=2.0, include_disconnected=False, rdkit_invariants=True,
                 exclude_floating=False, remove_duplicate_substructs=False)
PUNCT = list("abXYZ019 .,+()[]#@=:;'\"*%&!?~|\\<>{}^`$-_") + ['é', 'ü', '\t']
_CACHE = {}


class Env(object):
    def __init__(self, ctx, add_case, pfail, dist, is_plain):
        self.ctx, self.add_case, self.pfail, self.dist, self.is_plain = ctx, add_case, pfail, dist, is_plain
        self.rng = ctx.rng


def special_mols():
    """[(tag, mol with 3 conformers)] - built once, deterministic (fixed embedding seed)."""
    if 'special' not in _CACHE:
        from rdkit import Chem
        from rdkit.Chem import AllChem
        out = []
        for tag, smi in SPECIAL_SMILES:
            m = Chem.AddHs(Chem.MolFromSmiles(smi))
            ids = AllChem.EmbedMultipleConfs(m, 3, randomSeed=11)
            if len(ids) >= 2:
                m.SetProp('_Name', tag)
                out.append((tag, m))
        _CACHE['special'] = out
    return _CACHE['special']


def option_sensitive(tag, mol, opt):
    """Does switching `opt` to its non-default value change direct fingerprinting of conformer 0 at level 3?"""
    k = ('sens', tag, opt)
    if k not in _CACHE:
        conf = mol.GetConformers()[0]
        a = PG.direct_fp(mol, conf, 1024, 3, 3, {})
        b = PG.direct_fp(mol, conf, 1024, 3, 3, {opt: OPT_OTHER[opt]})
        strip = lambda r: r if r[0] != 'ok' else ('ok', r[1]['kind'], r[1]['idx'], r[1]['cnt'])
        _CACHE[k] = strip(a) != strip(b)
    return _CACHE[k]


def plain_names(env, k):
    """k names inside the property's quantifier that carry punctuation / blanks / non-ASCII letters / inner digits."""
    rng = env.rng
    fixed = ['lig A', 'a.b.c', 'x+y', '(R)-2-ol', '[Na+]', 'N#C', 'C@H', 'a=b', 'k:1', 'p;q', "o'k", 'say "x"', '5*', '50%', 'a&b', 'hey!', 'why?',
             '~1', 'a|b', 'back\\slash', '<x>', '{y}', 'a^b', '`q`', '$1', '1-2-', '7_', '-1', '_2', '12', 'a-1b', 'a_1b', 'a-1-b', 'x_1_y', 'Zn2+',
             'CHEMBL-12-a', 'tab\tname', ' lead', 'trail ', 'müller', '00', '-', '_', 'a--', 'a-_', '1_a', '-1_']
    out = [s for s in fixed if env.is_plain(s)]
    rng.shuffle(out)
    out = out[:max(0, k - k // 3)]
    while len(out) < k:
        s = ''.join(rng.choice(PUNCT) for _ in range(rng.choice([1, 2, 3, 5, 8, 13])))
        if env.is_plain(s):
            out.append(s)
    return out


# ------------------------------------------------------------------------------------------ direct observations
def snapshot_mol(mol):
    """What an entry point must leave alone: name, the conformer ids in order, every coordinate, the atom count."""
    return (PG.mol_name(mol), mol.GetNumAtoms(), [int(c.GetId()) for c in mol.GetConformers()],
            [np.asarray(c.GetPositions()).tobytes() for c in mol.GetConformers()])


def defaults_state():
    """The mutable default arguments of the pipeline functions (all must stay empty dicts)."""
    from e3fp import pipeline
    bad = []
    for fn in ('fprints_from_mol', 'fprints_from_sdf', 'fprints_from_smiles', 'confs_from_smiles', 'sdf_from_smiles'):
        for d in getattr(pipeline, fn).__defaults__ or ():
            if isinstance(d, dict) and d:
                bad.append((fn, {str(k): str(v) for k, v in d.items()}))
    return bad


def clear_defaults():
    from e3fp import pipeline
    for fn in ('fprints_from_mol', 'fprints_from_sdf', 'fprints_from_smiles', 'confs_from_smiles', 'sdf_from_smiles'):
        for d in getattr(pipeline, fn).__defaults__ or ():
            if isinstance(d, dict):
                d.clear()


def reload_variants(fn):
    """The other documented ways of reading a saved file must agree with loadz: loadz(update_structure=False), load() (the
    first fingerprint), loadz on an open binary file object.  Returns a list of problems."""
    import e3fp.fingerprint.fprint as FP
    import smart_open
    ref = [fpgen.obs(x) for x in FP.loadz(fn)]
    problems = []
    r = fpgen.attempt(lambda: [fpgen.obs(x) for x in FP.loadz(fn, update_structure=False)])
    if r != ('ok', ref):
        problems.append('loadz(update_structure=False) differs from loadz: %s' % str(r)[:160])
    r = fpgen.attempt(lambda: FP.load(fn))
    want = ref[0] if ref else None
    got = None if (r[0] == 'ok' and r[1] is None) else fpgen.obs(r[1]) if r[0] == 'ok' else r
    if got != want:
        probs = 'load() is not the first fingerprint of loadz(): %s' % str(got)[:160]
        problems.append(probs)
    return problems


def np_ints(kw):
    """The same keyword arguments with numpy integers for the integer options."""
    out = dict(kw)
    for k in ('bits', 'level', 'first'):
        if isinstance(out.get(k), int) and not isinstance(out.get(k), bool):
            out[k] = np.int64(out[k])
    return out


# ------------------------------------------------------------------------------------------ plans for c14.do_entry
def entry_plans(env, multi, single):
    """Overrides for more entry-point cases.  Keys are read by c14.do_entry; what is not overridden is drawn at random."""
    rng, ctx = env.rng, env.ctx
    plans = []
    sp = special_mols()
    # (1) every pass-through option at its non-default value, and all defaults, on molecules where the option matters
    n_sp = ctx.n(len(sp), len(sp))
    for tag, m in sp[:n_sp]:
        opts_list = [{}] + [{o: OPT_OTHER[o]} for o in OPT_OTHER]
        if ctx.quick:
            # quick tier: defaults + every option that changes the result on this molecule - the thorough tier runs all 8
            opts_list = [{}] + [{o: OPT_OTHER[o]} for o in OPT_OTHER if option_sensitive(tag, m, o)]
        for o in opts_list:
            plans.append({'stream': 'special', 'base': (tag, m), 'n': 3, 'fp_opts': dict(o), 'name': tag,
                          'entry': rng.choice(['dict_mol', 'from_mol', 'from_mol', 'from_sdf']),
                          'level_p': rng.choice([('val', 2), ('val', 3), ('val', 4), ('absent',), ('val', -1)]) if o.get('remove_duplicate_substructs', True) else
                          rng.choice([('val', 2), ('val', 3), ('val', 4), ('absent',)]),
                          'first': rng.choice([-1, 2, 3, 5]), 'save': rng.random() < 0.25, 'id_mode': 'contiguous',
                          'opt_under_test': (list(o) or ['defaults'])[0]})
    # (1b) all options explicitly at their DEFAULT values (a keyword that is passed but ignored would go unnoticed otherwise)
    for tag, m in [sp[i] for i in sorted(rng.sample(range(len(sp)), min(len(sp), ctx.n(2, 6))))]:
        plans.append({'stream': 'special', 'base': (tag, m), 'n': 3, 'fp_opts': dict(OPT_DEFAULT), 'name': tag, 'entry': rng.choice(['dict_mol', 'from_mol']),
                      'level_p': ('val', 3), 'first': -1, 'save': False, 'id_mode': 'contiguous', 'opt_under_test': 'all-explicit-defaults'})
    # (2) punctuation in names, through every entry point, with and without save
    for nm in plain_names(env, ctx.n(16, 120)):
        plans.append({'stream': 'names', 'name': nm, 'entry': rng.choice(['dict_mol', 'from_mol', 'from_sdf', 'dict_sdf']),
                      'first': rng.choice([-1, 2, 1, 4])})
    # (3) numpy integers for bits / level / first
    for _ in range(ctx.n(8, 60)):
        plans.append({'stream': 'numpy_ints', 'np_ints': True, 'first': rng.choice([-1, 1, 2, 3, 7]),
                      'level_p': rng.choice([('val', -1), ('val', 0), ('val', 2), ('val', 4)]),
                      'bits_p': rng.choice([('val', 1024), ('val', -1), ('val', 2 ** 32), ('val', 64)])})
    # (4) call forms of the pipeline functions: positional, and fprint_params omitted altogether
    for _ in range(ctx.n(6, 40)):
        plans.append({'stream': 'positional', 'call_form': 'pos', 'entry': rng.choice(['from_mol', 'from_sdf'])})
    for k in range(ctx.n(4, 20)):
        plans.append({'stream': 'omitted_params', 'call_form': 'omit', 'entry': ['from_mol', 'from_sdf'][k % 2], 'fp_opts': {}, 'bits_p': ('absent',),
                      'level_p': ('absent',), 'first': None, 'all_iters': None, 'save': False, 'n': [2, 3, 4, 6][k % 4]})
    # (5) molecule classes
    for k in range(ctx.n(6, 30)):
        plans.append({'stream': 'mol_class', 'mol_class': ['PropertyMol', 'RWMol'][k % 2], 'entry': rng.choice(['dict_mol', 'from_mol'])})
    # (6) more levels (above every termination level; 4 and 6-8 were never drawn), more bits, extensions, directory names
    for lv in [4, 6, 7, 8, 12, 4, 6][:ctx.n(5, 7)] * ctx.n(1, 6):
        plans.append({'stream': 'more_levels', 'level_p': ('val', lv), 'all_iters': rng.choice([True, True, False]), 'n': rng.choice([2, 3, 6]),
                      'first': rng.choice([-1, 2, 6]), 'name': None if rng.random() < 0.15 else 'lvl%d' % lv})
    for b in [2 ** 32, 2048, 64, 16, 2 ** 20][:ctx.n(4, 5)] * ctx.n(1, 4):
        plans.append({'stream': 'more_bits', 'bits_p': ('val', b)})
    for ext in ['.fp', '.pkl', '.fps.bz2', '.fp.pkl.gz', ''][:ctx.n(4, 5)] * ctx.n(1, 4):
        plans.append({'stream': 'more_ext', 'save': True, 'out_ext': ext, 'entry': rng.choice(['dict_mol', 'from_mol', 'from_sdf']),
                      'name': rng.choice(['extmol', 'e-x', 'e_x.1a']), 'first': rng.choice([-1, 2])})
    for bn in ['run1', 'out.d', 'my fp', 'fp_complete', 'lvl-', '9'][:ctx.n(4, 6)] * ctx.n(1, 3):
        plans.append({'stream': 'more_dirs', 'save': True, 'out_base_name': bn, 'entry': rng.choice(['dict_mol', 'from_mol']),
                      'name': 'dirmol', 'first': rng.choice([-1, 2])})
    # (7) SDF records with an empty title line; a whole shipped file
    for k in range(ctx.n(2, 8)):
        plans.append({'stream': 'sdf_empty_title', 'name': '', 'entry': ['from_sdf', 'dict_sdf'][k % 2], 'save': False, 'first': rng.choice([-1, 2])})
    files = PG.shipped_files()
    for f in [files[i] for i in sorted(rng.sample(range(len(files)), min(len(files), ctx.n(2, 10))))]:
        plans.append({'stream': 'shipped_file', 'sdf_file': f, 'entry': rng.choice(['from_sdf', 'dict_sdf']), 'save': False,
                      'first': rng.choice([1, 2, 3, None]), 'all_iters': rng.choice([None, True]),
                      'level_p': rng.choice([('val', 2), ('val', 3), ('absent',)])})
    # (8) more conformers and non-canonical conformer ids through every from-molecule entry
    for mode in ['gapped', 'shifted', 'reversed', 'all_zero', 'gapped', 'all_zero'][:ctx.n(4, 6)] * ctx.n(1, 4):
        plans.append({'stream': 'conf_ids', 'id_mode': mode, 'n': rng.choice([3, 5, 8]), 'entry': rng.choice(['dict_mol', 'from_mol']),
                      'name': rng.choice(['idmol', 'CHEMBL25', 'a-b']), 'first': rng.choice([-1, 2, 8, 3])})
    return plans


def sequence_plans(env, multi):
    """[[plan, ...]]: consecutive calls sharing molecule objects (and, for saves, one output directory)."""
    rng, ctx = env.rng, env.ctx
    seqs = []
    for si in range(ctx.n(10, 40)):
        tag, base = rng.choice(multi)
        other_tag, other = rng.choice([x for x in multi if x[0] != tag] or multi)
        nm = rng.choice(['seqmol', 'CHEMBL7', 's-q', 'z_'])
        molA = PG.make_mol(base, rng.choice([3, 4, 5]), nm)
        molB = PG.make_mol(other, rng.choice([2, 3, 4]), nm)          # a different molecule carrying the same name
        pA = {'level_p': ('val', rng.choice([2, 3])), 'bits_p': rng.choice([('val', 1024), ('absent',)]), 'first': rng.choice([-1, 2, 3]),
              'all_iters': rng.choice([None, True]), 'fp_opts': rng.choice([{}, {'counts': True}]), 'entry': rng.choice(['dict_mol', 'from_mol'])}
        pB = dict(pA, level_p=('val', rng.choice([0, 4, 5, -1])), first=rng.choice([1, -1]), all_iters=None)
        kind = ['same_params_ABA', 'save_resume', 'shrink', 'same_name_other_mol', 'rename'][si % 5]
        steps = []
        if kind == 'same_params_ABA':
            steps = [dict(pA, save=False), dict(pB, save=False), dict(pA, save=False)]
        elif kind == 'save_resume':
            # save; same call again (all files exist: {} / ValueError); with overwrite; another level into the same base
            ov = rng.choice([True, False])
            steps = [dict(pA, save=True, overwrite=None, no_pre=True), dict(pA, save=True, overwrite=None, no_pre=True),
                     dict(pA, save=True, overwrite=True, no_pre=True), dict(pB, save=True, overwrite=ov, no_pre=True),
                     dict(pA, save=False)]
            for s in steps:
                s['shared_dir'] = True
                s['out_ext'] = steps[0].setdefault('out_ext', rng.choice([None, '.fp.pkl', '.fp.gz']))
        elif kind == 'shrink':
            # the first conformer is removed between two identical calls: ids become 1..n-1, positions 0..n-2
            steps = [dict(pA, save=False), dict(pA, save=False, before='remove_first'), dict(pA, save=False, before='remove_last')]
        elif kind == 'same_name_other_mol':
            steps = [dict(pA, save=False), dict(pA, save=False, use='B'), dict(pA, save=False)]
        else:
            steps = [dict(pA, save=False), dict(pA, save=False, before='rename'), dict(pA, save=False, before='unname'), dict(pA, save=False, before='rename_back')]
        for s in steps:
            s['stream'] = 'sequence:' + kind
            s['id_mode'] = 'contiguous'
        seqs.append({'kind': kind, 'A': (tag, molA), 'B': (other_tag, molB), 'name': nm, 'steps': steps})
    return seqs


def apply_before(mol, what, orig_name):
    if what == 'remove_first':
        mol.RemoveConformer(mol.GetConformers()[0].GetId())
    elif what == 'remove_last':
        mol.RemoveConformer(mol.GetConformers()[-1].GetId())
    elif what == 'rename':
        mol.SetProp('_Name', orig_name + 'x')
    elif what == 'unname':
        mol.ClearProp('_Name')
    elif what == 'rename_back':
        mol.SetProp('_Name', orig_name)


# ------------------------------------------------------------------------------------------ level selection, called directly
def select_stream(env):
    """pipeline.fprints_from_fprints_dict on dictionaries with several level keys against Model.Pipeline.fprints_from_fprints_dict."""
    from e3fp import pipeline
    rng, ctx, dist = env.rng, env.ctx, env.dist
    dist['select_direct'] = {'cases': 0, 'requested_below_max': 0, 'requested_missing': 0, 'empty_dict': 0}
    key_sets = [[0, 1, 2, 3], [-1], [5], [2, 0, 1], [0, 1, 2, 3, 4, 5], [3, 1], [0], [], [7, 2, 5], [-1, 0]]
    for ci in range(ctx.n(40, 300)):
        keys = list(rng.choice(key_sets))
        d, dobs = {}, []
        for k in keys:
            fps = [fpgen.build(fpgen.rand_spec(rng, kind=rng.choice(['KBit', 'KCount']), bits=1024, level=k, named=True)) for _ in range(rng.choice([1, 2, 3]))]
            d[k] = fps
        dobs = PG.dict_obs(d)
        present = rng.random() < 0.6 and keys
        lv = rng.choice(keys) if present else rng.choice([-1, None, 'absent', 1, 4, 6, 100, -2])
        form = rng.choice(['kw', 'pos']) if lv != 'absent' else 'absent'
        before = [(k, [id(x) for x in v]) for k, v in d.items()]
        if form == 'absent':
            r = fpgen.attempt(lambda: pipeline.fprints_from_fprints_dict(d))
            lv_lit = '(Some pl_select_level_def)'
        elif form == 'kw':
            r = fpgen.attempt(lambda: pipeline.fprints_from_fprints_dict(d, level=lv))
            lv_lit = optlit(lv)
        else:
            r = fpgen.attempt(lambda: pipeline.fprints_from_fprints_dict(d, lv))
            lv_lit = optlit(lv)
        key = 'select/%d' % ci
        if [(k, [id(x) for x in v]) for k, v in d.items()] != before:
            env.pfail(key, 'fprints_from_fprints_dict changed the dictionary it was given', {'keys': keys, 'level': str(lv)})
        if r[0] == 'ok':
            lst = r[1]
            r = ('ok', [fpgen.obs(x) for x in lst])
            # stated directly: the list of the requested level when present, else the list of the largest level
            want_key = lv if (lv in d and lv not in ('absent',)) else (-1 if (lv == 'absent' and -1 in d) else max(keys))
            if lst is not d[want_key]:
                env.pfail(key, 'fprints_from_fprints_dict(level=%s) on levels %s did not return the list of level %s' % (lv, keys, want_key),
                          {'keys': keys, 'level': str(lv), 'form': form, 'returned_level_labels': [o['level'] for o in r[1]]})
        m = 'fprints_from_fprints_dict %s %s' % (PG.dict_lit(dobs), lv_lit)
        env.add_case(key, 'result_eqb (list_eqb fp_obs_eqb) (%s) %s' % (m, PG.result_obs_lit(r, 'list')),
                     {'dict_levels': keys, 'requested_level': str(lv), 'call_form': form,
                      'impl_result': r[1] if r[0] == 'err' else [PG.json_fp(o) for o in r[1]]}, m)
        ctx.count(('select', tuple(keys), str(lv), form, ci), nontrivial=len(keys) >= 2)
        dist['select_direct']['cases'] += 1
        if keys and lv in keys and lv != max(keys):
            dist['select_direct']['requested_below_max'] += 1
        if keys and lv not in keys:
            dist['select_direct']['requested_missing'] += 1
        if not keys:
            dist['select_direct']['empty_dict'] += 1


# ------------------------------------------------------------------------------------------ MolItemName: the other methods
def molitem_stream(env):
    """<name>_<j> parses back to (name, None, j); to_str / str / conf_name / mol_item_name print the parsed fields; tuple round trip,
    equality, hash, ordering, copy, the constructor, keyword and numpy-integer conformer numbers."""
    from e3fp.conformer.util import MolItemName, MolItemTuple
    rng, ctx, dist = env.rng, env.ctx, env.dist
    dist['molitem_methods'] = {'roundtrip_plain': 0, 'with_proto_or_conf': 0}
    names = plain_names(env, ctx.n(60, 500))
    strings = []
    for s in names:
        j = rng.choice([0, 1, 2, 9, 10, 19, 100, 4321])
        strings.append((s, j, '%s_%d' % (s, j)))
    for s in names[:len(names) // 3]:
        p, j = rng.choice([0, 1, 7, 12]), rng.choice([0, 3, 25])
        strings.append((s, None, rng.choice(['%s-%d_%d' % (s, p, j), '%s-%d' % (s, p), '%s-0%d_00%d' % (s, p, j)])))
    for s, j, text in strings:
        key = 'molitem/%d' % (dist['molitem_methods']['roundtrip_plain'] + dist['molitem_methods']['with_proto_or_conf'])

        def go():
            mi = MolItemName.from_str(text)
            return mi, (mi.mol_name, mi.proto_state_num, mi.conf_num, mi.to_str())
        r = fpgen.attempt(go)
        if r[0] == 'ok':
            mi, (mn, ps, cn, ts) = r[1]
            exp = '(Ok (mkitem %s %s %s, %s))' % (strlit(mn), optlit(ps), optlit(cn), strlit(ts))
            problems = []
            if j is not None and (mn, ps, cn) != (s, None, j):
                problems.append('from_str(%r) gave %r, expected (%r, None, %d)' % (text, (mn, ps, cn), s, j))
            if j is not None and ts != text:
                problems.append('to_str() of the parsed name is %r' % ts)
            same = {'str()': str(mi), 'conf_name': mi.conf_name, 'mol_item_name': mi.mol_item_name, 'to_conf_name(conf_num)': mi.to_conf_name(mi.conf_num),
                    'to_conf_name(conf_num=)': mi.to_conf_name(conf_num=mi.conf_num)}
            for what, v in same.items():
                if v != ts:
                    problems.append('%s is %r but to_str() is %r' % (what, v, ts))
            if cn is not None and mi.to_conf_name(np.int64(cn)) != ts:
                problems.append('to_conf_name(numpy.int64) differs')
            if mi.to_conf_name() != mi.proto_name or mi.to_proto_name(ps) != mi.proto_name or mi.to_mol_name(as_proto=True) != mi.proto_name:
                problems.append('proto_name / to_conf_name() / to_proto_name / to_mol_name(as_proto=True) disagree')
            if mi.to_mol_name() != mn or mi.to_proto_name() != mn:
                problems.append('to_mol_name() / to_proto_name() is not the molecule name')
            if ps is None and mi.proto_name != mn:
                problems.append('proto_name of a name without protonation state is %r' % mi.proto_name)
            tup = mi.to_tuple()
            twin, ctor, cp = MolItemName.from_tuple(tup), MolItemName(mn, ps, cn), mi.copy()
            if not (isinstance(tup, MolItemTuple) and tuple(tup) == (mn, ps, cn)):
                problems.append('to_tuple() is %r' % (tup,))
            for what, o in (('from_tuple(to_tuple())', twin), ('MolItemName(fields)', ctor), ('copy()', cp), ('from_str(to_str())', MolItemName.from_str(ts))):
                if not (o == mi and not (o != mi) and hash(o) == hash(mi) and o.to_str() == ts):
                    problems.append('%s is not equal to the parsed name (==, !=, hash, to_str)' % what)
            if cp is mi:
                problems.append('copy() returned the same object')
            if cn is not None:
                nxt = MolItemName(mn, ps, cn + 1)
                if not (nxt != mi and not (nxt == mi) and mi < nxt and nxt > mi and not (nxt < mi)):
                    problems.append('ordering / inequality against the next conformer of the same molecule is wrong')
                if nxt.to_str() == ts:
                    problems.append('two conformer numbers print the same name')
            if j is not None and MolItemName(s).to_conf_name(5) != MolItemName.from_str(s).to_conf_name(5):
                problems.append('MolItemName(name).to_conf_name differs from from_str(name).to_conf_name')
            if problems:
                env.pfail(key, 'MolItemName: ' + '; '.join(problems[:3]), {'string': text, 'name': s, 'j': j, 'problems': problems[:8]})
            impl = (mn, ps, cn, ts)
        else:
            exp = '(Raises %s)' % ('EOther' if r[1] == 'EUnexpected_AttributeError' else r[1])
            impl = r[1]
            if j is not None:
                env.pfail(key, 'MolItemName.from_str raised on <plain name>_<j>', {'string': text, 'impl': r[1]})
        m = 'rbind (from_str %s) (fun mi => Ok (mi, to_conf_name mi (mi_conf mi)))' % strlit(text)
        env.add_case(key, 'result_eqb (pair_eqb mol_item_eqb String.eqb) (%s) %s' % (m, exp), {'string': text, 'impl': impl}, m)
        ctx.count(('molitem', text), nontrivial=True)
        dist['molitem_methods']['roundtrip_plain' if j is not None else 'with_proto_or_conf'] += 1


# ------------------------------------------------------------------------------------------ error values of the SDF wrapper
def dict_sdf_errors(env):
    """fprints_dict_from_sdf on a file the reader rejects returns False (the batch runner relies on it) and logs the error;
    the pipeline wrapper lets the reader's exception through (checked in c14.py)."""
    from e3fp.fingerprint import generate as G
    ctx, dist = env.ctx, env.dist
    for label in ('garbage', 'missing', 'empty'):
        fn = os.path.join(ctx.workdir, 'unreadable2_%s.sdf' % label)
        if label == 'garbage':
            open(fn, 'w').write('not an SD file\n$$$$\n')
        elif label == 'empty':
            open(fn, 'w').close()
        r, msgs = PG.logged_call(lambda: G.fprints_dict_from_sdf(fn, level=2, first=2))
        ctx.count(('dict_sdf_error', label), True)
        dist['error_branches']['dict-sdf-unreadable'] = dist['error_branches'].get('dict-sdf-unreadable', 0) + 1
        if not (r[0] == 'ok' and r[1] is False):
            env.pfail('dictsdf/%s' % label, 'fprints_dict_from_sdf on an unreadable file did not return False', {'file': label, 'impl_result': str(r)[:200]})
        elif not any(m.startswith('Error retrieving mol from') for m in msgs):
            env.pfail('dictsdf/%s' % label, 'fprints_dict_from_sdf on an unreadable file did not log the error', {'file': label, 'messages': msgs[:5]})


# ------------------------------------------------------------------------------------------ SMILES entry point: more call forms
def smiles_extra(env, cp_lit):
    """Positional / omitted arguments, save=True (run inside the scratch directory: generate_conformers(save=True) writes below
    the working directory), and confs_from_smiles tied to fprints_from_smiles through the seeded generator."""
    from e3fp import pipeline
    rng, ctx, dist = env.rng, env.ctx, env.dist
    dist['smiles_extra'] = {'positional': 0, 'fprint_params_omitted': 0, 'save_true': 0, 'confs_from_smiles_tie': 0}
    real_gc = pipeline.generate_conformers
    smiles_pool = ['CCO', 'CC(C)CO', 'CCN', 'OCC(O)CO', 'C[C@H](N)C(=O)O', 'CC(=O)[O-].[Na+]']
    forms = ['positional', 'fprint_params_omitted', 'save_true', 'positional', 'save_true', 'fprint_params_omitted']
    for xi in range(ctx.n(6, 30)):
        form = forms[xi % len(forms)]
        smi = rng.choice(smiles_pool)
        nm = 'sx%d' % xi + rng.choice(['', '.a', '-b', ' c'])
        cp = {'num_conf': rng.choice([2, 3]), 'seed': rng.choice([7, 42]), 'pool_multiplier': 1}
        if rng.random() < 0.3:
            cp['first'] = 1
        fpar = {'bits': ('val', 1024), 'level': rng.choice([('val', 2), ('val', 3)]), 'first': rng.choice([None, 1, 2, -1]), 'out_dir_base': None,
                'out_ext': None, 'all_iters': None, 'overwrite': None}
        save = form == 'save_true'
        if form == 'fprint_params_omitted':
            fpar = {'bits': ('absent',), 'level': ('absent',), 'first': None, 'out_dir_base': None, 'out_ext': None, 'all_iters': None, 'overwrite': None}
        fkw = PG.kwargs_of(fpar, {})
        seen = {}

        def recording_gc(mol_, name_=None, **kwargs):
            out = real_gc(mol_, name_, **kwargs)
            seen['kwargs'] = kwargs
            seen['out'] = out
            return out
        cp_before, fkw_before = dict(cp), dict(fkw)
        sub = os.path.join(ctx.workdir, 'smx%d' % xi)
        os.makedirs(sub)
        old_cwd = os.getcwd()
        pipeline.generate_conformers = recording_gc
        try:
            os.chdir(sub)
            if form == 'positional':
                r, msgs = PG.logged_call(lambda: pipeline.fprints_from_smiles(smi, nm, cp, fkw, False))
            elif form == 'fprint_params_omitted':
                r, msgs = PG.logged_call(lambda: pipeline.fprints_from_smiles(smi, nm, confgen_params=cp))
            else:
                fkw['out_dir_base'] = 'fpout'            # relative: resolved below the scratch directory
                fkw_before = dict(fkw)
                r, msgs = PG.logged_call(lambda: pipeline.fprints_from_smiles(smi, nm, confgen_params=cp, fprint_params=fkw, save=True))
        finally:
            os.chdir(old_cwd)
            pipeline.generate_conformers = real_gc
        key = 'smilesx/%d' % xi
        if cp != cp_before or fkw != fkw_before:
            env.pfail(key, 'fprints_from_smiles modified a parameter dict passed by the caller', {'confgen_before': cp_before, 'confgen_after': cp,
                                                                                                 'fprint_before': {k: str(v) for k, v in fkw_before.items()},
                                                                                                 'fprint_after': {k: str(v) for k, v in fkw.items()}})
        eff = [(k, int(v)) for k, v in seen.get('kwargs', {}).items() if k != 'save']
        gen_out = seen.get('out')
        if not gen_out or seen['kwargs'].get('save') is not save:
            env.pfail(key, 'fprints_from_smiles did not reach generate_conformers with save=%r' % save, {'smiles': smi, 'seen': str(seen.get('kwargs'))[:200], 'impl_result': str(r)[:200]})
            continue
        gmol = gen_out[0]
        lv = 5 if fpar['level'][0] == 'absent' else fpar['level'][1]
        bits = 2 ** 32 if fpar['bits'][0] == 'absent' else fpar['bits'][1]
        eff_first = 3 if fpar['first'] is None else fpar['first']
        lim = None if eff_first == -1 else eff_first + 1
        table = PG.direct_table(gmol, bits, lv, [lv], {}, conf_id0=0, limit=lim)
        r = ('ok', [fpgen.obs(x) for x in r[1]]) if r[0] == 'ok' else r
        fpar_lit = dict(fpar, out_dir_base='fpout') if save else fpar
        cl = '(mkcall tt %s (Some %s) %s %s)' % (strlit(nm), cp_lit(list(cp_before.items())), PG.fparams_lit(fpar_lit), 'true' if save else 'false')
        rec_lit = listlit(['(%s, (Ok %s))' % (strlit(nm), core.zlist(list(range(gmol.GetNumConformers()))))])
        m = 'x_smiles_history %s %s false [] [] [%s]' % (PG.table_lit(table), rec_lit, cl)
        expr = ('let h := %s in list_eqb (result_eqb (list_eqb fp_obs_eqb)) (snd h) [%s] && cparams_eqb (smiles_effective unit unit [] %s) %s'
                % (m, PG.result_obs_lit(r, 'list'), cl, cp_lit(eff)))
        payload = {'smiles': smi, 'name': nm, 'call_form': form, 'confgen_params': cp_before, 'fprint_params': {k: str(v) for k, v in fkw_before.items()},
                   'kwargs_seen_by_generate_conformers': eff, 'n_conformers_generated': gmol.GetNumConformers(),
                   'impl_result': r[1] if r[0] == 'err' else [PG.json_fp(o) for o in r[1]]}
        env.add_case(key, expr, payload, 'let h := %s in snd h' % m)
        ctx.count(('smilesx', xi, form, smi, nm, str(sorted(cp_before.items())), str(sorted(fkw_before.items()))), nontrivial=True)
        dist['smiles_extra'][form] += 1
        # the property, directly: one fingerprint per conformer of the first N, named <name>_<j>, equal to direct fingerprinting
        if r[0] == 'ok':
            N = gmol.GetNumConformers() if eff_first == -1 else min(eff_first, gmol.GetNumConformers())
            problems = []
            if len(r[1]) != N:
                problems.append('%d fingerprints, expected %d' % (len(r[1]), N))
            for j, o in enumerate(r[1][:N]):
                want = table.get((bits, j, lv, lv))
                if o['name'] != '%s_%d' % (nm, j) or o['level'] != lv or o['bits'] != bits:
                    problems.append('fingerprint %d is labelled %r level %r bits %r' % (j, o['name'], o['level'], o['bits']))
                if want and want[0] == 'ok' and (o['idx'], o['cnt'], o['kind']) != (want[1]['idx'], want[1]['cnt'], want[1]['kind']):
                    problems.append('fingerprint %d differs from direct fingerprinting of generated conformer %d' % (j, j))
            if problems:
                env.pfail(key, 'fprints_from_smiles (%s) differs from direct fingerprinting: %s' % (form, '; '.join(problems[:3])), dict(payload, problems=problems[:6]))
        else:
            env.pfail(key, 'fprints_from_smiles (%s) raised %s' % (form, r[1]), payload)
        if save:
            # the fingerprint file written below the scratch directory reloads to the returned list
            fn = os.path.join(sub, 'fpout%d' % lv, nm + '.fp.bz2')
            c = PG.read_content(fn) if os.path.isfile(fn) else None
            if r[0] == 'ok' and (c is None or c[0] != 'pickled' or c[1] != r[1]):
                env.pfail(key, 'fprints_from_smiles(save=True): the saved fingerprint file does not reload to the returned fingerprints',
                          dict(payload, file=fn, content=None if c is None else c[0]))
    # confs_from_smiles + fprints_from_mol == fprints_from_smiles for a seeded generator (positional and keyword forms)
    for ti in range(ctx.n(3, 12)):
        smi = rng.choice(smiles_pool[:5])
        nm = 'tie%d' % ti
        cp = {'num_conf': 3, 'seed': rng.choice([7, 42, 99]), 'pool_multiplier': 1, 'first': rng.choice([-1, 2])}
        fkw = {'bits': 1024, 'level': rng.choice([2, 3]), 'first': rng.choice([-1, 1, 2])}
        key = 'smilestie/%d' % ti
        a = fpgen.attempt(lambda: pipeline.fprints_from_smiles(smi, nm, confgen_params=dict(cp), fprint_params=dict(fkw)))
        if ti % 2:
            b = fpgen.attempt(lambda: pipeline.fprints_from_mol(pipeline.confs_from_smiles(smi, nm, dict(cp), False), dict(fkw)))
        else:
            b = fpgen.attempt(lambda: pipeline.fprints_from_mol(pipeline.confs_from_smiles(smi, nm, confgen_params=dict(cp)), fprint_params=dict(fkw)))
        oa = [fpgen.obs(x) for x in a[1]] if a[0] == 'ok' else a
        ob = [fpgen.obs(x) for x in b[1]] if b[0] == 'ok' else b
        ctx.count(('smilestie', ti, smi, str(sorted(cp.items())), str(sorted(fkw.items()))), True)
        dist['smiles_extra']['confs_from_smiles_tie'] += 1
        if a[0] != 'ok' or oa != ob:
            env.pfail(key, 'fprints_from_smiles differs from fprints_from_mol(confs_from_smiles(...)) for the same seeded generator parameters',
                      {'smiles': smi, 'name': nm, 'confgen_params': cp, 'fprint_params': fkw, 'from_smiles': str(oa)[:300], 'via_confs_from_smiles': str(ob)[:300]})
