"""C15 - batch runs are schedule-independent, isolate failures, and resume safely (model M7, Properties/C15.v).

Correspondence: e3fp.fingerprint.generate.run() on SDF files written into the scratch directory (shipped molecules cut
to 2-3 conformers, plus unreadable files) against Model/Batch.v evaluated in Coq.  The model's inputs are the *direct*
per-conformer fingerprints of every readable file; the completion order the model is given is the one observed in the
saved database (row order), so the comparison is exact, and the theorems say that every order gives the same multiset.
File mode: any subset of the output files is pre-created (sentinel content = stale files; copies of a finished run =
a crashed run), the directory afterwards (content, SHA-256, mtime_ns) is compared with the model's directory and write
log.  The same for conformer.generate.generate_conformers(save=True)."""
import hashlib
import itertools
import json
import os
import shutil

import core
import fpgen
import pipe_gen as PG
from core import zlit, optlit, strlit, listlit, blit

IMPORTS = ['From Coq Require Import QArith.', 'From E3FP Require Import Base.Prelude Model.Fprint Model.Pipeline Model.Batch.']
OLD_NS = 1_000_000_000 * 10 ** 9          # mtime given to every pre-created file: any later write changes it
RESUME_DB_KEY = 'run:db_file+out_dir_base:resumed-run-drops-skipped-molecules'
NAMES = ['alpha', 'beta-x', 'g_m', 'CHEMBL25', 'delta.1', 'eps', 'zeta9', 'eta-1a']


def sha(fn):
    return hashlib.sha256(open(fn, 'rb').read()).hexdigest()


def make_inputs(ctx, d, n_good, bad_kinds, rng, confs=(2, 3)):
    """Write n_good readable SDF files (distinct molecule names) and the requested unreadable ones.
    Returns [dict(path, kind, name, mol)]."""
    from e3fp.conformer.util import mol_to_sdf, mol_from_sdf
    os.makedirs(d, exist_ok=True)
    multi = [(t, m) for t, m in PG.shipped_mols() if m.GetNumConformers() >= 3]
    names = rng.sample(NAMES, n_good)
    out = []
    for k in range(n_good):
        tag, base = multi[(k + rng.randrange(len(multi))) % len(multi)]
        nm = names[k] if rng.random() < 0.7 else '%s%d' % (PG.mol_name(base), k) + 'x'
        mol = PG.make_mol(base, rng.choice(confs), nm)
        fn = os.path.join(d, 'in%d_%s.sdf%s' % (k, tag, rng.choice(['', '.bz2', '.gz'])))
        mol_to_sdf(mol, fn)
        out.append({'path': fn, 'kind': 'good', 'name': nm, 'mol': mol_from_sdf(fn), 'tag': tag})
    for k, kind in enumerate(bad_kinds):
        fn = os.path.join(d, 'bad%d_%s.sdf' % (k, kind))
        if kind == 'garbage':
            open(fn, 'w').write('this is not\nan SD file\nat all\n$$$$\n')
        elif kind == 'empty':
            open(fn, 'w').write('')
        out.append({'path': fn, 'kind': kind, 'name': None, 'mol': None, 'tag': kind})
    return out


def direct_loop(mol, name, bits, level, all_iters, first, fp_opts):
    """What the conformer loop of fprints_dict_from_mol must produce, computed with direct Fingerprinter use:
    ('ok', [(k, [obs])]) or ('err', tag)."""
    levels = [level] if (level == -1 or not all_iters) else list(range(level + 1))
    n = mol.GetNumConformers()
    N = n if (first == -1 or first >= n) else first
    t = PG.direct_table(mol, bits, level, levels, fp_opts, limit=N)
    d = []
    for k in levels:
        col = []
        for j in range(N):
            r = t[(bits, j, level, k)]
            if r[0] != 'ok':
                return ('err', r[1])
            o = dict(r[1])
            o['name'] = '%s_%d' % (name, j) if name else None
            col.append(o)
        d.append((k, col))
    return ('ok', d)


def input_lit(inp, loop):
    if inp['kind'] != 'good':
        return 'Fails'
    return '(Loads %s %s)' % (optlit(inp['name'] or None, strlit), '(Raises %s)' % loop[1] if loop[0] == 'err' else '(Ok %s)' % PG.dict_lit(loop[1]))


def cfg_lit(level, all_iters, base, ext, overwrite):
    return '(mkcfg %s %s %s %s %s)' % (zlit(level), blit(all_iters), optlit(base, strlit), strlit(ext), blit(overwrite))


def load_db(fn):
    from e3fp.fingerprint.db import FingerprintDatabase
    if not os.path.exists(fn):
        return None
    db = FingerprintDatabase.load(fn)
    rows = [fpgen.obs(db[i]) for i in range(len(db))]
    kind = {'Fingerprint': 'KBit', 'CountFingerprint': 'KCount', 'FloatFingerprint': 'KFloat'}.get(db.fp_type.__name__, 'K?')
    return {'kind': kind, 'level': int(db.level), 'rows': rows}


def db_lit(db):
    if db is None:
        return 'None'
    return '(Some (mkdb %s %s %s))' % (db['kind'], zlit(db['level']), PG.fps_lit(db['rows']))


def completion_order(inputs, db):
    """Indices of the inputs in the order their rows appear in the database; inputs without rows first."""
    seen = []
    if db is not None:
        for o in db['rows']:
            for idx, inp in enumerate(inputs):
                if inp['kind'] == 'good' and o['name'] is not None and o['name'].rsplit('_', 1)[0] == inp['name']:
                    if idx not in seen:
                        seen.append(idx)
                    break
    rest = [i for i in range(len(inputs)) if i not in seen]
    return rest + seen


def multiset(rows):
    return sorted((str(o['name']), tuple(o['idx']), tuple(o['cnt']), o['level'], o['bits'], o['kind']) for o in rows)


def run(ctx):
    ok, res = core.proof_step(ctx)
    rng = ctx.rng
    from rdkit import RDLogger
    RDLogger.DisableLog('rdApp.*')          # RDKit's C++ parser messages for the unreadable inputs
    cases, payloads, mexpr = [], {}, {}
    found_input = False
    dist = {'db_runs': 0, 'by_mode': {}, 'unreadable_inputs': 0, 'file_mode_runs': 0, 'subsets_stale': 0, 'subsets_crash': 0,
            'overwrite_runs': 0, 'all_iters_runs': 0, 'conformer_runs': 0, 'db_and_files_resumes': 0}

    def add_case(key, expr, payload, model_out=None):
        cases.append((key, expr))
        payloads[key] = payload
        if model_out:
            mexpr[key] = model_out

    from e3fp.fingerprint import generate as G

    # =========================================================================== A. database mode
    n_sets = ctx.n(5, 10)
    mode_grid = [('serial', None), ('serial', 3), ('threads', 2), ('threads', 4), ('processes', 2), ('processes', 3), ('processes', 1),
                 ('threads', 1), (None, 2), ('processes', 4), ('threads', 3)]
    for si in range(n_sets):
        d = os.path.join(ctx.workdir, 'db%d' % si)
        n_good = rng.choice([4, 5, 6]) if ctx.quick else rng.choice([4, 5, 6, 7, 8])
        bad = rng.choice([[], ['garbage'], ['empty', 'missing'], ['garbage', 'empty'], ['missing']])
        inputs = make_inputs(ctx, d, n_good - min(len(bad), 2) if n_good - len(bad) >= 3 else n_good, bad, rng)
        level = rng.choice([2, 3, -1, 0])
        bits = rng.choice([1024, 4096, 2 ** 32])
        first = rng.choice([1, 2, -1, 3])
        counts = rng.random() < 0.4
        fp_opts = {'counts': counts}
        loops = [direct_loop(i['mol'], i['name'], bits, level, False, first, fp_opts) if i['kind'] == 'good' else None for i in inputs]
        dist['unreadable_inputs'] += len(bad)
        modes = [('serial', None)] + rng.sample(mode_grid[1:], ctx.n(3, 6))
        reference = None
        for mi, (mode, nproc) in enumerate(modes):
            order_in = list(range(len(inputs)))
            if mi > 0:
                rng.shuffle(order_in)
            files = [inputs[i]['path'] for i in order_in]
            dbf = os.path.join(d, 'out_%d.fpz' % mi)
            r = fpgen.attempt(lambda: G.run(files, db_file=dbf, level=level, bits=bits, first=first, counts=counts,
                                            parallel_mode=mode, num_proc=nproc))
            db = load_db(dbf) if r[0] == 'ok' else None
            perm = completion_order([inputs[i] for i in order_in], db)
            comp = [order_in[p] for p in perm]
            cl = cfg_lit(level, False, None, '.fp.bz2', False)
            m = 'x_run %s [] %s true' % (cl, listlit([input_lit(inputs[i], loops[i]) for i in comp]))
            exp = db_lit(db) if r[0] == 'ok' else None
            key = 'db/%d/%d' % (si, mi)
            payload = {'inputs_in_call_order': [(os.path.basename(inputs[i]['path']), inputs[i]['kind'], inputs[i]['name']) for i in order_in],
                       'parallel_mode': mode, 'num_proc': nproc, 'level': level, 'bits': bits, 'first': first, 'counts': counts,
                       'observed_completion_order': [inputs[i]['name'] or inputs[i]['kind'] for i in comp],
                       'db_rows': None if db is None else [o['name'] for o in db['rows']], 'run_outcome': r[0] if r[0] == 'ok' else r[1]}
            if r[0] != 'ok':
                found_input = True
                ctx.fail('run() raised in database mode', payload, kind='property')
                continue
            add_case(key, 'db_eqb (fst (%s)) %s' % (m, exp), payload, 'fst (%s)' % m)
            ctx.count(('db', si, mode, nproc, tuple(order_in)), nontrivial=len(bad) > 0 or mi > 0)
            dist['db_runs'] += 1
            dist['by_mode']['%s/%s' % (mode, nproc)] = dist['by_mode'].get('%s/%s' % (mode, nproc), 0) + 1
            # the property itself on the implementation: same named fingerprints as the serial reference, and as direct fingerprinting
            rows = [] if db is None else db['rows']
            if reference is None:
                reference = multiset(rows)
                direct = multiset([o for lp in loops if lp and lp[0] == 'ok' for k, col in lp[1] for o in col])
                if reference != direct:
                    found_input = True
                    ctx.fail('the serial database differs from direct fingerprinting of the readable inputs', dict(payload, n_db=len(reference), n_direct=len(direct)), kind='property')
            elif multiset(rows) != reference:
                found_input = True
                ctx.fail('database differs from the serial reference (as a multiset of named rows) under mode %s/%s' % (mode, nproc), payload, kind='property')

    # =========================================================================== B. file mode: stale files and crashed runs
    def file_experiment(tag, n_good, all_iters, level, bad, subsets_mode, mode=('serial', None)):
        nonlocal found_input
        d = os.path.join(ctx.workdir, 'files_%s' % tag)
        inputs = make_inputs(ctx, d, n_good, bad, rng, confs=(2,))
        bits, first = 1024, rng.choice([1, 2])
        ext = rng.choice(['.fp.bz2', '.fp.gz', '.fp.pkl'])
        loops = [direct_loop(i['mol'], i['name'], bits, level, all_iters, first, {}) if i['kind'] == 'good' else None for i in inputs]
        files = [i['path'] for i in inputs]
        levels = [level] if (level == -1 or not all_iters) else list(range(level + 1))

        def out_paths(base):
            ps = []
            for i in inputs:
                if i['kind'] == 'good':
                    for k in levels:
                        ps.append((base + ('_complete' if k == -1 else str(k)), i['name'] + ext))
            return ps
        # reference: an uninterrupted run into a fresh directory
        ref_base = os.path.join(d, 'ref', 'fp')
        os.makedirs(os.path.dirname(ref_base))
        G.run(files, out_dir_base=ref_base, out_ext=ext, level=level, bits=bits, first=first, all_iters=all_iters, parallel_mode='serial')
        ref_paths = out_paths(ref_base)
        ref_content = {p[0][len(ref_base):] + '/' + p[1]: PG.read_content(os.path.join(*p)) if os.path.isfile(os.path.join(*p)) else None for p in ref_paths}
        missing_ref = [p for p in ref_paths if not os.path.isfile(os.path.join(*p))]
        if missing_ref:
            found_input = True
            ctx.fail('an uninterrupted file-mode run did not write every level file of every readable input',
                     {'inputs': [(os.path.basename(i['path']), i['kind'], i['name']) for i in inputs], 'all_iters': all_iters, 'level': level,
                      'missing': [[p[0][len(ref_base):], p[1]] for p in missing_ref]}, kind='property')
        all_idx = list(range(len(ref_paths)))
        if subsets_mode == 'all':
            subsets = [list(s) for r_ in range(len(all_idx) + 1) for s in itertools.combinations(all_idx, r_)]
        else:
            subsets = [[], all_idx] + [[i for i in all_idx if rng.random() < 0.5] for _ in range(subsets_mode)]
        for ui, (sub, flavour) in enumerate([(s, f) for s in subsets for f in ('stale', 'crash')]):
            base = os.path.join(d, 'r%d' % ui, 'fp')
            os.makedirs(os.path.dirname(base))
            paths = out_paths(base)
            fs0 = []
            for idx in sub:
                p = paths[idx]
                os.makedirs(p[0], exist_ok=True)
                fn = os.path.join(*p)
                if flavour == 'stale':
                    open(fn, 'wb').write(PG.SENTINEL % idx)
                    fs0.append((p, ('sentinel', idx)))
                else:
                    if not os.path.isfile(os.path.join(*ref_paths[idx])):
                        continue
                    shutil.copyfile(os.path.join(*ref_paths[idx]), fn)
                    fs0.append((p, PG.read_content(fn)))
                os.utime(fn, ns=(OLD_NS, OLD_NS))
            before = {p: (sha(os.path.join(*p)), os.stat(os.path.join(*p)).st_mtime_ns) for p, _ in fs0}
            overwrite = flavour == 'stale' and ui % 7 == 3
            run_mode = mode if ui % 5 else rng.choice([('threads', 2), ('processes', 2), ('serial', None)])
            order_in = list(range(len(inputs)))
            if ui % 3 == 1:
                rng.shuffle(order_in)
            r = fpgen.attempt(lambda: G.run([files[i] for i in order_in], out_dir_base=base, out_ext=ext, level=level, bits=bits, first=first,
                                            all_iters=all_iters, overwrite=overwrite, parallel_mode=run_mode[0], num_proc=run_mode[1]))
            after, written, untouched = [], [], []
            for p in paths:
                fn = os.path.join(*p)
                if os.path.isfile(fn):
                    c = PG.read_content(fn)
                    after.append((p, c))
                    st = os.stat(fn).st_mtime_ns
                    if p in before and st == OLD_NS and sha(fn) == before[p][0]:
                        untouched.append(p)
                    else:
                        written.append(p)
                else:
                    after.append((p, None))
            cl = cfg_lit(level, all_iters, base, ext, overwrite)
            il = listlit([input_lit(inputs[i], loops[i]) for i in order_in])
            m = 'x_run %s %s %s false' % (cl, PG.fs_lit(fs0), il)
            lg = 'x_log %s %s %s' % (cl, PG.fs_lit(fs0), il)
            expr = ('fs_agrees (snd (%s)) %s && paths_subset %s (%s) && paths_subset (%s) %s && paths_disjoint %s (%s)'
                    % (m, PG.fs_obs_lit(after), listlit([PG.path_lit(p) for p in written]), lg, lg, listlit([PG.path_lit(p) for p in written]),
                       listlit([PG.path_lit(p) for p in untouched]), lg))
            key = 'files/%s/%d' % (tag, ui)
            payload = {'inputs': [(os.path.basename(inputs[i]['path']), inputs[i]['kind'], inputs[i]['name']) for i in order_in], 'all_iters': all_iters,
                       'level': level, 'out_ext': ext, 'overwrite': overwrite, 'mode': run_mode, 'pre_existing': [[p[0][len(base):], p[1], c[0]] for p, c in fs0],
                       'flavour': flavour, 'written': [[p[0][len(base):], p[1]] for p in written], 'untouched': [[p[0][len(base):], p[1]] for p in untouched],
                       'after': [[p[0][len(base):], p[1], None if c is None else c[0]] for p, c in after], 'run_outcome': r[0] if r[0] == 'ok' else r[1]}
            add_case(key, expr, payload, '(%s, snd (%s))' % (lg, m))
            ctx.count(('files', tag, ui, tuple(sub), flavour, overwrite), nontrivial=0 < len(sub) < len(paths) or overwrite)
            dist['file_mode_runs'] += 1
            dist['subsets_' + flavour] += 1
            dist['overwrite_runs'] += 1 if overwrite else 0
            dist['all_iters_runs'] += 1 if all_iters else 0
            # -- the property on the implementation
            if r[0] != 'ok':
                found_input = True
                ctx.fail('run() raised in file mode', payload, kind='property')
                continue
            probs = []
            by_mol = {}
            for idx, p in enumerate(paths):
                by_mol.setdefault(p[1], []).append((idx, p))
            for molfile, lst in by_mol.items():
                have_all = all(idx in sub for idx, _ in lst)
                for idx, p in lst:
                    c = dict(after).get(p)
                    refc = ref_content[p[0][len(base):] + '/' + p[1]]
                    if not overwrite and have_all and p in written:
                        probs.append('existing output %s of a complete molecule was rewritten by a no-overwrite run' % (p,))
                    if refc is not None and c is None:
                        probs.append('output %s is still missing after the re-run' % (p,))
                    if refc is not None and c is not None and (overwrite or not have_all or flavour == 'crash') and c != refc:
                        probs.append('output %s differs from the uninterrupted run' % (p,))
                    if overwrite and refc is not None and p not in written:
                        probs.append('output %s was not regenerated by an overwrite run' % (p,))
            if probs:
                found_input = True
                ctx.fail('file-mode resume: ' + '; '.join(probs[:3]), dict(payload, problems=probs[:8]), kind='property')

    if ctx.quick:
        file_experiment('a', 2, True, 1, [], 'all')                 # 4 files: all 16 subsets x {stale, crash}
        file_experiment('b', 3, False, 2, ['garbage'], 'all')       # 3 files: all 8 subsets
        file_experiment('c', 3, True, 2, ['missing'], 6)
        file_experiment('d', 2, True, 1, ['empty'], 'all', mode=('threads', 2))
        file_experiment('e', 3, False, 2, [], 'all', mode=('processes', 2))
    else:
        file_experiment('a', 2, True, 1, [], 'all')
        file_experiment('a2', 2, True, 2, ['empty'], 'all')          # 6 files: 64 subsets
        file_experiment('b', 4, False, 2, ['garbage'], 'all')       # 4 files
        file_experiment('b2', 4, False, -1, ['missing', 'empty'], 'all')
        file_experiment('c', 4, True, 2, ['missing'], 60)
        file_experiment('d', 3, True, 1, [], 'all', mode=('threads', 3))
        file_experiment('e', 3, False, 3, ['garbage'], 'all', mode=('processes', 2))

    # =========================================================================== C. database AND output directory, resumed
    d = os.path.join(ctx.workdir, 'both')
    inputs = make_inputs(ctx, d, 3, [], rng, confs=(2,))
    files = [i['path'] for i in inputs]
    base = os.path.join(d, 'o', 'fp')
    os.makedirs(os.path.dirname(base))
    dbf = os.path.join(d, 'both.fpz')
    loops = [direct_loop(i['mol'], i['name'], 1024, 2, False, 2, {}) for i in inputs]
    G.run(files, db_file=dbf, out_dir_base=base, level=2, bits=1024, first=2, parallel_mode='serial')
    db1 = load_db(dbf)
    m1 = 'x_run %s [] %s true' % (cfg_lit(2, False, base, '.fp.bz2', False), listlit([input_lit(i, l) for i, l in zip(inputs, loops)]))
    add_case('both/fresh', 'db_eqb (fst (%s)) %s' % (m1, db_lit(db1)), {'inputs': [i['name'] for i in inputs], 'db_rows': None if db1 is None else [o['name'] for o in db1['rows']]},
             'fst (%s)' % m1)
    ctx.count(('both', 'fresh'), True)
    direct = multiset([o for lp in loops if lp[0] == 'ok' for k, col in lp[1] for o in col])
    if db1 is None or multiset(db1['rows']) != direct:
        found_input = True
        ctx.fail('run(db_file=..., out_dir_base=...) into a fresh directory: the database differs from direct fingerprinting',
                 {'inputs': [i['name'] for i in inputs], 'db_rows': None if db1 is None else [o['name'] for o in db1['rows']]}, kind='property')
    victim = inputs[1]
    os.remove(os.path.join(base + '2', victim['name'] + '.fp.bz2'))
    fs0 = [((base + '2', i['name'] + '.fp.bz2'), PG.read_content(os.path.join(base + '2', i['name'] + '.fp.bz2'))) for i in inputs if i is not victim]
    os.remove(dbf)
    G.run(files, db_file=dbf, out_dir_base=base, level=2, bits=1024, first=2, parallel_mode='serial')
    db2 = load_db(dbf)
    m = 'x_run %s %s %s true' % (cfg_lit(2, False, base, '.fp.bz2', False), PG.fs_lit(fs0), listlit([input_lit(i, l) for i, l in zip(inputs, loops)]))
    add_case('both/resume', 'db_eqb (fst (%s)) %s' % (m, db_lit(db2)),
             {'inputs': [i['name'] for i in inputs], 'deleted_output_of': victim['name'], 'db_rows_first_run': [o['name'] for o in db1['rows']],
              'db_rows_resumed_run': None if db2 is None else [o['name'] for o in db2['rows']]}, 'fst (%s)' % m)
    ctx.count(('both', 'resume'), True)
    dist['db_and_files_resumes'] += 1
    if db2 is None or multiset(db2['rows']) != multiset(db1['rows']):
        found_input = True
        ctx.fail('run(db_file=..., out_dir_base=...) re-run after an interruption: molecules whose files already exist are skipped and are missing '
                 'from the database the re-run writes (it holds only the recomputed molecules)',
                 {'inputs': [i['name'] for i in inputs], 'deleted_output_of': victim['name'], 'db_rows_first_run': [o['name'] for o in db1['rows']],
                  'db_rows_resumed_run': None if db2 is None else [o['name'] for o in db2['rows']]}, finding_key=RESUME_DB_KEY, kind='property')

    # =========================================================================== D. generate_conformers(save=True)
    from e3fp.conformer.generate import generate_conformers
    from e3fp.conformer.util import mol_from_smiles, mol_from_sdf
    smis = [('CCO', 'eth'), ('CC(C)CO', 'ibu-x'), ('CCN', 'amine_a')]
    n_cg = ctx.n(12, 40)
    for ci in range(n_cg):
        cd = os.path.join(ctx.workdir, 'cg%d' % ci)
        os.makedirs(cd)
        overwrite = rng.random() < 0.35
        compress = rng.choice([0, 1, 2])
        ext = ['', '.gz', '.bz2'][compress]
        calls, obs_r = [], []
        fs0 = []
        chosen = rng.sample(smis, rng.choice([2, 3]))
        for k, (smi, nm) in enumerate(chosen):
            p = (cd, '%s.sdf%s' % (nm, ext))
            if rng.random() < 0.5:
                open(os.path.join(*p), 'wb').write(PG.SENTINEL % k)
                os.utime(os.path.join(*p), ns=(OLD_NS, OLD_NS))
                fs0.append((p, ('sentinel', k)))
        untouched_ok = True
        after = []
        for k, (smi, nm) in enumerate(chosen):
            p = (cd, '%s.sdf%s' % (nm, ext))
            mol = mol_from_smiles(smi, nm)
            r = fpgen.attempt(lambda: generate_conformers(mol, nm, save=True, out_dir=cd, num_conf=2, seed=11, compress=compress, overwrite=overwrite,
                                                          standardise=False))
            returned = r[0] == 'ok' and r[1] is not False
            obs_r.append(returned)
            calls.append('(%s, Some (Pickled []))' % PG.path_lit(p))
        for k, (smi, nm) in enumerate(chosen):
            p = (cd, '%s.sdf%s' % (nm, ext))
            fn = os.path.join(*p)
            if not os.path.isfile(fn):
                after.append((p, None))
                continue
            c = PG.read_content(fn)
            if c[0] == 'sentinel':
                if os.stat(fn).st_mtime_ns != OLD_NS:
                    untouched_ok = False
                after.append((p, c))
            else:
                ok_sdf = fpgen.attempt(lambda: mol_from_sdf(fn).GetNumConformers() >= 1)
                after.append((p, ('pickled', [])) if ok_sdf == ('ok', True) else (p, ('sentinel', -1)))
        m = 'x_cg_run %s %s %s' % (blit(overwrite), PG.fs_lit(fs0), listlit(calls))
        expr = 'let r := %s in list_eqb Bool.eqb (fst r) %s && fs_agrees (snd r) %s' % (m, listlit([blit(b) for b in obs_r]), PG.fs_obs_lit(after))
        payload = {'molecules': chosen, 'overwrite': overwrite, 'compress': compress, 'pre_existing': [p[1] for p, _ in fs0], 'returned_not_False': obs_r,
                   'after': [[p[1], None if c is None else c[0]] for p, c in after]}
        add_case('cg/%d' % ci, expr, payload, m)
        ctx.count(('cg', ci, str(payload)), nontrivial=bool(fs0))
        dist['conformer_runs'] += 1
        if not untouched_ok:
            found_input = True
            ctx.fail('generate_conformers(save=True, overwrite=False) touched an existing output file', payload, kind='property')

    for k in cases[:1] + [c for c in cases if c[0].startswith('files/')][3:5] + [c for c in cases if c[0].startswith('cg/')][:1]:
        ctx.sample({'case': k[0], 'input_and_implementation_result': payloads[k[0]], 'model_check': k[1][:300]})
    nbad = core.compare_cases(ctx, cases, IMPORTS, 'C15 batch runs', payloads, model_expr=mexpr, shard=12)
    found_input = found_input or nbad > 0
    ctx.coverage['rule'] = ('run() on 3-8 SDF files (shipped molecules cut to 2-3 conformers, distinct names; 0-2 unreadable: garbage / empty / missing) '
                            'x parallel_mode {serial, threads, processes, default} x num_proc 1-4 x shuffled input order, database compared with the model in the observed '
                            'completion order, with the serial reference and with direct fingerprinting; file mode: every subset of the output files (<= 6 files; sampled '
                            'above) pre-created as stale sentinel files or as copies from a finished run (a crashed run), with/without overwrite, both all_iters settings, '
                            'SHA-256 + mtime_ns before/after; generate_conformers(save=True) with pre-existing files.  Non-trivial: a non-serial or shuffled db run or one with '
                            'unreadable inputs; a proper non-empty subset of pre-existing files or overwrite.')
    ctx.coverage['input_distribution'] = dist
    ctx.assumptions += [
        'PARTIAL: the order in which a thread/process pool completes jobs and the atomicity of a file write are the runtime\'s; the theorems quantify over every '
        'completion order and every per-molecule prefix of whole-file writes, the correspondence runs the pools that python_utilities offers without MPI',
        'a file truncated by a crash in the middle of a write exists for os.path.isfile and is kept by a no-overwrite re-run: outside a model of whole-file writes '
        '(hypothesis `consistent` of crash_then_resume)',
        'inputs carry distinct molecule names (hypothesis NoDup (saved_names order)); shared_path_schedule_dependent shows what happens otherwise',
        'the per-input conformer-loop result is an input of the model (computed in the harness by direct Fingerprinter use); its relation to the molecule is C14',
        'workers act on the directory one after the other in completion order in the model: adequate for concurrent workers because output paths are disjoint',
        'FingerprintDatabase.add_fingerprints / savez / load are model M3 (C05, C08); here rows are compared through db[i]']
    ctx.coverage['trusted_base'] = ['no Section hypotheses beyond the premises printed in Properties/C15.v (disjoint / wf_job / all_or_nothing / consistent, '
                                    'each derived for run() by worker_refines_job and jobs_disjoint from level_ok, input_ok and distinct names)']
    if not ok:
        core.report_broken_proof(ctx, res, found_input)


def replay(ctx, path):
    d = json.load(open(path))
    print(json.dumps(d, indent=1)[:6000])
    return 0
