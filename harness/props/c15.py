"""C15 - batch runs are schedule-independent, isolate failures, and resume safely (model M7, Properties/C15.v).

Correspondence: e3fp.fingerprint.generate.run() on SDF files written into the scratch directory (shipped molecules cut
to 2-3 conformers, plus unreadable files) against Model/Batch.v evaluated in Coq.  The model's inputs are the *direct*
per-conformer fingerprints of every readable file; the completion order the model is given is the one observed in the
saved database (row order), so the comparison is exact, and the theorems say that every order gives the same multiset.
File mode: any subset of the output files is pre-created (sentinel content = stale files; copies of a finished run =
a crashed run), the directory afterwards (content, SHA-256, mtime_ns) is compared with the model's directory and write
log.  The same for conformer.generate.generate_conformers(save=True)."""
import hashlib
import itertools
import json
import os
import shutil

import sys

import core
import fpgen
import pipe_gen as PG
from props import c15_cov as COV
from core import zlit, optlit, strlit, listlit, blit

IMPORTS = ['From Coq Require Import QArith.', 'From E3FP Require Import Base.Prelude Model.Fprint Model.Pipeline Model.Batch.']
OLD_NS = 1_000_000_000 * 10 ** 9          # mtime given to every pre-created file: any later write changes it
RESUME_DB_KEY = 'run:db_file+out_dir_base:resumed-run-drops-skipped-molecules'
NAMES = ['alpha', 'beta-x', 'g_m', 'CHEMBL25', 'delta.1', 'eps', 'zeta9', 'eta-1a']
# protonation-state names as the conformer pipeline writes them: <molecule>-<state>; distinct molecules whose names differ only there
PROTO_NAMES = ['LIG7-0', 'LIG7-1', 'LIG7-12']


def sha(fn):
    return hashlib.sha256(open(fn, 'rb').read()).hexdigest()


def h2_mol(name):
    """A molecule the fingerprinter rejects (no heavy atom): Fingerprinter.run raises inside the conformer loop."""
    from rdkit import Chem
    from rdkit.Chem import AllChem
    m = Chem.MolFromSmiles('[H][H]')
    AllChem.EmbedMolecule(m, randomSeed=7)
    m.SetProp('_Name', name)
    return m


def make_inputs(ctx, d, n_good, bad_kinds, rng, confs=(2, 3)):
    """Write n_good readable SDF files (distinct molecule names) and the requested special ones:
    garbage / empty / missing (unreadable), rejected (readable, the fingerprinter raises), unnamed (empty title line).
    Returns [dict(path, kind, name, mol)]; kind 'good' | 'rejected' | 'unnamed' load, the others do not."""
    from e3fp.conformer.util import mol_to_sdf, mol_from_sdf
    os.makedirs(d, exist_ok=True)
    multi = [(t, m) for t, m in PG.shipped_mols() if m.GetNumConformers() >= 3]
    names = rng.sample(NAMES, n_good)
    if n_good >= 2 and rng.random() < 0.5:
        k2 = rng.choice([2, 3]) if n_good >= 3 else 2
        for j, pn in zip(rng.sample(range(n_good), k2), rng.sample(PROTO_NAMES, k2)):
            names[j] = pn
    out = []
    stem_collide = n_good >= 2 and rng.random() < 0.4
    for k in range(n_good):
        tag, base = multi[(k + rng.randrange(len(multi))) % len(multi)]
        nm = names[k] if (rng.random() < 0.7 or names[k] in PROTO_NAMES or stem_collide) else '%s%d' % (PG.mol_name(base), k) + 'x'
        mol = PG.make_mol(base, rng.choice(confs), nm)
        fn = os.path.join(d, 'in%d_%s.sdf%s' % (k, tag, rng.choice(['', '.bz2', '.gz'])))
        if stem_collide and '/' not in names[(k + 1) % n_good]:
            # the FILE is called after ANOTHER molecule of the batch: outputs are named after molecules, never after files
            fn = os.path.join(d, '%s.sdf%s' % (names[(k + 1) % n_good], rng.choice(['', '.bz2', '.gz'])))
        mol_to_sdf(mol, fn)
        out.append({'path': fn, 'kind': 'good', 'name': nm, 'mol': mol_from_sdf(fn), 'tag': tag})
    for k, kind in enumerate(bad_kinds):
        fn = os.path.join(d, 'bad%d_%s.sdf' % (k, kind))
        ent = {'path': fn, 'kind': kind, 'name': None, 'mol': None, 'tag': kind}
        if kind == 'garbage':
            open(fn, 'w').write('this is not\nan SD file\nat all\n$$$$\n')
        elif kind == 'empty':
            open(fn, 'w').write('')
        elif kind == 'rejected':
            mol_to_sdf(h2_mol('h2mol%d' % k), fn)
            ent.update(name='h2mol%d' % k, mol=mol_from_sdf(fn))
        elif kind == 'unnamed':
            tag, base = multi[k % len(multi)]
            mol_to_sdf(PG.make_mol(base, 2, ''), fn)
            ent.update(name='', mol=mol_from_sdf(fn))
        out.append(ent)
    return out


LOADS = ('good', 'rejected', 'unnamed')


def direct_loop(mol, name, bits, level, all_iters, first, fp_opts):
    """What the conformer loop of fprints_dict_from_mol must produce, computed with direct Fingerprinter use:
    ('ok', [(k, [obs])]) or ('err', tag)."""
    levels = [level] if (level == -1 or not all_iters) else list(range(level + 1))
    n = mol.GetNumConformers()
    N = n if (first == -1 or first >= n) else first
    t = PG.direct_table(mol, bits, level, levels, fp_opts, limit=N)
    d = []
    for k in levels:
        col = []
        for j in range(N):
            r = t[(bits, j, level, k)]
            if r[0] != 'ok':
                return ('err', r[1])
            o = dict(r[1])
            o['name'] = '%s_%d' % (name, j) if name else None
            col.append(o)
        d.append((k, col))
    return ('ok', d)


def input_lit(inp, loop):
    if inp['kind'] not in LOADS:
        return 'Fails'
    return '(Loads %s %s)' % (optlit(inp['name'] or None, strlit), '(Raises %s)' % loop[1] if loop[0] == 'err' else '(Ok %s)' % PG.dict_lit(loop[1]))


def cfg_lit(level, all_iters, base, ext, overwrite):
    return '(mkcfg %s %s %s %s %s)' % (zlit(level), blit(all_iters), optlit(base, strlit), strlit(ext), blit(overwrite))


def load_db(fn):
    from e3fp.fingerprint.db import FingerprintDatabase
    if not os.path.exists(fn):
        return None
    db = FingerprintDatabase.load(fn)
    rows = [fpgen.obs(db[i]) for i in range(len(db))]
    kind = {'Fingerprint': 'KBit', 'CountFingerprint': 'KCount', 'FloatFingerprint': 'KFloat'}.get(db.fp_type.__name__, 'K?')
    return {'kind': kind, 'level': int(db.level), 'rows': rows}


def db_lit(db):
    if db is None:
        return 'None'
    return '(Some (mkdb %s %s %s))' % (db['kind'], zlit(db['level']), PG.fps_lit(db['rows']))


def completion_order(inputs, db):
    """Indices of the inputs in the order their rows appear in the database; inputs without rows first."""
    seen = []
    if db is not None:
        for o in db['rows']:
            for idx, inp in enumerate(inputs):
                if inp['kind'] == 'good' and o['name'] is not None and o['name'].rsplit('_', 1)[0] == inp['name']:
                    if idx not in seen:
                        seen.append(idx)
                    break
    rest = [i for i in range(len(inputs)) if i not in seen]
    return rest + seen


def multiset(rows):
    return sorted((str(o['name']), tuple(o['idx']), tuple(o['cnt']), o['level'], o['bits'], o['kind']) for o in rows)


def effective_mode(mode, nproc):
    """What python_utilities.parallel actually does for (parallel_mode, num_proc) here (no MPI): e.g. threads/processes
    with num_proc=1 fall back to serial."""
    from python_utilities.parallel import Parallelizer
    para = Parallelizer(parallel_mode=mode, num_proc=nproc)
    return para.parallel_mode, para.num_proc


def run(ctx, only=None):
    ok, res = core.proof_step(ctx)
    rng = ctx.rng
    from rdkit import RDLogger
    RDLogger.DisableLog('rdApp.*')          # RDKit's C++ parser messages for the unreadable inputs
    cases, payloads, mexpr = [], {}, {}
    state = {'found': False}
    dist = {'db_runs': 0, 'by_requested_mode': {}, 'by_effective_mode': {}, 'completion_order_differs_from_submission': {},
            'unreadable_inputs': 0, 'rejected_inputs': 0, 'unnamed_inputs': 0, 'params_file_runs': 0, 'file_mode_runs': 0,
            'subsets_stale': 0, 'subsets_crash': 0, 'half_written_molecules': 0, 'overwrite_runs': 0, 'all_iters_runs': 0,
            'conformer_runs': 0, 'db_and_files_runs': 0}
    dist.update(COV.new_dist())
    COV._CURSOR['files'] = 0
    H = sys.modules[__name__]

    def add_case(key, expr, payload, model_out=None):
        payload = dict(payload, case_key=key)
        cases.append((key, expr))
        payloads[key] = payload
        if model_out:
            mexpr[key] = model_out

    def pfail(key, what, payload, finding_key=None):
        """A property-level failure observed on the implementation for case `key`."""
        if only is not None and key != only:
            return
        state['found'] = True
        ctx.fail(what, dict(payload, case_key=key), finding_key=finding_key, kind='property')

    from e3fp.fingerprint import generate as G

    # =========================================================================== A. database mode
    n_sets = ctx.n(5, 10)
    bad_cycle = [['garbage', 'rejected'], ['empty', 'missing'], ['rejected'], ['garbage', 'empty'], ['missing', 'rejected'], []]
    wide = [('threads', 2), ('threads', 3), ('threads', 4), ('processes', 2), ('processes', 3), ('processes', 4), (None, 2), (None, 3)]
    narrow = [('serial', 3), ('threads', 1), ('processes', 1)]           # these run serially: labelled by what actually ran
    for si in range(n_sets):
        d = os.path.join(ctx.workdir, 'db%d' % si)
        bad = bad_cycle[si % len(bad_cycle)]
        n_good = rng.choice([3, 4, 5]) if ctx.quick else rng.choice([4, 5, 6, 7])
        inputs = make_inputs(ctx, d, n_good, bad, rng)
        level = rng.choice([2, 3, -1, 0])
        bits = rng.choice([1024, 4096, 2 ** 32])
        first = rng.choice([1, 2, -1, 3])
        counts = rng.random() < 0.4
        use_params = si == 1 or (not ctx.quick and si % 4 == 1)
        params_file = None
        if use_params:
            params_file = os.path.join(d, 'params.cfg')
            open(params_file, 'w').write('[fingerprinting]\nbits = %d\nlevel = %d\nfirst = %d\ncounts = %s\n' % (bits, level, first, counts))
            dist['params_file_runs'] += 1
        fp_opts = {'counts': counts}
        loops = [direct_loop(i['mol'], i['name'], bits, level, False, first, fp_opts) if i['kind'] in LOADS else None for i in inputs]
        dist['unreadable_inputs'] += sum(1 for b in bad if b in ('garbage', 'empty', 'missing'))
        dist['rejected_inputs'] += bad.count('rejected')
        # serial reference, then a threads and a processes run with >= 2 workers, then others
        modes = [('serial', None), rng.choice([('threads', 2), ('threads', 3), ('threads', 4)]),
                 rng.choice([('processes', 2), ('processes', 3), ('processes', 4)])]
        modes += rng.sample(wide + narrow, ctx.n(1, 4))
        reference = None
        for mi, (mode, nproc) in enumerate(modes):
            order_in = list(range(len(inputs)))
            if mi > 0:
                rng.shuffle(order_in)
            files = [inputs[i]['path'] for i in order_in]
            dbf = os.path.join(d, 'out_%d.fpz' % mi)
            eff = effective_mode(mode, nproc)
            if params_file:
                # the keyword values are deliberately different: the parameter file must win
                call = lambda: G.run(files, db_file=dbf, params=params_file, level=0, bits=32, first=1, counts=not counts,
                                     parallel_mode=mode, num_proc=nproc)
            else:
                call = lambda: G.run(files, db_file=dbf, level=level, bits=bits, first=first, counts=counts,
                                     parallel_mode=mode, num_proc=nproc)
            r = fpgen.attempt(call)
            db = load_db(dbf) if r[0] == 'ok' else None
            perm = completion_order([inputs[i] for i in order_in], db)
            comp = [order_in[p] for p in perm]
            with_rows = [i for i in comp if inputs[i]['kind'] == 'good']
            submitted = [i for i in order_in if inputs[i]['kind'] == 'good']
            reordered = with_rows != [i for i in submitted if i in with_rows]
            cl = cfg_lit(level, False, None, '.fp.bz2', False)
            m = 'x_run %s [] %s true' % (cl, listlit([input_lit(inputs[i], loops[i]) for i in comp]))
            key = 'db/%d/%d' % (si, mi)
            payload = {'inputs_in_call_order': [(os.path.basename(inputs[i]['path']), inputs[i]['kind'], inputs[i]['name']) for i in order_in],
                       'requested': {'parallel_mode': mode, 'num_proc': nproc}, 'actually_ran_as': {'parallel_mode': eff[0], 'num_proc': eff[1]},
                       'level': level, 'bits': bits, 'first': first, 'counts': counts, 'params_file': bool(params_file),
                       'observed_completion_order': [inputs[i]['name'] or inputs[i]['kind'] for i in comp],
                       'completion_order_differs_from_submission': reordered,
                       'db_rows': None if db is None else [o['name'] for o in db['rows']], 'run_outcome': r[0] if r[0] == 'ok' else r[1]}
            if r[0] != 'ok':
                pfail(key, 'run() raised in database mode', payload)
                continue
            add_case(key, 'db_eqb (fst (%s)) %s' % (m, db_lit(db)), payload, 'fst (%s)' % m)
            ctx.count(('db', si, mode, nproc, tuple(order_in)), nontrivial=len(bad) > 0 or mi > 0)
            dist['db_runs'] += 1
            rk, ek = '%s/%s' % (mode, nproc), '%s/%s' % eff
            dist['by_requested_mode'][rk] = dist['by_requested_mode'].get(rk, 0) + 1
            dist['by_effective_mode'][ek] = dist['by_effective_mode'].get(ek, 0) + 1
            if reordered:
                dist['completion_order_differs_from_submission'][eff[0]] = dist['completion_order_differs_from_submission'].get(eff[0], 0) + 1
            # the property itself on the implementation: same named fingerprints as the serial reference, and as direct fingerprinting
            rows = [] if db is None else db['rows']
            if reference is None:
                reference = multiset(rows)
                direct = multiset([o for lp in loops if lp and lp[0] == 'ok' for k, col in lp[1] for o in col])
                if reference != direct:
                    pfail(key, 'the serial database differs from direct fingerprinting of the readable inputs', dict(payload, n_db=len(reference), n_direct=len(direct)))
            elif multiset(rows) != reference:
                pfail(key, 'database differs from the serial reference (as a multiset of named rows); requested %s/%s, ran as %s/%s' % (mode, nproc, eff[0], eff[1]), payload)

    # =========================================================================== B. file mode: stale files and crashed runs
    def file_setup(inputs, level, all_iters, bits, first, fp_opts, ext, ref_base, tag='?'):
        """The uninterrupted reference run of a file-mode experiment (serial, fresh directory) and what every later run of the
        same batch is compared with."""
        loops = COV.loops_of(H, inputs, level, bits, first, fp_opts, all_iters)
        levels = [level] if (level == -1 or not all_iters) else list(range(level + 1))
        files = [i['path'] for i in inputs]

        def out_paths(base):
            ps = []
            for i in inputs:
                if i['kind'] == 'good':
                    for k in levels:
                        ps.append((base + ('_complete' if k == -1 else str(k)), i['name'] + ext))
            return ps
        os.makedirs(os.path.dirname(ref_base))
        G.run(files, out_dir_base=ref_base, out_ext=ext, level=level, bits=bits, first=first, all_iters=all_iters, parallel_mode='serial', **fp_opts)
        ref_paths = out_paths(ref_base)
        missing_ref = [p for p in ref_paths if not os.path.isfile(os.path.join(*p))]
        if missing_ref:
            pfail('files/%s/ref' % tag, 'an uninterrupted file-mode run did not write every level file of every readable input',
                  {'inputs': [(os.path.basename(i['path']), i['kind'], i['name']) for i in inputs], 'all_iters': all_iters, 'level': level,
                   'bits': bits, 'first': first, 'fingerprinter_options': fp_opts,
                   'missing': [[p[0][len(ref_base):], p[1]] for p in missing_ref]})
        ref_content = {p[0][len(ref_base):] + '/' + p[1]: PG.read_content(os.path.join(*p)) if os.path.isfile(os.path.join(*p)) else None for p in ref_paths}
        # the saved files hold what direct fingerprinting gives (the model's input), level by level
        for i, lp in zip(inputs, loops):
            if i['kind'] == 'good' and lp and lp[0] == 'ok':
                for k, col in lp[1]:
                    c = ref_content.get(('_complete' if k == -1 else str(k)) + '/' + i['name'] + ext)
                    if c is not None and (c[0] != 'pickled' or multiset(c[1]) != multiset(col)):
                        pfail('files/%s/ref' % tag, 'the file written for %r at level %s does not hold the fingerprints direct fingerprinting gives' % (i['name'], k),
                              {'inputs': [(os.path.basename(x['path']), x['kind'], x['name']) for x in inputs], 'all_iters': all_iters, 'level': level,
                               'bits': bits, 'first': first, 'fingerprinter_options': fp_opts, 'file_content_kind': c[0]})
        return {'loops': loops, 'levels': levels, 'out_paths': out_paths, 'ref_base': ref_base, 'ref_paths': ref_paths, 'ref_content': ref_content,
                'level': level, 'all_iters': all_iters, 'bits': bits, 'first': first, 'fp_opts': fp_opts, 'ext': ext, 'files': files, 'tag': tag}

    def resume_run(key, exp, inputs, base, fs0, flavour, overwrite, run_mode, order_in, extra=None, foreign=(), root=None):
        """One run of the batch over a directory that already holds fs0 = [(path, content)] (outputs of this batch and `foreign` files):
        model case + the property on the implementation.  Returns the state of the directory afterwards as a new fs0 (None: the run raised)."""
        level, all_iters, ext, loops, files = exp['level'], exp['all_iters'], exp['ext'], exp['loops'], exp['files']
        paths = exp['out_paths'](base)
        for p_, _ in fs0:
            os.utime(os.path.join(*p_), ns=(OLD_NS, OLD_NS))              # any later write changes it
        pre = [p_ for p_, _ in fs0]
        before = {p_: sha(os.path.join(*p_)) for p_ in pre}
        r = fpgen.attempt(lambda: G.run([files[i] for i in order_in], out_dir_base=base, out_ext=ext, level=level, bits=exp['bits'], first=exp['first'],
                                        all_iters=all_iters, overwrite=overwrite, parallel_mode=run_mode[0], num_proc=run_mode[1], **exp['fp_opts']))
        after, written, untouched = [], [], []
        watched = paths + [p_ for p_ in foreign if p_ not in paths]
        for p_ in watched:
            fn = os.path.join(*p_)
            if os.path.isfile(fn):
                c = PG.read_content(fn)
                after.append((p_, c))
                if p_ in before and os.stat(fn).st_mtime_ns == OLD_NS and sha(fn) == before[p_]:
                    untouched.append(p_)
                else:
                    written.append(p_)
            else:
                after.append((p_, None))
        norm = set((os.path.normpath(w[0]), w[1]) for w in watched)
        stray = [] if root is None else sorted(os.path.join(dp, f) for dp, _, fs_ in os.walk(root) for f in fs_ if (os.path.normpath(dp), f) not in norm)
        # a half-written molecule: some but not all of its files existed before the run
        by_mol = {}
        for idx, p_ in enumerate(paths):
            by_mol.setdefault(p_[1], []).append(idx)
        half = sum(1 for lst in by_mol.values() if 0 < sum(1 for i_ in lst if paths[i_] in pre) < len(lst))
        dist['half_written_molecules'] += half
        cl = cfg_lit(level, all_iters, base, ext, overwrite)
        il = listlit([COV.input_lit(inputs[i], loops[i], H) for i in order_in])
        m = 'x_run %s %s %s false' % (cl, PG.fs_lit(fs0), il)
        lg = 'x_log %s %s %s' % (cl, PG.fs_lit(fs0), il)
        expr = ('fs_agrees (snd (%s)) %s && paths_subset %s (%s) && paths_subset (%s) %s && paths_disjoint %s (%s)'
                % (m, PG.fs_obs_lit(after), listlit([PG.path_lit(p_) for p_ in written]), lg, lg, listlit([PG.path_lit(p_) for p_ in written]),
                   listlit([PG.path_lit(p_) for p_ in untouched]), lg))
        eff = effective_mode(*run_mode)
        payload = {'inputs': [(os.path.basename(inputs[i]['path']), inputs[i]['kind'], inputs[i]['name']) for i in order_in], 'all_iters': all_iters,
                   'level': level, 'bits': exp['bits'], 'first': exp['first'], 'fingerprinter_options': exp['fp_opts'], 'out_dir_base_tail': base[len(ctx.workdir):],
                   'out_ext': ext, 'overwrite': overwrite, 'requested_mode': run_mode, 'actually_ran_as': eff,
                   'pre_existing': [[p_[0][len(base):], p_[1], c[0]] for p_, c in fs0], 'half_written_molecules': half,
                   'flavour': flavour, 'written': [[p_[0][len(base):], p_[1]] for p_ in written], 'untouched': [[p_[0][len(base):], p_[1]] for p_ in untouched],
                   'after': [[p_[0][len(base):], p_[1], None if c is None else c[0]] for p_, c in after], 'run_outcome': r[0] if r[0] == 'ok' else r[1]}
        payload.update(extra or {})
        add_case(key, expr, payload, '(%s, snd (%s))' % (lg, m))
        ctx.count(('files', key, tuple(pre), flavour, overwrite), nontrivial=0 < len([p_ for p_ in pre if p_ in paths]) < len(paths) or overwrite or flavour != 'stale')
        dist['file_mode_runs'] += 1
        dist['subsets_' + flavour] = dist.get('subsets_' + flavour, 0) + 1
        dist['overwrite_runs'] += 1 if overwrite else 0
        dist['all_iters_runs'] += 1 if all_iters else 0
        dist['foreign_files_checked'] += len(foreign)
        # -- the property on the implementation
        if r[0] != 'ok':
            pfail(key, 'run() raised in file mode', payload)
            return None
        probs = []
        for idx, p_ in enumerate(paths):
            c = dict(after).get(p_)
            refc = exp['ref_content'][p_[0][len(base):] + '/' + p_[1]]
            existed = p_ in pre
            if not overwrite and existed and p_ in written:
                probs.append('existing output %s was rewritten (content or mtime changed) by a no-overwrite run' % (p_,))
            if refc is not None and c is None:
                probs.append('output %s is still missing after the re-run' % (p_,))
            if refc is not None and c is not None and (overwrite or not existed) and c != refc:
                probs.append('output %s differs from the uninterrupted run' % (p_,))
            if overwrite and refc is not None and p_ not in written:
                probs.append('output %s was not regenerated by an overwrite run' % (p_,))
        for p_ in foreign:
            if p_ not in paths and p_ not in untouched:
                probs.append('file %s, which is not an output of this batch, was modified or removed' % (p_,))
        if stray:
            probs.append('the run left files that are neither outputs of the batch nor there before: %s' % stray[:4])
        if probs:
            pfail(key, 'file-mode resume: ' + '; '.join(probs[:3]), dict(payload, problems=probs[:8]))
        return [(p_, c) for p_, c in after if c is not None]

    def file_experiment(tag, n_good, all_iters, level, bad, sample, mode=('serial', None), fp_opts=None, bits=1024, first=None, base_style='plain',
                        foreign=False, rich=False, sequences=1):
        d = os.path.join(ctx.workdir, 'files_%s' % tag)
        if rich:
            inputs = COV.make_batch(ctx, H, d, rng, n_good, specials=bad, confs=(1, 2, 3), cursor='files')
        else:
            inputs = make_inputs(ctx, d, n_good, bad, rng, confs=(2,))
            for i in inputs:
                i['loads'] = i['kind'] in LOADS
        first = rng.choice([1, 2]) if first is None else first
        fp_opts = fp_opts or {}
        ext = rng.choice(['.fp.bz2', '.fp.gz', '.fp.pkl'])
        dist['unnamed_inputs'] += sum(1 for i in inputs if i['kind'] == 'unnamed')
        dist['rejected_inputs'] += sum(1 for i in inputs if i['kind'] in ('rejected', 'noatoms'))
        dist['unreadable_inputs'] += sum(1 for i in inputs if not COV.loads(i, H))
        if fp_opts or bits != 1024:
            dist['file_mode_option_runs'] += 1
        exp = file_setup(inputs, level, all_iters, bits, first, fp_opts, ext, os.path.join(d, 'ref', 'fp'), tag)
        ref_paths = exp['ref_paths']
        all_idx = list(range(len(ref_paths)))
        enumerate_all = len(all_idx) <= (4 if ctx.quick else 6)
        if enumerate_all:
            subsets = [list(s_) for r_ in range(len(all_idx) + 1) for s_ in itertools.combinations(all_idx, r_)]
        else:
            # every crash point of a serial run (the first k outputs, k = 0..n), then random subsets
            subsets = [all_idx[:k] for k in range(len(all_idx) + 1)] + [[i for i in all_idx if rng.random() < 0.5] for _ in range(sample)]
            dist['prefix_crash_points'] += len(all_idx) + 1
        for ui, (sub, flavour) in enumerate([(s_, f) for s_ in subsets for f in ('stale', 'crash')]):
            sub_dir = os.path.join(d, 'r%d' % ui)
            base = {'plain': os.path.join(sub_dir, 'fp'), 'slash': os.path.join(sub_dir, 'out') + '/', 'space': os.path.join(sub_dir, 'my out.v1', 'fp x-')}[base_style]
            os.makedirs(os.path.dirname(base))
            paths = exp['out_paths'](base)
            fs0 = []
            for idx in sub:
                p_ = paths[idx]
                os.makedirs(p_[0], exist_ok=True)
                fn = os.path.join(*p_)
                if flavour == 'stale':
                    open(fn, 'wb').write(PG.SENTINEL % idx)
                    fs0.append((p_, ('sentinel', idx)))
                else:
                    if not os.path.isfile(os.path.join(*ref_paths[idx])):
                        continue
                    shutil.copyfile(os.path.join(*ref_paths[idx]), fn)
                    fs0.append((p_, PG.read_content(fn)))
            fgn = []
            if foreign and paths:
                # files that are not outputs of this batch: another molecule's file in a level directory, a file next to the level directories
                for q in [(paths[0][0], 'OTHER-MOL' + ext), (paths[-1][0], paths[-1][1] + '.bak'), (os.path.dirname(base.rstrip('/')) or base, 'notes.txt')]:
                    os.makedirs(q[0], exist_ok=True)
                    open(os.path.join(*q), 'wb').write(PG.SENTINEL % (900 + len(fgn)))
                    fs0.append((q, ('sentinel', 900 + len(fgn))))
                    fgn.append(q)
            if rich:
                overwrite = ui % 3 == 2
                run_mode = [('serial', None), ('threads', 2), ('processes', 2), ('threads', 3)][ui % 4] if ui % 2 else mode
            else:
                overwrite = flavour == 'stale' and ui % 7 == 3
                run_mode = mode if ui % 5 else rng.choice([('threads', 2), ('processes', 2), ('serial', None)])
            order_in = list(range(len(inputs)))
            if ui % 3 == 1:
                rng.shuffle(order_in)
            key = 'files/%s/%d' % (tag, ui)
            state = resume_run(key, exp, inputs, base, fs0, flavour, overwrite, run_mode, order_in, foreign=fgn, root=sub_dir)
            # run it again: nothing may change; then with overwrite: everything is regenerated; then once more without
            if sequences and state is not None and ui % sequences == 0:
                dist['resume_sequences'] += 1
                for step, ow in (('again', False), ('overwrite', True), ('after-overwrite', False)):
                    rng.shuffle(order_in)
                    state = resume_run('%s/%s' % (key, step), exp, inputs, base, state, 're-run', ow,
                                       rng.choice([('serial', None), ('threads', 2), ('processes', 2)]), list(order_in), foreign=fgn, root=sub_dir)
                    if state is None:
                        break

    if ctx.quick:
        file_experiment('a', 2, True, 1, [], 0, sequences=8)                    # 4 files: all 16 subsets x {stale, crash}
        file_experiment('b', 3, False, 2, ['garbage', 'unnamed'], 0, sequences=5)   # 3 files: all 8 subsets
        file_experiment('c', 3, True, 2, ['missing', 'rejected'], 8, sequences=0)   # 9 files: every prefix + sampled
        file_experiment('d', 2, True, 1, ['empty'], 0, mode=('threads', 2), sequences=0)
        file_experiment('e', 3, False, 2, [], 0, mode=('processes', 2), sequences=0)
        # new: the _complete directory (level -1, with and without all_iters), level 0 with all_iters, options / lengths / first, base names, foreign files
        file_experiment('f', 3, False, -1, ['trunc_mid2'], 0, rich=True, foreign=True, sequences=6)
        file_experiment('g', 2, True, -1, ['noatoms'], 0, rich=True, fp_opts={'counts': True}, bits=-1, first=-1, base_style='slash', sequences=4)
        file_experiment('h', 3, True, 0, ['badgz', 'unnamed'], 0, rich=True, fp_opts={'stereo': False, 'rdkit_invariants': True}, bits=2 ** 32, first=5,
                        base_style='space', foreign=True, sequences=6)
        file_experiment('i', 2, True, 1, ['dir'], 0, rich=True, fp_opts={'counts': True, 'radius_multiplier': 1.5}, bits=4096, first=-1, foreign=True,
                        mode=('processes', 3), sequences=9)
    else:
        file_experiment('a', 2, True, 1, [], 0, sequences=6)
        file_experiment('a2', 2, True, 2, ['empty', 'rejected'], 0, sequences=0)         # 6 files: 64 subsets
        file_experiment('b', 4, False, 2, ['garbage', 'unnamed'], 0, sequences=7)
        file_experiment('b2', 4, False, -1, ['missing', 'empty'], 0, sequences=0)
        file_experiment('c', 4, True, 2, ['missing', 'rejected'], 60, sequences=11)        # 12 files: every prefix + sampled
        file_experiment('d', 3, True, 1, [], 0, mode=('threads', 3), sequences=0)
        file_experiment('e', 3, False, 3, ['garbage'], 0, mode=('processes', 2), sequences=0)
        file_experiment('f', 4, False, -1, ['trunc_mid2', 'binary'], 0, rich=True, foreign=True, sequences=5)
        file_experiment('g', 3, True, -1, ['noatoms'], 0, rich=True, fp_opts={'counts': True}, bits=-1, first=-1, base_style='slash', sequences=4)
        file_experiment('h', 4, True, 0, ['badgz', 'unnamed'], 0, rich=True, fp_opts={'stereo': False, 'rdkit_invariants': True}, bits=2 ** 32, first=5,
                        base_style='space', foreign=True, sequences=6)
        file_experiment('i', 3, True, 1, ['dir', 'onlydollars'], 0, rich=True, fp_opts={'counts': True, 'radius_multiplier': 1.5}, bits=4096, first=-1,
                        foreign=True, mode=('processes', 3), sequences=9)
        file_experiment('j', 5, True, 2, ['badbz2', 'rejected'], 40, rich=True, fp_opts={'include_disconnected': False, 'exclude_floating': False},
                        first=1, mode=('threads', 4), sequences=13)

    # =========================================================================== C. database AND output directory
    d = os.path.join(ctx.workdir, 'both')
    inputs = make_inputs(ctx, d, 3, [], rng, confs=(2,))
    files = [i['path'] for i in inputs]
    base = os.path.join(d, 'o', 'fp')
    os.makedirs(os.path.dirname(base))
    dbf = os.path.join(d, 'both.fpz')
    loops = [direct_loop(i['mol'], i['name'], 1024, 2, False, 2, {}) for i in inputs]
    rows_of = [multiset([o for k, col in lp[1] for o in col]) for lp in loops]
    G.run(files, db_file=dbf, out_dir_base=base, level=2, bits=1024, first=2, parallel_mode='serial')
    db1 = load_db(dbf)
    m1 = 'x_run %s [] %s true' % (cfg_lit(2, False, base, '.fp.bz2', False), listlit([input_lit(i, l) for i, l in zip(inputs, loops)]))
    add_case('both/fresh', 'db_eqb (fst (%s)) %s' % (m1, db_lit(db1)), {'inputs': [i['name'] for i in inputs], 'db_rows': None if db1 is None else [o['name'] for o in db1['rows']]},
             'fst (%s)' % m1)
    ctx.count(('both', 'fresh'), True)
    dist['db_and_files_runs'] += 1
    direct = sorted(sum(rows_of, []))
    if db1 is None or multiset(db1['rows']) != direct:
        pfail('both/fresh', 'run(db_file=..., out_dir_base=...) into a fresh directory: the database differs from direct fingerprinting',
              {'inputs': [i['name'] for i in inputs], 'db_rows': None if db1 is None else [o['name'] for o in db1['rows']]})

    def resumed(tag, victims, keep_db=False):
        """Delete the outputs of `victims` and the database, re-run.  The known finding is reported only for exactly its
        documented outcome: the new database lacks exactly the rows of the skipped molecules (none written if all skipped)."""
        for v in victims:
            os.remove(os.path.join(base + '2', inputs[v]['name'] + '.fp.bz2'))
        fs0 = [((base + '2', i['name'] + '.fp.bz2'), PG.read_content(os.path.join(base + '2', i['name'] + '.fp.bz2')))
               for k, i in enumerate(inputs) if k not in victims]
        if os.path.exists(dbf) and not keep_db:       # keep_db: the database file of the EARLIER run is still there (outputs lost, not a crash)
            os.remove(dbf)
        r2 = fpgen.attempt(lambda: G.run(files, db_file=dbf, out_dir_base=base, level=2, bits=1024, first=2, parallel_mode='serial'))
        if r2[0] != 'ok':
            pfail('both/' + tag, 'run(db_file=..., out_dir_base=...) re-run after an interruption raised %s' % r2[1],
                  {'inputs': [i['name'] for i in inputs], 'deleted_outputs_of': [inputs[v]['name'] for v in victims]})
            return
        db2 = load_db(dbf)
        m = 'x_run %s %s %s true' % (cfg_lit(2, False, base, '.fp.bz2', False), PG.fs_lit(fs0), listlit([input_lit(i, l) for i, l in zip(inputs, loops)]))
        key = 'both/' + tag
        payload = {'inputs': [i['name'] for i in inputs], 'deleted_outputs_of': [inputs[v]['name'] for v in victims], 'db_file_of_earlier_run_kept': keep_db,
                   'db_rows_uninterrupted_run': [o['name'] for o in db1['rows']],
                   'db_rows_resumed_run': None if db2 is None else [o['name'] for o in db2['rows']]}
        ctx.count(('both', tag), True)
        dist['db_and_files_runs'] += 1
        got = [] if db2 is None else multiset(db2['rows'])
        recomputed_only = sorted(sum([rows_of[v] for v in victims], []))
        if got == direct:
            # complete database: the recorded defect does not reproduce on this tree (property-correct outcome); the model, which
            # encodes the defect (Model/Batch.v, witnessed by resumed_db_incomplete), is not consulted for this case
            ctx.notes.append('run:db_file+out_dir_base: the resumed run wrote the COMPLETE database on this tree (recorded defect not reproduced)')
            return
        add_case(key, 'db_eqb (fst (%s)) %s' % (m, db_lit(db2)), payload, 'fst (%s)' % m)
        if got == recomputed_only and len(victims) < len(inputs):
            pfail(key, 'run(db_file=..., out_dir_base=...) re-run after an interruption: molecules whose files already exist are skipped and are missing '
                       'from the database the re-run writes (it holds only the recomputed molecules; none is written when all are skipped)',
                  payload, finding_key=RESUME_DB_KEY)
        else:
            pfail(key, 'run(db_file=..., out_dir_base=...) re-run after an interruption: the database is neither complete nor the recomputed molecules only',
                  payload)
    resumed('resume', [1])
    # the database written by the run above is still in place when the outputs of another molecule get lost and the batch is re-run:
    # what the re-run writes must not depend on the rows an earlier run left in db_file (no row may be stored twice or carried over)
    resumed('resume-db-kept', [2], keep_db=True)
    resumed('resume-db-kept-same', [2], keep_db=True)
    resumed('resume-all-skipped', [])

    # =========================================================================== C2. database-only mode, the same batch again into the SAME db_file
    d = os.path.join(ctx.workdir, 'again')
    inputs = make_inputs(ctx, d, 3, [], rng, confs=(2,))
    files = [i['path'] for i in inputs]
    dbf = os.path.join(d, 'again.fpz')
    loops = [direct_loop(i['mol'], i['name'], 1024, 2, False, 2, {}) for i in inputs]
    direct = sorted(sum([multiset([o for k, col in lp[1] for o in col]) for lp in loops], []))
    cl = cfg_lit(2, False, None, '.fp.bz2', False)
    for ri, (order_in, ow) in enumerate([([0, 1, 2], False), ([2, 0, 1], False), ([1, 2, 0], True), ([0, 2, 1], False)]):
        r = fpgen.attempt(lambda: G.run([files[i] for i in order_in], db_file=dbf, level=2, bits=1024, first=2, parallel_mode='serial', overwrite=ow))
        dbn = load_db(dbf) if r[0] == 'ok' else None
        key = 'again/%d' % ri
        payload = {'inputs_in_call_order': [inputs[i]['name'] for i in order_in], 'run_number_into_the_same_db_file': ri + 1, 'overwrite': ow,
                   'db_rows': None if dbn is None else [o['name'] for o in dbn['rows']], 'run_outcome': r[0] if r[0] == 'ok' else r[1]}
        ctx.count(('again', ri), True)
        dist['db_runs'] += 1
        if r[0] != 'ok' or dbn is None:
            pfail(key, 'run(db_file=...) number %d into the same database file raised or wrote nothing' % (ri + 1), payload)
            continue
        m = 'x_run %s [] %s true' % (cl, listlit([input_lit(inputs[i], loops[i]) for i in order_in]))
        add_case(key, 'db_eqb (fst (%s)) %s' % (m, db_lit(dbn)), payload, 'fst (%s)' % m)
        if multiset(dbn['rows']) != direct:
            pfail(key, 'run(db_file=...) number %d into the same database file: the named fingerprints differ from direct fingerprinting of the batch '
                       '(the result depends on what an earlier run left in db_file)' % (ri + 1), payload)

    # =========================================================================== D. generate_conformers(save=True)
    from e3fp.conformer.generate import generate_conformers
    from e3fp.conformer.util import mol_from_smiles, mol_from_sdf
    smis = [('CCO', 'eth'), ('CC(C)CO', 'ibu-x'), ('CCN', 'amine_a')]
    n_cg = ctx.n(12, 40)
    for ci in range(n_cg):
        cd = os.path.join(ctx.workdir, 'cg%d' % ci)
        os.makedirs(cd)
        overwrite = rng.random() < 0.35
        compress = rng.choice([0, 1, 2])
        ext = ['', '.gz', '.bz2'][compress]
        calls, obs_r = [], []
        fs0 = []
        chosen = rng.sample(smis, rng.choice([2, 3]))
        for k, (smi, nm) in enumerate(chosen):
            p_ = (cd, '%s.sdf%s' % (nm, ext))
            if rng.random() < 0.5:
                open(os.path.join(*p_), 'wb').write(PG.SENTINEL % k)
                os.utime(os.path.join(*p_), ns=(OLD_NS, OLD_NS))
                fs0.append((p_, ('sentinel', k)))
        untouched_ok = True
        after = []
        for k, (smi, nm) in enumerate(chosen):
            p_ = (cd, '%s.sdf%s' % (nm, ext))
            mol = mol_from_smiles(smi, nm)
            r = fpgen.attempt(lambda: generate_conformers(mol, nm, save=True, out_dir=cd, num_conf=2, seed=11, compress=compress, overwrite=overwrite,
                                                          standardise=False))
            obs_r.append(r[0] == 'ok' and r[1] is not False)
            calls.append('(%s, Some (Pickled []))' % PG.path_lit(p_))
        for k, (smi, nm) in enumerate(chosen):
            p_ = (cd, '%s.sdf%s' % (nm, ext))
            fn = os.path.join(*p_)
            if not os.path.isfile(fn):
                after.append((p_, None))
                continue
            c = PG.read_content(fn)
            if c[0] == 'sentinel':
                if os.stat(fn).st_mtime_ns != OLD_NS:
                    untouched_ok = False
                after.append((p_, c))
            else:
                ok_sdf = fpgen.attempt(lambda: mol_from_sdf(fn).GetNumConformers() >= 1)
                after.append((p_, ('pickled', [])) if ok_sdf == ('ok', True) else (p_, ('sentinel', -1)))
        m = 'x_cg_run %s %s %s' % (blit(overwrite), PG.fs_lit(fs0), listlit(calls))
        expr = 'let r := %s in list_eqb Bool.eqb (fst r) %s && fs_agrees (snd r) %s' % (m, listlit([blit(b) for b in obs_r]), PG.fs_obs_lit(after))
        payload = {'molecules': chosen, 'overwrite': overwrite, 'compress': compress, 'pre_existing': [p_[1] for p_, _ in fs0], 'returned_not_False': obs_r,
                   'after': [[p_[1], None if c is None else c[0]] for p_, c in after]}
        add_case('cg/%d' % ci, expr, payload, m)
        ctx.count(('cg', ci, str(payload)), nontrivial=bool(fs0))
        dist['conformer_runs'] += 1
        if not untouched_ok:
            pfail('cg/%d' % ci, 'generate_conformers(save=True, overwrite=False) touched an existing output file', payload)

    # =========================================================================== E-K. coverage extension (props/c15_cov.py)
    env = COV.Env(ctx=ctx, rng=rng, G=G, dist=dist, add_case=add_case, pfail=pfail, file_setup=file_setup, resume_run=resume_run)
    COV.extend(env, H)

    if only is not None:
        cases = [c for c in cases if c[0] == only]
    for k in cases[:1] + [c for c in cases if c[0].startswith('files/')][3:5] + [c for c in cases if c[0].startswith('cg/')][:1]:
        ctx.sample({'case': k[0], 'input_and_implementation_result': payloads[k[0]], 'model_check': k[1][:300]})
    nbad = core.compare_cases(ctx, cases, IMPORTS, 'C15 batch runs', payloads, model_expr=mexpr, shard=12) if (cases or only is None) else 0
    found_input = state['found'] or nbad > 0
    ctx.coverage['rule'] = ('run() on 3-9 SDF files (shipped molecules cut to 2-3 conformers, distinct names; plus unreadable inputs: garbage / empty / missing, a molecule '
                            'the fingerprinter rejects, an unnamed molecule) x requested parallel_mode {serial, threads, processes, default} x num_proc 1-4 (every set has a '
                            'threads and a processes run with >= 2 workers; runs are labelled by the mode python_utilities actually used) x shuffled input order, once through '
                            'run(params=file); database compared with the model in the observed completion order, with the serial reference and with direct fingerprinting; '
                            'file mode: every subset of the output files (<= 4 files quick, <= 6 thorough; sampled above) pre-created as stale sentinel files or as copies from a '
                            'finished run (a crashed run, including half-written all_iters molecules), with/without overwrite, both all_iters settings, SHA-256 + mtime_ns of EVERY '
                            'pre-existing file before/after; generate_conformers(save=True) with pre-existing files.  Non-trivial: a non-serial or shuffled db run or one with '
                            'special inputs; a proper non-empty subset of pre-existing files or overwrite.'
                            '  EXTENSION (props/c15_cov.py): every fingerprinter option run() passes through x call form (keywords, positional, parameter file with all / some '
                            'keys, ConfigParser object), bits -1, all_iters with a database only; batches with 0 / 1 / only unreadable inputs, a directory as input, a tuple, '
                            'num_proc None and larger than the batch, every permutation of a 4-file batch, EVERY subset of a 4-5 file batch replaced by unreadable files of 10 kinds '
                            '(truncated, wrong compression, binary, directory, ...), unnamed molecules in database mode, names with punctuation / white space / case twins, batches of '
                            '8-14 files, main(), the same batch A-B-A in one process; file mode also for level -1 (with and without all_iters), level 0 + all_iters, counts / stereo / '
                            'invariants / radius options, bits -1 / 2^32 / 4096, first -1 / 5, base names with a trailing slash or spaces, files that are not outputs of the batch '
                            '(must stay untouched; nothing else may appear), every serial crash point for the sampled experiments, overwrite on crashed and stale states in every mode, '
                            'and the sequence resume -> run again (nothing changes) -> overwrite (all regenerated) -> run again; REAL interruptions (forked child killed before its '
                            '(k+1)-th write, every k serial, some k threads) then resume; database + directory runs in every mode with all_iters / options, their overwrite re-run '
                            '(database complete again) and resumed re-run; generate_conformers with explicit out_file, name from the molecule, compress None / invalid, a failing '
                            'generation; conformer.generate.run() over a SMILES file with pre-existing outputs in every mode.')
    ctx.coverage['input_distribution'] = dist
    ctx.assumptions += [
        'PARTIAL: the order in which a thread/process pool completes jobs and the atomicity of a file write are the runtime\'s; the theorems quantify over every '
        'completion order and every per-molecule prefix of whole-file writes, the correspondence runs the pools that python_utilities offers without MPI; how often '
        'the observed completion order differed from the submission order is counted in input_distribution.completion_order_differs_from_submission',
        'a file truncated by a crash in the middle of a write exists for os.path.isfile and is kept by a no-overwrite re-run like any existing file (resume_preserves); '
        'whether it is a complete pickle is outside a model of whole-file writes',
        'inputs carry distinct molecule names (hypothesis NoDup (saved_names order)); shared_path_schedule_dependent shows what happens otherwise',
        'the per-input conformer-loop result is an input of the model (computed in the harness by direct Fingerprinter use); its relation to the molecule is C14 '
        '(worker_is_entry_point ties the two models)',
        'workers act on the directory one after the other in completion order in the model: adequate for concurrent workers because output paths are disjoint',
        'FingerprintDatabase.add_fingerprints / savez / load are model M3 (C05, C08); here rows are compared through db[i]']
    ctx.coverage['trusted_base'] = ['premises left in Properties/C15.v: disjoint + wf_job (files_schedule_independent, resume_completes, overwrite_regenerates, crash_then_resume*), '
                                    'complete (resume_completes), none for resume_preserves; each is derived for run() by worker_refines_job / jobs_disjoint from level_ok and '
                                    'NoDup (saved_names order); c_base = None for the db theorems (db_with_files_partial extends them to fresh db+files runs)']
    if not ok and only is None:
        core.report_broken_proof(ctx, res, found_input)


def replay(ctx, path):
    """Re-run the recorded case on both sides (same seed and tier => same generated inputs); exit 1 + VIOLATION if it still fails."""
    return PG.replay_case(ctx, path, run)
