"""C15 coverage extension (part module of c15.py; see work/coverage_C15.md for the audit table).

Streams added here (all driven from c15.run through `extend`):
  E  opt/...     every Fingerprinter option that run() passes through (stereo, radius_multiplier, include_disconnected,
                 rdkit_invariants, exclude_floating, remove_duplicate_substructs, counts), bits = -1, all_iters with a database
                 only, in every call form (keywords, all-positional, parameter file with all / some keys, ConfigParser object)
  F  shape/...   batch shapes: no input, one input, only unreadable inputs, a directory as the single input, tuple of files,
                 num_proc None / larger than the batch, every permutation of a small batch, EVERY subset of the inputs replaced
                 by an unreadable file (10 kinds of unreadable), unnamed molecule in database mode, names with punctuation,
                 larger batches with queueing, the command line entry point main(), the same batch A-B-A in one process
  H  crash/...   a REAL interruption: the batch runs in a forked child that dies (os._exit) when the (k+1)-th output file is
                 about to be written, for every k (serial) and for some k under threads; the parent resumes
  K  cgx/...     generate_conformers(save=True): explicit out_file, name taken from the molecule, compress None / invalid,
                 generation failure; conformer.generate.run() as a batch over a SMILES file with pre-existing outputs
The helpers of c15.py are reached through the module object `H` handed in (no import cycle)."""
import itertools
import os
import shutil
import sys
import threading

import core
import fpgen
import pipe_gen as PG
from core import strlit, listlit, blit

# names with punctuation / white space / case twins / a leading delimiter; none ends in _<digits> (outside the quantifier: the
# conformer suffix is parsed off such a name, C14) - a trailing -<digits> is the pipeline's own protonation-state suffix and is in
PUNCT_NAMES = ['my mol', '  lead', 'say"hi', 'a*b', '.dot', 'ünï', 'Lig', 'lig', 'LIG7', 'LIG7-3', 'a+b', 'x(1)', 'N,N-di', "q'z", 'p%q', 'a.b.c',
               'x#1', 'a&b;c', '-5', '_', '0', 'a=b', '[x]', '{y}', 'a@b', 'a!b~c', 'a|b', 'x_', 'a-1_', '_1']
UNREADABLE_KINDS = ('garbage', 'empty', 'missing', 'trunc_mid1', 'trunc_mid2', 'badgz', 'badbz2', 'binary', 'dir', 'onlydollars')
OPTION_DEFAULTS = {'counts': False, 'stereo': True, 'radius_multiplier': 1.718, 'include_disconnected': True,
                   'rdkit_invariants': False, 'exclude_floating': True, 'remove_duplicate_substructs': True}
_CACHE = {}
_CURSOR = {'db': 0, 'files': 0}


def extra_mols():
    """[(tag, mol)] small molecules embedded from SMILES with a fixed seed (4 conformers, explicit H): a salt with a floating
    ion (exclude_floating matters), a chiral centre (stereo matters), an isotope label, a tiny one and a ring."""
    if 'extra' not in _CACHE:
        from rdkit import Chem
        from rdkit.Chem import AllChem
        out = []
        for tag, smi in [('salt', 'CC(=O)[O-].[Na+]'), ('ala', 'C[C@H](N)C(=O)O'), ('hdo', '[2H]OCC'), ('etoh', 'CCO'),
                         ('phenol', 'c1ccccc1O'), ('twofrag', 'CCN.OC=O')]:
            m = Chem.AddHs(Chem.MolFromSmiles(smi))
            ids = list(AllChem.EmbedMultipleConfs(m, 4, randomSeed=11))
            if len(ids) >= 3:
                m.SetProp('_Name', tag)
                out.append((tag, m))
        _CACHE['extra'] = out
    return _CACHE['extra']


def mol_pool():
    return [(t, m) for t, m in PG.shipped_mols() if m.GetNumConformers() >= 3] + extra_mols()


def write_special(d, k, kind, rng):
    """Write one special input of `kind` into d.  Returns the entry dict of c15.make_inputs (path, kind, name, mol, tag, loads)."""
    from e3fp.conformer.util import mol_to_sdf, mol_from_sdf
    ext = {'badgz': '.sdf.gz', 'badbz2': '.sdf.bz2'}.get(kind, '.sdf')
    fn = os.path.join(d, 'odd%d_%s%s' % (k, kind, ext))
    tag, base = mol_pool()[k % 5]
    tmp = os.path.join(d, '_tmpl%d.txt' % k)
    mol_to_sdf(PG.make_mol(base, 3, 'tmpl%d' % k), tmp + '.sdf')
    raw = open(tmp + '.sdf', 'rb').read()
    os.remove(tmp + '.sdf')
    recs = raw.split(b'$$$$\n')
    if kind == 'trunc_mid1':            # cut inside the first record
        open(fn, 'wb').write(recs[0][:len(recs[0]) // 2])
    elif kind == 'trunc_mid2':          # one whole record, the second one cut (a copy that stopped half way)
        open(fn, 'wb').write(recs[0] + b'$$$$\n' + recs[1][:len(recs[1]) // 2])
    elif kind in ('badgz', 'badbz2'):   # compressed extension, content is not compressed
        open(fn, 'wb').write(raw)
    elif kind == 'binary':
        open(fn, 'wb').write(bytes(rng.randrange(256) for _ in range(600)))
    elif kind == 'dir':
        os.makedirs(fn)
    elif kind == 'onlydollars':
        open(fn, 'wb').write(b'$$$$\n')
    elif kind == 'noatoms':             # parses, no atom: the fingerprinter rejects it
        open(fn, 'wb').write(('noat%d\n  RDKit          3D\n\n  0  0  0  0  0  0  0  0  0  0999 V2000\nM  END\n$$$$\n' % k).encode())
    else:
        raise ValueError(kind)
    ent = {'path': fn, 'kind': kind, 'name': None, 'mol': None, 'tag': kind, 'loads': False}
    r = fpgen.attempt(lambda: mol_from_sdf(fn))
    if r[0] == 'ok' and r[1] is not None:
        ent.update(loads=True, mol=r[1], name=PG.mol_name(r[1]) or '')
    return ent


def eff_bits(bits):
    from e3fp.fingerprint.fprinter import BITS
    return int(BITS) if bits in (-1, None) else bits


def loads(inp, H):
    return inp.get('loads', inp['kind'] in H.LOADS)


def input_lit(inp, loop, H):
    """Like c15.input_lit, for every kind; an exception class of the conformer loop outside the model's `err` type is printed as
    EOther (the model treats every exception of the loop alike: `except Exception: return {}`)."""
    if not loads(inp, H):
        return 'Fails'
    if loop[0] == 'err':
        tag = loop[1] if not loop[1].startswith('EUnexpected_') else 'EOther'
        body = '(Raises %s)' % tag
    else:
        body = '(Ok %s)' % PG.dict_lit(loop[1])
    return '(Loads %s %s)' % (core.optlit(inp['name'] or None, strlit), body)


def order_of_rows(inputs, loops, db, H):
    """Indices of `inputs` in the order in which their rows appear in the database; inputs without rows first.  Rows without a
    name belong to the (single) unnamed input."""
    seen = []
    unnamed = [i for i, inp in enumerate(inputs) if loads(inp, H) and not inp['name']]
    if db is not None:
        for o in db['rows']:
            if o['name'] is None:
                if len(unnamed) == 1 and unnamed[0] not in seen:
                    seen.append(unnamed[0])
                continue
            stem = o['name'].rsplit('_', 1)[0]
            for idx, inp in enumerate(inputs):
                if loads(inp, H) and inp['name'] and inp['name'] == stem:
                    if idx not in seen:
                        seen.append(idx)
                    break
    return [i for i in range(len(inputs)) if i not in seen] + seen


def make_batch(ctx, H, d, rng, n_good, specials=(), names=None, confs=(1, 2, 3), pool=None, unnamed_good=False, mols=None, cursor='db'):
    """Inputs for the new streams: n_good readable molecules (pool: shipped + embedded SMILES), names from PUNCT_NAMES + c15.NAMES,
    then the specials (kinds of c15.make_inputs or of write_special)."""
    from e3fp.conformer.util import mol_to_sdf, mol_from_sdf
    os.makedirs(d, exist_ok=True)
    pool = pool or mol_pool()
    if not names:
        # names are dealt in a fixed order (one cursor for the file-writing streams, one for the database streams) so that every
        # name is used in every run whatever the seed; the molecules they go with are random
        allnames = PUNCT_NAMES + H.PROTO_NAMES + H.NAMES
        c = _CURSOR[cursor]
        names = [allnames[(c + k) % len(allnames)] for k in range(n_good)]
        _CURSOR[cursor] = (c + n_good) % len(allnames)
    out = []
    for k in range(n_good):
        tag, base = mols[k] if mols else pool[(k + rng.randrange(len(pool))) % len(pool)]
        nm = names[k]
        if unnamed_good and k == 0:
            nm = ''
        mol = PG.make_mol(base, rng.choice(confs), nm)
        fn = os.path.join(d, 'in%d_%s.sdf%s' % (k, tag, rng.choice(['', '.bz2', '.gz'])))
        mol_to_sdf(mol, fn)
        out.append({'path': fn, 'kind': 'good' if nm else 'unnamed', 'name': nm, 'mol': mol_from_sdf(fn), 'tag': tag, 'loads': True})
    legacy = [s for s in specials if s in ('garbage', 'empty', 'missing', 'rejected', 'unnamed')]
    if legacy:
        for ent in H.make_inputs(ctx, os.path.join(d, 'legacy'), 0, legacy, rng):
            ent['loads'] = ent['kind'] in H.LOADS
            out.append(ent)
    for k, kind in enumerate(s for s in specials if s not in legacy):
        out.append(write_special(d, k, kind, rng))
    return out


_LOOPS = {}


def loops_of(H, inputs, level, bits, first, fp_opts, all_iters):
    """The direct conformer-loop result of every input (None for one that does not load); cached per file and setting."""
    out = []
    for i in inputs:
        if not loads(i, H):
            out.append(None)
            continue
        k = (i['path'], level, bits, first, tuple(sorted(fp_opts.items())), all_iters)
        if k not in _LOOPS:
            _LOOPS[k] = H.direct_loop(i['mol'], i['name'], eff_bits(bits), level, all_iters, first, fp_opts)
        out.append(_LOOPS[k])
    return out


# ====================================================================================================================
class Env(object):
    """What c15.run hands over: ctx, rng, add_case(key, expr, payload, model_out), pfail(key, what, payload, finding_key), dist, G."""
    def __init__(self, **kw):
        self.__dict__.update(kw)


def db_case(env, H, key, inputs, order_in, level, bits, first, fp_opts, mode=('serial', None), all_iters=False, call=None,
            form='keywords', reference=None, extra_payload=None, nontrivial=True):
    """One database-mode run of G.run over inputs[order_in] -> model case + the property on the implementation (database = direct
    fingerprinting of the readable inputs as a multiset of named rows; = `reference` if given).  Returns the multiset (None: raised).
    call: a function(files, dbf) that performs the run in another call form (the parameters must mean the same)."""
    ctx, G = env.ctx, env.G
    loops = loops_of(H, inputs, level, bits, first, fp_opts, all_iters)
    files = [inputs[i]['path'] for i in order_in]
    d = os.path.dirname(inputs[0]['path']) if inputs else env.ctx.workdir
    dbf = os.path.join(d, 'out_%s.fpz' % key.replace('/', '_'))
    if os.path.exists(dbf):
        os.remove(dbf)
    if call is None:
        kw = dict(fp_opts)
        call = lambda fl, db_: G.run(fl, db_file=db_, level=level, bits=bits, first=first, all_iters=all_iters,
                                     parallel_mode=mode[0], num_proc=mode[1], **kw)
    r = fpgen.attempt(lambda: call(files, dbf))
    db = H.load_db(dbf) if r[0] == 'ok' else None
    sub = [inputs[i] for i in order_in]
    perm = order_of_rows(sub, [loops[i] for i in order_in], db, H)
    comp = [order_in[p] for p in perm]
    eff = H.effective_mode(*mode)
    m = 'x_run %s [] %s true' % (H.cfg_lit(level, all_iters, None, '.fp.bz2', False), listlit([input_lit(inputs[i], loops[i], H) for i in comp]))
    payload = {'inputs_in_call_order': [(os.path.basename(inputs[i]['path']), inputs[i]['kind'], inputs[i]['name']) for i in order_in],
               'requested': {'parallel_mode': mode[0], 'num_proc': mode[1]}, 'actually_ran_as': {'parallel_mode': eff[0], 'num_proc': eff[1]},
               'level': level, 'bits': bits, 'first': first, 'all_iters': all_iters, 'fingerprinter_options': fp_opts, 'call_form': form,
               'observed_completion_order': [inputs[i]['name'] or inputs[i]['kind'] for i in comp],
               'db_rows': None if db is None else [o['name'] for o in db['rows']], 'run_outcome': r[0] if r[0] == 'ok' else r[1]}
    payload.update(extra_payload or {})
    if r[0] != 'ok':
        env.pfail(key, 'run() raised in database mode (%s)' % form, payload)
        return None
    env.add_case(key, 'db_eqb (fst (%s)) %s' % (m, H.db_lit(db)), payload, 'fst (%s)' % m)
    ctx.count(('dbx', key, form, mode, tuple(order_in)), nontrivial=nontrivial)
    ek = '%s/%s' % eff
    env.dist['by_effective_mode'][ek] = env.dist['by_effective_mode'].get(ek, 0) + 1
    with_rows = [i for i in comp if loops[i] and loops[i][0] == 'ok' and any(col for k, col in loops[i][1])]
    if form != 'directory' and with_rows != [i for i in order_in if i in with_rows]:
        env.dist['completion_order_differs_from_submission'][eff[0]] = env.dist['completion_order_differs_from_submission'].get(eff[0], 0) + 1
    rows = H.multiset([] if db is None else db['rows'])
    want_level = level
    direct = H.multiset([o for i in order_in if loops[i] and loops[i][0] == 'ok' for k, col in loops[i][1] if k == want_level for o in col])
    if rows != direct:
        env.pfail(key, 'the database differs from direct fingerprinting of the readable inputs (multiset of named rows); call form %s, requested %s/%s, '
                       'ran as %s/%s' % (form, mode[0], mode[1], eff[0], eff[1]), dict(payload, n_db=len(rows), n_direct=len(direct)))
    if reference is not None and rows != reference:
        env.pfail(key, 'the database differs from the reference run of the same batch (multiset of named rows); call form %s, requested %s/%s'
                  % (form, mode[0], mode[1]), payload)
    return rows


def params_text(level, bits, first, fp_opts, keys=None):
    vals = dict(OPTION_DEFAULTS)
    vals.update(fp_opts)
    vals.update(level=level, bits=bits, first=first)
    keys = keys or list(vals)
    return '[fingerprinting]\n' + ''.join('%s = %r\n' % (k, vals[k]) for k in keys)


def stream_options(env, H):
    """E. every option run() hands to the fingerprinter, in every call form."""
    ctx, rng, G, dist = env.ctx, env.rng, env.G, env.dist
    singles = [{'stereo': False}, {'radius_multiplier': 1.5}, {'include_disconnected': False}, {'rdkit_invariants': True},
               {'exclude_floating': False}, {'remove_duplicate_substructs': False}, {'counts': True}]
    combos = [{'counts': True, 'stereo': False, 'rdkit_invariants': True},
              {'radius_multiplier': 2.25, 'exclude_floating': False, 'include_disconnected': False},
              {'remove_duplicate_substructs': False, 'counts': True, 'radius_multiplier': 1.25}]
    settings = singles + combos[:ctx.n(1, 3)]
    for _ in range(ctx.n(0, 14)):
        o = {}
        for k in rng.sample(sorted(OPTION_DEFAULTS), rng.choice([2, 3, 4])):
            o[k] = rng.choice([1.25, 1.5, 2.0, 2.25]) if k == 'radius_multiplier' else (not OPTION_DEFAULTS[k])
        settings.append(o)
    forms = ['keywords', 'params-all', 'positional', 'params-some', 'params-object']
    pool = mol_pool()
    by_tag = dict(pool)
    for si, opts in enumerate(settings):
        d = os.path.join(ctx.workdir, 'opt%d' % si)
        # the salt (floating ion), the chiral amino acid and one shipped molecule are always in: every option changes some fingerprint
        chosen = ([('salt', by_tag['salt']), ('ala', by_tag['ala'])] if 'salt' in by_tag and 'ala' in by_tag else pool[5:7]) + [pool[rng.randrange(5)]]
        inputs = make_batch(ctx, H, d, rng, len(chosen), specials=[rng.choice(['garbage', 'trunc_mid2', 'noatoms'])], confs=(2, 3), mols=chosen)
        remdup = opts.get('remove_duplicate_substructs', True)
        level = rng.choice([2, 3, 0] + ([-1] if remdup else []))
        bits = rng.choice([1024, 4096, -1, 2 ** 32])
        first = rng.choice([1, 2, -1, 5])
        all_iters = (si % 3 == 2)
        full = dict(OPTION_DEFAULTS)
        full.update(opts)
        # does the option setting change anything on this batch?  (direct fingerprints under the defaults)
        lo = loops_of(H, inputs, level, bits, first, opts, all_iters)
        ld = loops_of(H, inputs, level, bits, first, {}, all_iters)
        changes = H.multiset([o for lp in lo if lp and lp[0] == 'ok' for k, col in lp[1] for o in col]) != \
            H.multiset([o for lp in ld if lp and lp[0] == 'ok' for k, col in lp[1] for o in col])
        dist['option_settings'] += 1
        dist['option_setting_changes_fingerprints'] += 1 if changes else 0
        for k in opts:
            dist['by_option'][k] = dist['by_option'].get(k, 0) + 1
        reference = None
        run_forms = [['keywords', 'positional'][si % 2], ['params-all', 'params-some', 'params-object'][si % 3]] if ctx.quick else forms
        for fi, form in enumerate(run_forms):
            mode = [('serial', None), ('threads', 2), ('processes', 2), ('threads', 3), ('processes', 3)][(si + fi) % 5] if fi else ('serial', None)
            order_in = list(range(len(inputs)))
            if fi:
                rng.shuffle(order_in)
            wrong = dict((k, (1.0 if k == 'radius_multiplier' else (not v))) for k, v in full.items())     # contradicting keywords
            if form == 'keywords':
                call = None
            elif form == 'positional':
                # run(sdf_files, bits, first, level, radius_multiplier, counts, stereo, include_disconnected, rdkit_invariants,
                #     exclude_floating, remove_duplicate_substructs, params, out_dir_base, out_ext, db_file, overwrite, all_iters, log, num_proc, parallel_mode)
                call = lambda fl, db_, mode=mode: G.run(fl, bits, first, level, full['radius_multiplier'], full['counts'], full['stereo'],
                                                        full['include_disconnected'], full['rdkit_invariants'], full['exclude_floating'],
                                                        full['remove_duplicate_substructs'], None, None, '.fp.bz2', db_, False, all_iters, None,
                                                        mode[1], mode[0])
            else:
                pf = os.path.join(d, 'params_%d.cfg' % fi)
                keys = None
                if form == 'params-some':         # only the non-default options are in the file: the rest comes from the package defaults
                    keys = ['level', 'bits', 'first'] + sorted(opts)
                open(pf, 'w').write(params_text(level, bits, first, opts, keys))
                if form == 'params-object':
                    from e3fp.config.params import read_params
                    pobj = read_params(pf, fill_defaults=True)
                else:
                    pobj = pf
                call = lambda fl, db_, mode=mode, pobj=pobj: G.run(fl, db_file=db_, params=pobj, level=0, bits=32, first=1, all_iters=all_iters,
                                                                   parallel_mode=mode[0], num_proc=mode[1], **wrong)
            dist['call_forms'][form] = dist['call_forms'].get(form, 0) + 1
            rows = db_case(env, H, 'opt/%d/%d' % (si, fi), inputs, order_in, level, bits, first, opts, mode=mode, all_iters=all_iters, call=call,
                           form=form, reference=reference, extra_payload={'option_setting_changes_fingerprints': changes})
            if reference is None:
                reference = rows
            dist['db_runs'] += 1


def stream_shapes(env, H):
    """F. batch shapes, worker counts, permutations, every subset unreadable, names, main(), A-B-A."""
    ctx, rng, G, dist = env.ctx, env.rng, env.G, env.dist
    MODES = [('serial', None), ('threads', 2), ('processes', 2), ('threads', 4), ('processes', 3)]
    # ---- F1 degenerate batches in every mode
    d = os.path.join(ctx.workdir, 'shape1')
    inputs = make_batch(ctx, H, d, rng, 2, specials=['garbage', 'trunc_mid1', 'badgz'])
    goods, bads = [0, 1], [2, 3, 4]
    for mi, mode in enumerate(MODES[:ctx.n(3, 5)]):
        for tag, order in (('none', []), ('one', [rng.choice(goods)]), ('allbad', bads if mi % 2 else bads[:2]), ('onebad', [rng.choice(bads)])):
            db_case(env, H, 'shape/%s/%d' % (tag, mi), inputs, order, 2, 1024, 2, {}, mode=mode, form='keywords')
            dist['degenerate_batches'][tag] = dist['degenerate_batches'].get(tag, 0) + 1
            dist['db_runs'] += 1
    # tuple of files
    db_case(env, H, 'shape/tuple', inputs, [1, 2, 0], 2, 1024, 2, {}, call=lambda fl, db_: G.run(tuple(fl), db_file=db_, level=2, bits=1024, first=2, parallel_mode='serial'),
            form='tuple-of-files')
    dist['db_runs'] += 1
    # NumPy scalars for every numeric / boolean argument
    import numpy as np
    db_case(env, H, 'shape/numpy-args', inputs, [0, 3, 1], 2, 1024, 2, {'counts': True, 'stereo': False, 'radius_multiplier': 1.5}, form='numpy-scalars', mode=('threads', 2),
            call=lambda fl, db_: G.run(fl, db_file=db_, level=np.int32(2), bits=np.int64(1024), first=np.int64(2), counts=np.bool_(True), stereo=np.bool_(False),
                                       radius_multiplier=np.float64(1.5), parallel_mode='threads', num_proc=np.int64(2)))
    dist['call_forms']['numpy-scalars'] = dist['call_forms'].get('numpy-scalars', 0) + 1
    dist['db_runs'] += 1
    # ---- F2 a directory as the single input: every file whose name contains 'sdf' is taken, in directory order
    d = os.path.join(ctx.workdir, 'shape2')
    inputs = make_batch(ctx, H, d, rng, 3, specials=['binary', 'onlydollars'])
    for mi, mode in enumerate(MODES[:ctx.n(2, 5)]):
        db_case(env, H, 'shape/dir/%d' % mi, inputs, list(range(len(inputs))), 3, 1024, -1, {}, mode=mode, form='directory',
                call=lambda fl, db_, mode=mode: G.run([d], db_file=db_, level=3, bits=1024, first=-1, parallel_mode=mode[0], num_proc=mode[1]))
        dist['directory_input_runs'] += 1
        dist['db_runs'] += 1
    # ---- F3 worker counts: None (all processors), more workers than inputs, default mode without a count
    d = os.path.join(ctx.workdir, 'shape3')
    inputs = make_batch(ctx, H, d, rng, 3, specials=['missing'])
    ref = None
    for mi, mode in enumerate([('serial', None), ('threads', None), ('processes', None), (None, None), ('threads', 8), ('processes', 9), (None, 1), ('serial', 5)][:ctx.n(8, 8)]):
        order = list(range(len(inputs)))
        rng.shuffle(order)
        rows = db_case(env, H, 'shape/nproc/%d' % mi, inputs, order, 2, 4096, 2, {'counts': True}, mode=mode, reference=ref)
        ref = ref or rows
        k = '%s/%s' % mode
        dist['by_requested_mode'][k] = dist['by_requested_mode'].get(k, 0) + 1
        dist['db_runs'] += 1
    # ---- F4 every permutation of a 3-file batch + one unreadable file at every position
    d = os.path.join(ctx.workdir, 'shape4')
    inputs = make_batch(ctx, H, d, rng, 3, specials=['empty'])
    ref = None
    for pi, perm in enumerate(itertools.permutations(range(4))):
        if ctx.quick and pi % 2:
            continue
        rows = db_case(env, H, 'shape/perm/%d' % pi, inputs, list(perm), 2, 1024, 1, {}, mode=MODES[pi % 3] if pi % 4 == 0 else ('serial', None), reference=ref)
        ref = ref or rows
        dist['permutation_runs'] += 1
        dist['db_runs'] += 1
    # ---- F5 EVERY subset of the inputs replaced by an unreadable file (the property's fault quantifier)
    d = os.path.join(ctx.workdir, 'shape5')
    n = ctx.n(4, 5)
    inputs = make_batch(ctx, H, d, rng, n, confs=(1, 2))
    full = db_case(env, H, 'shape/subset/full', inputs, list(range(n)), 2, 1024, 2, {})
    loops_full = loops_of(H, inputs, 2, 1024, 2, {}, False)
    kinds, kc = list(UNREADABLE_KINDS), [0]
    for si, sub in enumerate(s for r_ in range(1, n + 1) for s in itertools.combinations(range(n), r_)):
        dd = os.path.join(ctx.workdir, 'shape5_%d' % si)
        os.makedirs(dd)
        batch = []
        for i in range(n):
            if i in sub:
                kind = kinds[kc[0] % len(kinds)]
                kc[0] += 1
                if kind in ('garbage', 'empty', 'missing'):
                    ent = H.make_inputs(ctx, os.path.join(dd, 'l%d' % i), 0, [kind], rng)[0]
                    ent['loads'] = False
                else:
                    ent = write_special(dd, i, kind, rng)
                dist['unreadable_by_kind'][kind] = dist['unreadable_by_kind'].get(kind, 0) + 1
                dist['unreadable_inputs'] += 1
                batch.append(ent)
            else:
                batch.append(inputs[i])
        order = list(range(n))
        if si % 2:
            rng.shuffle(order)
        rows = db_case(env, H, 'shape/subset/%d' % si, batch, order, 2, 1024, 2, {}, mode=MODES[si % len(MODES)],
                       extra_payload={'replaced_by_unreadable': [inputs[i]['name'] for i in sub]})
        dist['subset_unreadable_runs'] += 1
        dist['db_runs'] += 1
        # failure isolation stated on the implementation alone: the others' rows are exactly their rows of the all-readable run
        if rows is not None and full is not None:
            keep = set(inputs[i]['name'] for i in range(n) if i not in sub)
            want = sorted(r_ for r_ in full if r_[0].rsplit('_', 1)[0] in keep)
            if rows != want:
                env.pfail('shape/subset/%d' % si, 'replacing a subset of the inputs by unreadable files changed the fingerprints of the other inputs',
                          {'replaced': [inputs[i]['name'] for i in sub], 'rows_now': [r_[0] for r_ in rows], 'rows_expected': [r_[0] for r_ in want]})
    # ---- F6 an unnamed molecule in database mode (rows without a name), names with punctuation, larger batches (queueing)
    for bi in range(ctx.n(2, 6)):
        d = os.path.join(ctx.workdir, 'shape6_%d' % bi)
        nb = ctx.n(8, 14) if bi == 0 else rng.choice([3, 4, 5])
        inputs = make_batch(ctx, H, d, rng, nb, specials=[rng.choice(['rejected', 'noatoms']), rng.choice(UNREADABLE_KINDS)], confs=(1, 2, 3), unnamed_good=(bi % 2 == 1))
        ref = None
        level, bits, first = rng.choice([1, 2, -1]), rng.choice([1024, 2 ** 32]), rng.choice([1, 2, -1])
        for mi, mode in enumerate([('serial', None), ('threads', 3), ('processes', 4), ('threads', 2)][:ctx.n(3, 4)]):
            order = list(range(len(inputs)))
            if mi:
                rng.shuffle(order)
            rows = db_case(env, H, 'shape/names/%d/%d' % (bi, mi), inputs, order, level, bits, first, {}, mode=mode, reference=ref)
            ref = ref or rows
            dist['db_runs'] += 1
            dist['unnamed_inputs'] += 1 if bi % 2 == 1 else 0
        dist['largest_batch'] = max(dist['largest_batch'], len(inputs))
        for i in inputs:
            if i['kind'] == 'good' and i['name'] in PUNCT_NAMES:
                dist['punctuation_names'] += 1
    # ---- F7 the command line entry point main() (argparse -> run(**kwargs))
    d = os.path.join(ctx.workdir, 'shape7')
    inputs = make_batch(ctx, H, d, rng, 3, specials=['garbage'], confs=(3,))

    def cli(fl, db_, extra=()):
        old = sys.argv
        sys.argv = ['e3fp-fingerprint'] + list(fl) + ['-b', '2048', '-m', '2', '--first', '2', '-d', db_, '--parallel_mode', 'serial'] + list(extra)
        try:
            G.main()
        finally:
            sys.argv = old
    db_case(env, H, 'shape/cli/0', inputs, [2, 0, 3, 1], 2, 2048, 2, {}, call=cli, form='main()')
    db_case(env, H, 'shape/cli/1', inputs, [0, 1, 2, 3], 2, 2048, 2, {}, call=lambda fl, db_: cli(fl, db_, ['-p', '2', '--parallel_mode', 'threads']), form='main()',
            mode=('threads', 2))
    dist['cli_runs'] += 2
    dist['db_runs'] += 2
    # ---- F8 the same batch with parameters A, then B, then A again in one process (module state must not leak between runs)
    for ai in range(ctx.n(2, 5)):
        d = os.path.join(ctx.workdir, 'shape8_%d' % ai)
        inputs = make_batch(ctx, H, d, rng, 3, specials=['rejected'])
        A = (rng.choice([2, 3]), 1024, 2, {'counts': False})
        B = (rng.choice([0, 1, -1]), rng.choice([4096, 2 ** 32]), rng.choice([1, -1]), {'counts': True, 'stereo': False})
        mode = [('serial', None), ('threads', 2), ('processes', 2)][ai % 3]
        order = list(range(len(inputs)))
        first_rows = db_case(env, H, 'shape/aba/%d/0' % ai, inputs, order, A[0], A[1], A[2], A[3], mode=mode)
        db_case(env, H, 'shape/aba/%d/1' % ai, inputs, order, B[0], B[1], B[2], B[3], mode=mode)
        db_case(env, H, 'shape/aba/%d/2' % ai, inputs, order, A[0], A[1], A[2], A[3], mode=mode, reference=first_rows)
        dist['aba_sequences'] += 1
        dist['db_runs'] += 3


# ====================================================================================================================
def crashed_run(G, files, k, mode, kwargs):
    """Run the batch in a forked child that dies when its (k+1)-th output file is about to be written (k whole files exist then).
    Writes are serialised by a lock held across the real savez, so no file is half-written at the moment of death."""
    sys.stdout.flush()
    sys.stderr.flush()
    pid = os.fork()
    if pid == 0:
        code = 0
        try:
            import e3fp.fingerprint.fprint as FP
            real, lock, done = FP.savez, threading.Lock(), [0]

            def savez(*a, **kw):
                with lock:
                    if done[0] >= k:
                        os._exit(17)
                    done[0] += 1
                    return real(*a, **kw)
            FP.savez = savez
            G.run(files, parallel_mode=mode[0], num_proc=mode[1], **kwargs)
        except BaseException:
            code = 3
        finally:
            os._exit(code)
    _, status = os.waitpid(pid, 0)
    return os.WEXITSTATUS(status) if os.WIFEXITED(status) else -1


def stream_crash(env, H):
    """H. real interruptions, then resume."""
    ctx, rng, G, dist = env.ctx, env.rng, env.G, env.dist
    plans = [('s', 3, True, 1, ('serial', None)), ('t', 3, False, 2, ('threads', 2))]
    if not ctx.quick:
        plans += [('s2', 4, True, 2, ('serial', None)), ('t2', 4, True, 1, ('threads', 3)), ('s3', 4, False, -1, ('serial', None))]
    for tag, n_good, all_iters, level, crash_mode in plans:
        d = os.path.join(ctx.workdir, 'crash_%s' % tag)
        inputs = make_batch(ctx, H, d, rng, n_good, specials=['garbage'], confs=(2,), cursor='files')
        ext = rng.choice(['.fp.bz2', '.fp.gz', '.fp.pkl'])
        bits, first = 1024, 2
        exp = env.file_setup(inputs, level, all_iters, bits, first, {}, ext, os.path.join(d, 'ref', 'fp'))
        n_files = len(exp['ref_paths'])
        ks = list(range(n_files + 1)) if (crash_mode[0] == 'serial' or not ctx.quick) else sorted(rng.sample(range(1, n_files), min(3, n_files - 1)))
        for k in ks:
            base = os.path.join(d, 'k%d' % k, 'fp')
            os.makedirs(os.path.dirname(base))
            files = [i['path'] for i in inputs]
            code = crashed_run(G, files, k, crash_mode, dict(out_dir_base=base, out_ext=ext, level=level, bits=bits, first=first, all_iters=all_iters))
            paths = exp['out_paths'](base)
            present = [p_ for p_ in paths if os.path.isfile(os.path.join(*p_))]
            key = 'crash/%s/%d' % (tag, k)
            info = {'crash_after_k_writes': k, 'crashed_run_mode': crash_mode, 'child_exit_code': code, 'all_iters': all_iters, 'level': level, 'out_ext': ext,
                    'present_after_crash': [[p_[0][len(base):], p_[1]] for p_ in present]}
            if code not in (0, 17) or len(present) != min(k, n_files) or (code == 0) != (k >= n_files):
                env.pfail(key, 'harness: the interrupted child run did not leave exactly k whole output files (exit code %s, %d files, k = %d of %d)'
                          % (code, len(present), k, n_files), info)
                continue
            if crash_mode[0] == 'serial' and present != paths[:k]:
                env.pfail(key, 'a serial run interrupted after k writes did not leave the first k outputs in input order', info)
            fs0 = [(p_, PG.read_content(os.path.join(*p_))) for p_ in present]
            resume_mode = [('serial', None), ('threads', 2), ('processes', 2)][k % 3]
            order_in = list(range(len(inputs)))
            if k % 2:
                rng.shuffle(order_in)
            env.resume_run(key, exp, inputs, base, fs0, "real-crash", False, resume_mode, order_in, extra=info, root=os.path.dirname(base))
            dist['real_crash_runs'] += 1
            dist['real_crash_by_mode'][crash_mode[0]] = dist['real_crash_by_mode'].get(crash_mode[0], 0) + 1


# ====================================================================================================================
def quiet_stderr(f):
    """fpgen.attempt(f) with the process's stderr (RDKit's C++ parser messages for the unparsable SMILES line) sent to /dev/null."""
    sys.stderr.flush()
    saved, null = os.dup(2), os.open(os.devnull, os.O_WRONLY)
    os.dup2(null, 2)
    try:
        return fpgen.attempt(f)
    finally:
        os.dup2(saved, 2)
        os.close(saved)
        os.close(null)


def stream_conformers(env, H):
    """K. generate_conformers(save=True) beyond the default out_file; conformer.generate.run() as a batch."""
    ctx, rng, dist = env.ctx, env.rng, env.dist
    from e3fp.conformer import generate as CG
    from e3fp.conformer.util import mol_from_smiles, mol_from_sdf
    smis = [('CCO', 'eth'), ('CC(C)CO', 'ibu-x'), ('CCN', 'amine a'), ('OCCO', 'LIG7-0'), ('CCOC', 'LIG7-1'), ('CC(N)C', 'p.q+r')]

    def sdf_ok(fn):
        return fpgen.attempt(lambda: mol_from_sdf(fn).GetNumConformers() >= 1) == ('ok', True)

    def classify(p_):
        fn = os.path.join(*p_)
        if not os.path.isfile(fn):
            return None
        c = PG.read_content(fn)
        if c[0] == 'sentinel':
            return c
        return ('pickled', []) if sdf_ok(fn) else ('sentinel', -1)
    # ---- K1 single calls
    for ci in range(ctx.n(14, 50)):
        cd = os.path.join(ctx.workdir, 'cgx%d' % ci)
        os.makedirs(cd)
        overwrite = (ci // 7) % 2 == 1          # every call form without and with overwrite
        form = ['out_file', 'name-from-mol', 'compress-none', 'compress-invalid', 'fails', 'name-arg', 'positional-name'][ci % 7]
        chosen = rng.sample(smis, 2)
        fs0, calls, obs_r, paths, meta = [], [], [], [], []
        for k, (smi, nm) in enumerate(chosen):
            compress = rng.choice([0, 1, 2])
            kw = dict(save=True, out_dir=cd, num_conf=2, seed=11, overwrite=overwrite, standardise=False)
            if form == 'out_file':
                p_ = (cd, 'custom %d.out%s' % (k, ['', '.gz', '.bz2'][compress]))
                kw.update(out_file=os.path.join(*p_), compress=rng.choice([0, 1, 2, None]), name=nm)
            elif form == 'compress-none':
                p_ = (cd, '%s.sdf' % nm)
                kw.update(compress=None, name=nm)
            elif form == 'compress-invalid':
                p_ = (cd, '%s.sdf' % nm)
                kw.update(compress=rng.choice([3, -1, 7]), name=nm)
            else:
                p_ = (cd, '%s.sdf%s' % (nm, ['', '.gz', '.bz2'][compress]))
                kw.update(compress=compress)
                if form in ('name-arg', 'fails'):
                    kw.update(name=nm)
            fails = form == 'fails' and k == 1
            if fails:
                kw.update(forcefield='no-such-forcefield')        # ConformerGenerator raises: nothing may be written
            pre = (k == 0 or rng.random() < 0.5) and not fails      # the first output always exists already
            if pre:
                open(os.path.join(*p_), 'wb').write(PG.SENTINEL % k)
                os.utime(os.path.join(*p_), ns=(H.OLD_NS, H.OLD_NS))
                fs0.append((p_, ('sentinel', k)))
            mol = mol_from_smiles(smi, nm)
            if form == 'positional-name':
                r = fpgen.attempt(lambda: CG.generate_conformers(mol, nm, **kw))
            else:
                r = fpgen.attempt(lambda: CG.generate_conformers(mol, **kw))
            obs_r.append(r[0] == 'ok' and r[1] is not False)
            calls.append('(%s, %s)' % (PG.path_lit(p_), 'None' if fails else 'Some (Pickled [])'))
            paths.append(p_)
            meta.append({'smiles': smi, 'name': nm, 'file': p_[1], 'pre_existing': pre, 'kwargs': {k_: v for k_, v in kw.items() if k_ != 'out_dir'},
                         'outcome': r[0] if r[0] != 'ok' else ('False' if r[1] is False else 'tuple')})
        after = [(p_, classify(p_)) for p_ in paths]
        touched = [p_[1] for p_, c in fs0 if not overwrite and (os.stat(os.path.join(*p_)).st_mtime_ns != H.OLD_NS)]
        stray = sorted(f for f in os.listdir(cd) if (cd, f) not in paths)
        m = 'x_cg_run %s %s %s' % (blit(overwrite), PG.fs_lit(fs0), listlit(calls))
        expr = 'let r := %s in list_eqb Bool.eqb (fst r) %s && fs_agrees (snd r) %s' % (m, listlit([blit(b) for b in obs_r]), PG.fs_obs_lit(after))
        payload = {'call_form': form, 'overwrite': overwrite, 'calls': meta, 'returned_not_False': obs_r, 'after': [[p_[1], None if c is None else c[0]] for p_, c in after],
                   'other_files_in_out_dir': stray}
        key = 'cgx/%d' % ci
        env.add_case(key, expr, payload, m)
        ctx.count(('cgx', ci, form, overwrite, str(meta)), nontrivial=True)
        dist['conformer_runs'] += 1
        dist['conformer_call_forms'][form] = dist['conformer_call_forms'].get(form, 0) + 1
        if touched:
            env.pfail(key, 'generate_conformers(save=True, overwrite=False) touched an existing output file: %s' % touched, payload)
        if stray:
            env.pfail(key, 'generate_conformers(save=True) wrote a file other than the requested output: %s' % stray, payload)
    # ---- K2 the conformer batch driver over a SMILES file
    from rdkit import RDLogger
    RDLogger.DisableLog('rdApp.*')
    for bi in range(ctx.n(4, 12)):
        cd = os.path.join(ctx.workdir, 'cgrun%d' % bi)
        os.makedirs(cd)
        out = os.path.join(cd, 'confs')
        chosen = rng.sample(smis, rng.choice([3, 4]))
        smi_file = os.path.join(cd, 'in.smi')
        bad_line = bi % 2 == 1
        open(smi_file, 'w').write(''.join('%s %s\n' % (s, n.replace(' ', '_')) for s, n in chosen) + ('C1CC notasmiles\n' if bad_line else ''))
        chosen = [(s, n.replace(' ', '_')) for s, n in chosen]
        overwrite = bi % 2 == 0 and bi > 0
        compress = rng.choice([0, 1, 2])
        ext = ['', '.gz', '.bz2'][compress]
        mode = [('serial', None), ('threads', 2), ('processes', 2), ('threads', 3)][bi % 4]
        os.makedirs(out)
        fs0 = []
        for k, (smi, nm) in enumerate(chosen):
            if k == 0 or rng.random() < 0.5:
                p_ = (out, '%s.sdf%s' % (nm, ext))
                open(os.path.join(*p_), 'wb').write(PG.SENTINEL % k)
                os.utime(os.path.join(*p_), ns=(H.OLD_NS, H.OLD_NS))
                fs0.append((p_, ('sentinel', k)))
        r = quiet_stderr(lambda: CG.run(smiles=[smi_file], out_dir=out, num_conf=2, seed=11, compress=compress, overwrite=overwrite, standardise=False,
                                        prioritize=(bi % 3 == 0), parallel_mode=mode[0], num_proc=mode[1]))
        paths = [(out, '%s.sdf%s' % (nm, ext)) for smi, nm in chosen]
        after = [(p_, classify(p_)) for p_ in paths]
        calls = ['(%s, Some (Pickled []))' % PG.path_lit(p_) for p_ in paths]
        m = 'x_cg_run %s %s %s' % (blit(overwrite), PG.fs_lit(fs0), listlit(calls))
        expr = 'fs_agrees (snd (%s)) %s' % (m, PG.fs_obs_lit(after))
        touched = [p_[1] for p_, c in fs0 if not overwrite and os.stat(os.path.join(*p_)).st_mtime_ns != H.OLD_NS]
        payload = {'smiles_file': chosen, 'unparsable_line': bad_line, 'overwrite': overwrite, 'compress': compress, 'requested_mode': mode, 'prioritize': bi % 3 == 0,
                   'pre_existing': [p_[1] for p_, _ in fs0], 'after': [[p_[1], None if c is None else c[0]] for p_, c in after],
                   'run_outcome': r[0] if r[0] == 'ok' else r[1]}
        key = 'cgrun/%d' % bi
        env.add_case(key, expr, payload, m)
        ctx.count(('cgrun', bi, str(payload)), nontrivial=True)
        dist['conformer_batch_runs'] += 1
        if r[0] != 'ok':
            env.pfail(key, 'conformer.generate.run() raised', payload)
        elif touched:
            env.pfail(key, 'conformer.generate.run(overwrite=False) touched an existing output file: %s' % touched, payload)


# ====================================================================================================================
def stream_both(env, H):
    """C2. database AND output directory in one run: parallel modes, all_iters, options, unreadable inputs; then an overwrite re-run
    (database complete again, every file regenerated), then a no-overwrite re-run after deleting some outputs (the known finding,
    gated on its exact outcome)."""
    ctx, rng, G, dist = env.ctx, env.rng, env.G, env.dist
    for bi in range(ctx.n(4, 12)):
        d = os.path.join(ctx.workdir, 'both%d' % bi)
        inputs = make_batch(ctx, H, d, rng, 3, specials=[rng.choice(['garbage', 'rejected', 'trunc_mid1', 'noatoms'])], confs=(1, 2), cursor='files')
        all_iters = bi % 2 == 1
        level = rng.choice([1, 2]) if all_iters else rng.choice([2, -1, 0])
        opts = [{}, {'counts': True}, {'stereo': False}, {'counts': True, 'rdkit_invariants': True}][bi % 4]
        bits, first = rng.choice([1024, 4096]), rng.choice([1, 2, -1])
        ext = rng.choice(['.fp.bz2', '.fp.gz', '.fp.pkl'])
        mode = [('serial', None), ('threads', 2), ('processes', 2), ('threads', 3)][bi % 4]
        loops = loops_of(H, inputs, level, bits, first, opts, all_iters)
        levels = [level] if (level == -1 or not all_iters) else list(range(level + 1))
        base = os.path.join(d, 'o', 'fp')
        os.makedirs(os.path.dirname(base))
        dbf = os.path.join(d, 'both.fpz')
        paths = [(base + ('_complete' if k == -1 else str(k)), i['name'] + ext) for i in inputs if i['kind'] == 'good' for k in levels]
        direct = H.multiset([o for lp in loops if lp and lp[0] == 'ok' for k, col in lp[1] if k == level for o in col])
        rows_by_input = [H.multiset([o for k, col in lp[1] if k == level for o in col]) if lp and lp[0] == 'ok' else [] for lp in loops]

        def one(tag, overwrite, fs0, run_mode, expect_complete, victims=None):
            key = 'bothx/%d/%s' % (bi, tag)
            if os.path.exists(dbf):
                os.remove(dbf)
            for p_, _ in fs0:
                os.utime(os.path.join(*p_), ns=(H.OLD_NS, H.OLD_NS))
            order_in = list(range(len(inputs)))
            rng.shuffle(order_in)
            r = fpgen.attempt(lambda: G.run([inputs[i]['path'] for i in order_in], db_file=dbf, out_dir_base=base, out_ext=ext, level=level, bits=bits, first=first,
                                            all_iters=all_iters, overwrite=overwrite, parallel_mode=run_mode[0], num_proc=run_mode[1], **opts))
            db = H.load_db(dbf) if r[0] == 'ok' else None
            perm = order_of_rows([inputs[i] for i in order_in], None, db, H)
            comp = [order_in[p] for p in perm]
            m = 'x_run %s %s %s true' % (H.cfg_lit(level, all_iters, base, ext, overwrite), PG.fs_lit(fs0), listlit([input_lit(inputs[i], loops[i], H) for i in comp]))
            after = [(p_, PG.read_content(os.path.join(*p_)) if os.path.isfile(os.path.join(*p_)) else None) for p_ in paths]
            payload = {'inputs_in_call_order': [(os.path.basename(inputs[i]['path']), inputs[i]['kind'], inputs[i]['name']) for i in order_in], 'step': tag,
                       'level': level, 'all_iters': all_iters, 'bits': bits, 'first': first, 'fingerprinter_options': opts, 'out_ext': ext, 'overwrite': overwrite,
                       'requested_mode': run_mode, 'pre_existing': [[p_[0][len(base):], p_[1]] for p_, _ in fs0],
                       'deleted_outputs_of': None if victims is None else [inputs[v]['name'] for v in victims],
                       'db_rows': None if db is None else [o['name'] for o in db['rows']], 'run_outcome': r[0] if r[0] == 'ok' else r[1],
                       'files_after': [[p_[0][len(base):], p_[1], None if c is None else c[0]] for p_, c in after]}
            if r[0] != 'ok':
                env.pfail(key, 'run(db_file=..., out_dir_base=...) raised', payload)
                return None
            got_now = H.multiset([] if db is None else db['rows'])
            if expect_complete or got_now != direct:
                # (a resumed run that writes the COMPLETE database is the property-correct outcome; the model encodes the recorded defect
                # there and is not consulted for that case - the file checks below still apply)
                env.add_case(key, 'let r := %s in db_eqb (fst r) %s && fs_agrees (snd r) %s' % (m, H.db_lit(db), PG.fs_obs_lit(after)), payload, m)
            ctx.count(('bothx', bi, tag), True)
            dist['db_and_files_runs'] += 1
            dist['both_runs_by_kind'][tag] = dist['both_runs_by_kind'].get(tag, 0) + 1
            got = H.multiset([] if db is None else db['rows'])
            missing = [p_ for p_, c in after if c is None]
            if missing:
                env.pfail(key, 'run(db_file=..., out_dir_base=...) left outputs missing: %s' % missing[:3], payload)
            if overwrite:
                same = [p_ for p_, _ in fs0 if os.path.isfile(os.path.join(*p_)) and os.stat(os.path.join(*p_)).st_mtime_ns == H.OLD_NS]
                if same:
                    env.pfail(key, 'an overwrite run did not regenerate %s' % same[:3], payload)
            else:
                changed = [p_ for p_, c in fs0 if os.stat(os.path.join(*p_)).st_mtime_ns != H.OLD_NS or PG.read_content(os.path.join(*p_)) != c]
                if changed:
                    env.pfail(key, 'a no-overwrite run rewrote existing outputs %s' % changed[:3], payload)
            if got == direct:
                return [(p_, c) for p_, c in after if c is not None]
            if expect_complete:
                env.pfail(key, 'run(db_file=..., out_dir_base=...), %s: the database differs from direct fingerprinting of the readable inputs' % tag, payload)
            else:
                recomputed_only = sorted(sum([rows_by_input[v] for v in victims], []))
                if got == recomputed_only and len(victims) < len([i for i in inputs if i['kind'] == 'good']):
                    env.pfail(key, 'run(db_file=..., out_dir_base=...) re-run after an interruption: molecules whose files already exist are skipped and are missing '
                                   'from the database the re-run writes (it holds only the recomputed molecules; none is written when all are skipped)',
                              payload, finding_key=H.RESUME_DB_KEY)
                else:
                    env.pfail(key, 'run(db_file=..., out_dir_base=...) re-run after an interruption: the database is neither complete nor the recomputed molecules only',
                              payload)
            return [(p_, c) for p_, c in after if c is not None]
        state = one('fresh', False, [], mode, True)
        if state is None:
            continue
        state = one('overwrite-rerun', True, state, [('serial', None), ('processes', 2), ('threads', 2)][bi % 3], True)
        if state is None:
            continue
        goods = [k for k, i in enumerate(inputs) if i['kind'] == 'good']
        victims = sorted(rng.sample(goods, rng.choice([1, 2])))
        keep = []
        for p_, c in state:
            if any(p_[1] == inputs[v]['name'] + ext for v in victims) and (not all_iters or rng.random() < 0.7):
                os.remove(os.path.join(*p_))
            else:
                keep.append((p_, c))
        # a molecule counts as recomputed when at least one of its files is gone
        gone = [v for v in victims if any(not os.path.isfile(os.path.join(*p_)) for p_ in paths if p_[1] == inputs[v]['name'] + ext)]
        one('resume', False, keep, mode, False, victims=gone)


def new_dist():
    return {'option_settings': 0, 'option_setting_changes_fingerprints': 0, 'by_option': {}, 'call_forms': {}, 'degenerate_batches': {},
            'directory_input_runs': 0, 'permutation_runs': 0, 'subset_unreadable_runs': 0, 'unreadable_by_kind': {}, 'largest_batch': 0,
            'punctuation_names': 0, 'cli_runs': 0, 'aba_sequences': 0, 'real_crash_runs': 0, 'real_crash_by_mode': {}, 'conformer_call_forms': {},
            'conformer_batch_runs': 0, 'resume_sequences': 0, 'foreign_files_checked': 0, 'file_mode_option_runs': 0, 'prefix_crash_points': 0,
            'both_runs_by_kind': {}}


def extend(env, H):
    _LOOPS.clear()
    _CURSOR['db'] = 0
    stream_options(env, H)
    stream_shapes(env, H)
    stream_both(env, H)
    stream_crash(env, H)
    stream_conformers(env, H)
