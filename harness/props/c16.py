"""C16 - a database refuses incompatible input atomically (model M3: coq/theories/Model/Db.v, Properties/C16.v).

Fault enumeration: for every base history, every fault kind at every position of a batch of 1-5, applied to the live
databases; the implementation must raise and every live database must be observably identical before and after
(checked directly), and the model must agree on the exception class and on the full state (checked in Coq)."""
import core
import dbgen
import fpgen
from props import c16_cov


def _state(h):
    if not h.steps:
        return []
    live = h.steps[-1]['live']
    if [lo['h'] for lo in live] != list(h.live):      # the set of observed handles was changed since the last step (c16_cov.ensure_live / drop_live)
        live = h.observe()
    return [(lo['h'], dbgen.db_lit(lo['db']), str(lo['items']), lo['eq']) for lo in live]


def run(ctx):
    ok, res = core.proof_step(ctx)
    dbgen.set_workdir(ctx.workdir)
    rng = ctx.rng
    found_input = False
    dist = {'base_histories': 0, 'fault_ops': 0, 'by_fault': {}, 'batch_sizes': {}, 'positions': {}, 'impl_refused': 0, 'kinds': {}}
    hists = {}

    def fault(h, kind, pos, f):
        """Run one faulty operation; check refusal and atomicity directly on the implementation."""
        nonlocal found_input
        before = _state(h)
        live_before = list(h.live)
        snap_before = c16_cov.snap_live(h)       # dtype / shape / container types too; read without calling a method of the database
        r = f()
        dist['fault_ops'] += 1
        dist['by_fault'][kind] = dist['by_fault'].get(kind, 0) + 1
        dist['positions'][pos] = dist['positions'].get(pos, 0) + 1
        st = h.steps[-1]
        ctx.count((kind, pos, st['lit'][:400]), True)
        if r[0] != 'err':
            found_input = True
            ctx.fail('incompatible input was accepted (%s at position %s)' % (kind, pos),
                     {'history': dbgen.steps_json(h.steps)[-3:], 'fault': kind, 'position': pos, 'ops': dbgen.descs_of(h.steps)},
                     finding_key='accepted:' + kind)
            return
        dist['impl_refused'] += 1
        after = [x for x in _state(h) if x[0] in live_before]
        snap_after = [x for x in c16_cov.snap_live(h) if x[0] in live_before]
        if after != before or h.live != live_before or snap_after != snap_before:
            found_input = True
            ctx.fail('database changed by a refused operation (%s at position %s)' % (kind, pos),
                     {'history': dbgen.steps_json(h.steps)[-2:], 'fault': kind, 'position': pos, 'ops': dbgen.descs_of(h.steps)},
                     finding_key='not-atomic:' + kind)

    for i in range(ctx.n(50, 500)):
        h = dbgen.History(rng, schema=[('p%d' % j, rng.choice(['int', 'float', 'bool', 'str'])) for j in range(rng.choice([0, 1, 2, 3]))])
        h.warmup()
        for _ in range(rng.choice([0, 1, 2, 4, 6])):
            h.rand_step()
        dist['base_histories'] += 1
        h.MAX_LIVE = 60          # nothing is evicted from observation during the fault phase: a refused operation that changed its target must be seen
        nonempty = [g for g in h.live if h.pool[g].fp_num > 0]
        while not nonempty:
            h.op_new(rng.choice(dbgen.KINDS), h.level)
            h.op_add(h.live[-1], h.batch(h.live[-1], 2))
            nonempty = [g for g in h.live if h.pool[g].fp_num > 0]
        t = rng.choice(nonempty)
        d = h.pool[t]
        dk = dbgen.kind_of_type(d.fp_type)
        dist['kinds'][dk] = dist['kinds'].get(dk, 0) + 1
        n = rng.choice([1, 2, 3, 4, 5])
        dist['batch_sizes'][n] = dist['batch_sizes'].get(n, 0) + 1
        other_bits = rng.choice([b for b in (8, 16, 1024, 2 ** 32) if b != d.bits])
        other_level = rng.choice([l for l in (-1, 5, 0, None) if l != d.level])
        targets = [t]
        if rng.random() < 0.5:          # also an empty database: the first fingerprint decides the length
            h.op_new(dk, d.level)
            targets.append(h.live[-1])
            if rng.random() < 0.5:      # ... with property columns declared before the first addition
                h.op_set_prop(h.live[-1], 'decl', [], ty=rng.choice(['int', 'str']))
        for tt in targets:
            dd = h.pool[tt]
            empty = dd.fp_num == 0
            for pos in range(n):
                if empty and pos == 0:
                    kinds = ['level']                      # position 0 defines the length of an empty database
                else:
                    kinds = ['bits', 'level', 'level+bits']
                declared = len(dd.props) > 0
                has_cols = declared or (empty and len(h.schema) > 0)
                if has_cols and not (empty and pos == 0 and not declared):
                    kinds.append('missing_prop')
                for kind in kinds:
                    batch = h.batch(tt, n, own=rng.random() < 0.7)
                    good = batch[pos]
                    k = good['obs']['kind']
                    bits = rng.choice([b for b in (8, 16, 1024, 2 ** 32) if b != good['obs']['bits']]) if 'bits' in kind else good['obs']['bits']
                    level = rng.choice([l for l in (-1, 5, 0, None) if l != good['obs']['level']]) if 'level' in kind else good['obs']['level']
                    props = list(good['props'])
                    if kind == 'missing_prop':
                        needed = [j for j, (kk, _) in enumerate(props) if kk != 'extra']
                        if not needed:
                            continue
                        props.pop(rng.choice(needed))
                    batch[pos] = dbgen.make_fp(rng, k, bits, level, good['obs']['name'], props)
                    fault(h, 'add:' + kind + (':empty-db' if empty else ''), pos, lambda: h.op_add(tt, batch, tag='add_fault'))
            fault(h, 'add:empty-batch', 0, lambda: h.op_add(tt, [], tag='add_fault'))
        # property arrays of the wrong length
        for ln in sorted(set([0, max(0, d.fp_num - 1), d.fp_num + 1, d.fp_num + 3]) - {d.fp_num}):
            key = rng.choice([k for k, _ in h.schema] + ['q'])
            fault(h, 'set_prop:len', ln, lambda: h.op_set_prop(t, key, [1] * ln, tag='set_prop_fault'))
        # property arrays whose ELEMENT count equals the row count but whose first dimension does not (2-D arrays): "a property array
        # of its own row count" is about rows.  Outside the model (columns are 1-D there): refusal and atomicity are checked on the
        # implementation directly; the database object is untouched when the check passes, so model and implementation stay in step.
        import numpy as np
        n_rows = d.fp_num
        shapes = [(1, n_rows)] if n_rows >= 2 else []
        shapes += [(r, n_rows // r) for r in (2, 3) if n_rows % r == 0 and n_rows // r >= 1 and r != n_rows]
        if n_rows == 1:
            shapes.append(())            # a 0-d array has one element and no rows
        for shp in shapes:
            key = rng.choice([k for k, _ in h.schema] + ['q2'])
            arr = np.arange(n_rows).reshape(shp)
            before = _state(h)
            try:
                d.set_prop(key, arr)
                accepted = True
            except Exception:
                accepted = False
            dist['fault_ops'] += 1
            dist['by_fault']['set_prop:2d-shape'] = dist['by_fault'].get('set_prop:2d-shape', 0) + 1
            ctx.count(('set_prop:2d-shape', shp, n_rows, key in d.props), True)
            if accepted:
                found_input = True
                ctx.fail('a property array with %d rows was accepted by a database of %d rows (shape %r has the right number of ELEMENTS)' % (shp[0] if shp else 0, n_rows, shp),
                         {'fault': 'set_prop:2d-shape', 'shape': list(shp), 'rows': n_rows, 'key': key, 'ops': dbgen.descs_of(h.steps)}, finding_key='accepted:set_prop:2d-shape')
                break
            if _state(h) != before:
                found_input = True
                ctx.fail('database changed by a refused set_prop (2-D array of shape %r)' % (shp,), {'fault': 'set_prop:2d-shape', 'shape': list(shp), 'rows': n_rows, 'key': key,
                         'ops': dbgen.descs_of(h.steps)}, finding_key='not-atomic:set_prop:2d-shape')
                break
        ncols = rng.choice([1, 2, 3])
        for pos in range(ncols):
            colnames = rng.sample([k for k, _ in h.schema] + ['u0', 'u1', 'u2'], ncols)
            cols = [(colnames[j], [rng.choice([0, 1, 2])] * (d.fp_num if j != pos else d.fp_num + rng.choice([-1, 1, 2]))) for j in range(ncols)]
            fault(h, 'update_props:len', pos, lambda: h.op_update_props(t, cols, tag='update_props_fault'))
        # update_props(append=True): fresh columns mixed with extensions of stored columns, the faulty one at every position
        if not d.props:
            h.op_set_prop(t, 'ex0', list(range(d.fp_num)))
        stored = list(d.props.keys())
        for ncols in (1, 2, 3):
            for pos in range(ncols):
                for fkind in ('extend-nonempty', 'fresh-len'):
                    cols = []
                    for j in range(ncols):
                        if j == pos:
                            if fkind == 'extend-nonempty':
                                k = rng.choice(stored)
                                ty = h.col_type(t, k, [])
                                cols.append((k, [dbgen.rand_props(rng, [(k, ty)])[0][1] for _ in range(rng.choice([1, 2, d.fp_num]))]))
                            else:
                                cols.append(('w%d' % j, [1] * (d.fp_num + rng.choice([-1, 1, 2]))))
                        else:
                            free = [x for x in stored if x not in [c[0] for c in cols]]
                            if j == 0 or rng.random() < 0.5 or not free:
                                cols.append(('w%d' % j, [rng.choice([0, 1, 2])] * d.fp_num))      # good fresh column
                            else:
                                cols.append((rng.choice(free), []))                                # good: extended by nothing
                    if len(set(k for k, _ in cols)) < len(cols):
                        continue
                    fault(h, 'update_props:append:' + fkind, pos, lambda: h.op_update_props(t, cols, tag='update_props_fault', append=True))
        # concatenation with one incompatible operand at every position
        aliens = {}
        r = h.op_as_type(t, rng.choice([k for k in dbgen.KINDS if k != dk]), True)
        if r[0] == 'ok':
            aliens['type'] = len(h.pool) - 1
        nb = d.bits // 2 if d.bits >= 2 else None
        if nb:
            r = h.op_fold(t, nb)
            if r[0] == 'ok':
                aliens['bits'] = len(h.pool) - 1
        r = h.op_from_array(dk, other_level, d.bits, False, dk, [[(0, 1)]], ['z'], [(k, [dbgen.rand_props(rng, [(k, ty)])[0][1]]) for k, ty in
                                                                                    [(kk, {'i': 'int', 'f': 'float', 'b': 'bool', 'U': 'str'}[vv.dtype.kind]) for kk, vv in d.props.items()]])
        if r[0] == 'ok':
            aliens['level'] = len(h.pool) - 1
        r = h.op_copy(t)
        if r[0] == 'ok':
            c = len(h.pool) - 1
            r2 = h.op_set_prop(c, 'only_here', list(range(d.fp_num)))
            if r2[0] == 'ok':
                aliens['props'] = c
        m = rng.choice([2, 3, 4])
        for what_, a in aliens.items():
            for pos in range(m):
                hs = [t] * m
                hs[pos] = a
                fault(h, 'concat:' + what_, pos, lambda: h.op_concat(hs, plus=(m == 2 and rng.random() < 0.3), tag='concat_fault'))
        # from_array with a property column of the wrong length
        fault(h, 'from_array:props-len', 0, lambda: h.op_from_array(dk, d.level, d.bits, False, dk, [[(0, 1)], [(1, 1)]], ['a', None], [('p', [1, 2, 3])]))
        for nm in (['a'], ['a', None, 'b'], []):
            fault(h, 'from_array:names-len', len(nm), lambda: h.op_from_array(dk, d.level, d.bits, False, dk, [[(0, 1)], [(1, 1)]], nm, []))
        # ---- coverage extension (props/c16_cov.py; table in work/coverage_C16.md)
        env = c16_cov.Env(ctx, h, dist, fault)
        c16_cov.extra_add_faults(env, t)
        c16_cov.empty_targets(env, t)
        more_aliens = c16_cov.concat_more(env, t)
        c16_cov.from_array_more(env, t)
        c16_cov.direct_prop_faults(env, t)
        c16_cov.direct_add_faults(env, t)
        c16_cov.direct_large_batches(env, t)
        c16_cov.direct_concat_forms(env, t, dict(aliens, **more_aliens))
        c16_cov.direct_from_array(env, t)
        c16_cov.derived_targets(env, t)
        c16_cov.tail(env, t)
        c16_cov.direct_seq_valued_props(env, t)
        found_input = found_input or env.found
        hists['c16-%d' % i] = h
        if i < 3:
            lastf = [s for s in h.steps if s['tag'].endswith('_fault')]
            if lastf:
                ctx.sample({'history': 'c16-%d' % i, 'a_fault_op': lastf[len(lastf) // 2]['op'], 'implementation': lastf[len(lastf) // 2]['res'][1]})
    ctx.count(None, False, 0)
    nbad = dbgen.check_histories(ctx, hists, 'C16 fault histories',
                                 finding_key_of=lambda h, st: 'model-vs-impl:%s' % (st['tag'] if st else 'history'))
    found_input = found_input or nbad > 0
    ctx.coverage['evaluations'] = dist['fault_ops']
    ctx.coverage['rule'] = ('one evaluation = one faulty operation (add with a wrong-length / wrong-level / both / property-less fingerprint at '
                            'every position of a batch of 1-5, on a filled and on an empty database; empty batch; set_prop / update_props with a '
                            'wrong-length column at every position; concat with an operand of other type / bits / level / property columns at every '
                            'position of 2-4; update_props(append=True) mixing good fresh columns, stored columns extended by nothing and one faulty column (a stored column extended by values / a fresh column of wrong length) at every position of 1-3; from_array with a wrong-length column or a wrong number of names; property columns declared on an empty database before the first addition) applied at the end of a random base history; '
                            'coverage extension (props/c16_cov.py): near-miss lengths (bits+-1, x2, /2) and levels (+-1) at every position, two faults in one batch, '
                            'batches of 12, tuple / keyword / generator call forms, targets derived from the target (copy, alias handle, as_type, pickle, deepcopy, reload .fpz/.fps, '
                            'subset, fold to the same length, concat with itself: shared buffers, the source is observed too), property faults on databases without rows '
                            '(never filled / declared columns / 0-row matrix), concat with an operand lacking a column or lacking a matrix and through tuple / generator / append() / dbs=, '
                            'from_array with the faulty column at every position, good operations after the refusals followed by faults again; and implementation-only faults '
                            '(counted in direct_ops; no model literal): property values that are scalars, strings of row-count characters, 0-d / 2-D arrays, other dtypes and containers, '
                            'ragged lists - in set_prop (positional / keyword forms), at every position of update_props (append or not) and in from_array; the '
                            'database\'s own props dict appended to itself; batch members that are not fingerprints; a fingerprint whose property VALUE is a sequence '
                            '(on a deep copy of the target and on a new database); all are '
                            'non-trivial; distinct by (fault, position, operation literal). Each fault with a model literal is checked twice (the implementation-only ones directly only): directly (raised; every live '
                            'database observably identical before/after: CSR buffers, names, name index, property arrays, db[i], ==, and a structural snapshot with dtypes, shapes and container types) and against '
                            'the model (same exception class, same full state).')
    ctx.coverage['input_distribution'] = dist
    ctx.assumptions += ['SciPy/NumPy containers (vstack, csr_matrix, np.append, fancy indexing, pickle) behave as modelled; exercised by the correspondence only',
                        'model domain: CSR rows given to from_array have no duplicate column; counts < 2^16; names are None or non-empty strings',
                        'buffer sharing of derived databases as measured with np.shares_memory on this tree (see header of Model/Db.v)']
    if not ok:
        core.report_broken_proof(ctx, res, found_input)


def replay(ctx, path):
    import json
    d = json.load(open(path))
    case = d.get('case', {})
    ops = case.get('ops') or [s['op'] for s in case.get('minimal_history', [])]
    print(json.dumps({k: v for k, v in d.items() if k != 'case'}, indent=1))
    if case.get('direct'):
        # an implementation-only fault (no model literal): rebuild the history, run the described call again
        core.setup_env()
        h = dbgen.replay_descs(ops)
        print(json.dumps(case['direct'], indent=1)[:3000])
        return 1 if c16_cov.replay_direct(h, case) else 0
    if not ops:
        print(json.dumps(case, indent=1)[:4000])
        return 0
    h = dbgen.replay_descs(ops)
    for st in h.steps:
        print(st['op'].get('op'), {k: v for k, v in st['op'].items() if k not in ('op', 'fps', 'rows', '_ok')}, '->', st['res'][1] if st['res'][0] == 'err' else 'ok')
    idx, raw = dbgen.first_divergence(ctx, h.steps)
    print('model: first diverging step =', idx)
    return 1 if (idx is None or idx >= 0) else 0
