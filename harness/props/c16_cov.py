"""C16 - coverage extension of the fault enumeration (part module of c16.py; audit table: work/coverage_C16.md).

Two kinds of additions:

 (1) more fault streams that go through dbgen.History and are therefore checked twice like the original ones (directly:
     raised + every live database unchanged; and against the model M3): near-miss lengths and levels, two faults in one
     batch, long batches, tuple / keyword call forms, derived targets (copy, alias, as_type, pickle, reload, subset, fold,
     concat) whose buffers are shared with their source, property faults on databases without rows, databases with a matrix
     but no rows, more concat aliens, from_array with the faulty column at every position, and a tail of good operations
     after the refusals followed by a fault again.

 (2) faults the model has no literal for (a property value that is not a 1-D list: scalars, strings, 0-d / 2-D arrays,
     other dtypes and containers; a batch member that is not a fingerprint; generator / tuple / deprecated call forms;
     a fingerprint whose property VALUE is a sequence = "wrong property length" at one batch position).  These are run on the
     implementation only, described by a JSON-able `spec` so that a replay file can re-run them (`run_direct`), and compared
     through `snap_db`, a structural snapshot that reads the attributes without calling any method of the database."""
import copy
import numpy as np
import dbgen
import fpgen
from core import listlit

BITS_POOL = (8, 16, 1024, 2 ** 32)
LEVELS = (-1, 5, 0, None)


# --------------------------------------------------------------------------------------------- snapshots
def snap_db(d):
    """Everything one database object holds, dtype / shape / container types included; no method of the database is called."""
    a = d.array
    arr = None if a is None else (type(a).__name__, str(a.dtype), tuple(int(x) for x in a.shape),
                                  a.data.tolist(), a.indices.tolist(), a.indptr.tolist())
    props = []
    for k, v in dict.items(d.props):
        v = np.asarray(v)
        props.append((repr(k), str(v.dtype), tuple(v.shape), repr(v.tolist())))
    return (d.fp_type.__name__, repr(d.level), repr(d.name), arr, type(d.fp_names).__name__, [repr(n) for n in d.fp_names],
            type(d.fp_names_to_indices).__name__, [(repr(k), [int(x) for x in l]) for k, l in dict.items(d.fp_names_to_indices)], props)


def snap_live(h):
    return [(g, snap_db(h.pool[g])) for g in h.live]


def ensure_live(h, *hs):
    """Keep the handles under observation (History drops random handles beyond MAX_LIVE; the model keeps every handle)."""
    for g in hs:
        if g not in h.live:
            h.live.append(g)


def drop_live(h, *hs):
    for g in hs:
        if g in h.live and len(h.live) > 1:
            h.live.remove(g)


class Env(object):
    def __init__(self, ctx, h, dist, fault):
        self.ctx, self.h, self.dist, self.fault, self.rng = ctx, h, dist, fault, ctx.rng
        self.found = False

    def bump(self, group, key):
        g = self.dist.setdefault(group, {})
        g[key] = g.get(key, 0) + 1


# --------------------------------------------------------------------------------------------- (1) model-compared streams
def op_add_form(h, tt, fps, form, tag='add_fault'):
    """add_fingerprints called with a tuple / by keyword (same model operation as History.op_add)."""
    d = h.pool[tt]
    lit = '(OpAdd %s %s)' % (dbgen.natlit(tt), listlit([dbgen.fpin_lit(f) for f in fps]))
    desc = {'op': 'add', 'h': tt, 'form': form,
            'fps': [{'fp': fpgen.obs_json(f['obs']), 'props': [[k, dbgen.pval_json(v)] for k, v in f['props']]} for f in fps]}
    objs = [f['fp'] for f in fps]
    if form == 'tuple':
        return h.run_unit(tag, desc, lit, lambda: d.add_fingerprints(tuple(objs)))
    if form == 'kw':
        return h.run_unit(tag, desc, lit, lambda: d.add_fingerprints(fprints=objs))
    return h.run_unit(tag, desc, lit, lambda: d.add_fingerprints(objs))


def make_fault(env, batch, pos, kind):
    """Replace batch[pos] by a fingerprint carrying the fault; False if this batch cannot carry it."""
    rng = env.rng
    good = batch[pos]
    o = good['obs']
    bits, level, props = o['bits'], o['level'], list(good['props'])
    if kind in ('bits', 'level+bits'):
        bits = rng.choice([b for b in BITS_POOL if b != o['bits']])
    if kind in ('level', 'level+bits'):
        level = rng.choice([l for l in LEVELS if l != o['level']])
    if kind == 'bits-near':
        bits = rng.choice(sorted(b for b in {o['bits'] + 1, o['bits'] - 1, o['bits'] * 2, o['bits'] // 2} if b >= 1 and b != o['bits']))
    if kind == 'level-near':
        level = rng.choice([o['level'] + 1, o['level'] - 1]) if o['level'] is not None else rng.choice([0, 1, -1])
    if kind == 'missing_prop':
        needed = [j for j, (kk, _) in enumerate(props) if kk != 'extra']
        if not needed:
            return False
        props.pop(rng.choice(needed))
    batch[pos] = dbgen.make_fp(rng, o['kind'], bits, level, o['name'], props)
    return True


def add_fault(env, tt, n, pos, kind, label=None, form=None, own=None):
    h, rng = env.h, env.rng
    batch = h.batch(tt, n, own=(rng.random() < 0.7) if own is None else own)
    if not make_fault(env, batch, pos, kind):
        return
    form = form or rng.choice(['list', 'list', 'tuple', 'kw'])
    env.bump('call_forms', 'add:' + form)
    env.fault(h, 'add:' + (label or kind), pos, lambda: op_add_form(h, tt, batch, form))


def extra_add_faults(env, tt):
    """Near-miss lengths/levels at every position, two faults in one batch, a long batch."""
    h, rng = env.h, env.rng
    dd = h.pool[tt]
    n = rng.choice([2, 3, 4, 5])
    for pos in range(n):
        for kind in ('bits-near', 'level-near'):
            add_fault(env, tt, n, pos, kind)
    i, j = rng.sample(range(n), 2)
    batch = h.batch(tt, n, own=rng.random() < 0.7)
    if make_fault(env, batch, i, 'level-near' if rng.random() < 0.5 else 'level') and make_fault(env, batch, j, 'bits-near' if rng.random() < 0.5 else 'bits'):
        env.fault(h, 'add:two-faults', min(i, j), lambda: op_add_form(h, tt, batch, 'list'))
    nl = 12
    kinds = ['bits', 'level', 'bits-near', 'level-near'] + (['missing_prop'] if len(dd.props) > 0 else [])
    for pos in (nl - 1, rng.randrange(5, nl - 1)):
        add_fault(env, tt, nl, pos, rng.choice(kinds), label='long-batch')


def compact_faults(env, g, label):
    """A small fault set on handle g (used for derived targets, databases without rows ...)."""
    h, rng = env.h, env.rng
    dd = h.pool[g]
    nn = dd.fp_num
    n = rng.choice([1, 2, 3])
    kinds = ['level'] + (['bits', 'bits-near'] if dd.bits is not None else [])       # without a matrix position 0 defines the length
    for kind in kinds:
        add_fault(env, g, n, rng.randrange(n), kind, label=kind + ':' + label)
    if dd.bits is None and n >= 2:
        add_fault(env, g, n, rng.randrange(1, n), 'bits', label='bits:' + label)
    if len(dd.props) > 0:
        add_fault(env, g, n, rng.randrange(n), 'missing_prop', label='missing_prop:' + label)
    stored = list(dd.props.keys())
    key = rng.choice(stored) if stored and rng.random() < 0.6 else 'q'
    env.bump('set_prop_key', 'existing' if key in dd.props else 'fresh')
    ln = nn + rng.choice([1, 2]) if (nn == 0 or rng.random() < 0.6) else nn - 1
    env.fault(h, 'set_prop:len:' + label, ln, lambda: h.op_set_prop(g, key, [1] * ln, tag='set_prop_fault'))
    for append in (False, True):
        pos = rng.randrange(2)
        names = ['u0', 'u1']
        cols = [(names[j], [rng.choice([0, 1, 2])] * (nn if j != pos else nn + rng.choice([1, 2]))) for j in range(2)]
        env.fault(h, 'update_props:%slen:%s' % ('append:' if append else '', label), pos,
                  lambda: h.op_update_props(g, cols, tag='update_props_fault', append=append))
    if stored:
        k = rng.choice(stored)
        ty = h.col_type(g, k, [])
        pos = rng.randrange(2)
        ext = (k, [dbgen.rand_props(rng, [(k, ty)])[0][1] for _ in range(rng.choice([1, 2]))])
        cols = [ext, ('w9', [1] * nn)] if pos == 0 else [('w9', [1] * nn), ext]
        env.fault(h, 'update_props:append:extend-nonempty:' + label, pos,
                  lambda: h.op_update_props(g, cols, tag='update_props_fault', append=True))


DERIVE = ('copy', 'alias', 'as_type_other', 'pickle', 'deepcopy', 'reload_fpz', 'reload_fps', 'subset', 'fold_same', 'concat_self')


def derive(env, t, way):
    h, rng = env.h, env.rng
    d = h.pool[t]
    dk = dbgen.kind_of_type(d.fp_type)
    if way == 'copy':
        return h.op_copy(t)
    if way == 'alias':
        return h.op_as_type(t, dk, False)                     # returns self: a second handle on the same object
    if way == 'as_type_other':
        return h.op_as_type(t, rng.choice([k for k in dbgen.KINDS if k != dk]), True)
    if way == 'pickle':
        return h.op_pickle(t)
    if way == 'deepcopy':
        return h.op_pickle(t, deep=True)
    if way == 'reload_fpz':
        return h.op_reload(t, True)
    if way == 'reload_fps':
        return h.op_reload(t, False)
    if way == 'subset':
        keys = list(dict.keys(d.fp_names_to_indices))
        rng.shuffle(keys)
        return h.op_subset(t, keys)
    if way == 'fold_same':
        return h.op_fold(t, d.bits)
    return h.op_concat([t, t])


def derived_targets(env, t):
    """Faults on databases derived from t (they share CSR buffers and/or property arrays with t): t must not move either."""
    h, rng = env.h, env.rng
    for way in rng.sample(DERIVE, env.ctx.n(3, 6)):
        ensure_live(h, t)
        r = derive(env, t, way)
        if r[0] != 'ok':
            continue
        g = len(h.pool) - 1
        ensure_live(h, t, g)
        env.bump('derived_targets', way)
        compact_faults(env, g, 'derived')
        drop_live(h, g)


def empty_targets(env, t):
    """Property faults on databases without rows (never filled / columns declared / a 0-row matrix)."""
    h, rng = env.h, env.rng
    d = h.pool[t]
    dk = dbgen.kind_of_type(d.fp_type)
    made = []
    h.op_new(dk, d.level)
    made.append(('never-filled', len(h.pool) - 1))
    if rng.random() < 0.6:
        h.op_new(rng.choice(dbgen.KINDS), d.level)
        e = len(h.pool) - 1
        h.op_set_prop(e, 'decl', [], ty=rng.choice(['int', 'str', 'float']))
        made.append(('declared', e))
    bits = d.bits if d.bits <= 1024 else 16
    dense = rng.random() < 0.5
    cols = [('z0', [])] if rng.random() < 0.5 else []
    r = h.op_from_array(dk, d.level, bits, dense, dk, [], [], cols)
    if r[0] == 'ok':
        made.append(('zero-row-matrix', len(h.pool) - 1))
    for label, e in made:
        ensure_live(h, e)
        env.bump('empty_targets', label)
        compact_faults(env, e, label)
        if label == 'declared':
            env.fault(h, 'update_props:append:extend-declared', 0,
                      lambda: h.op_update_props(e, [('decl', [1])], tag='update_props_fault', append=True, tys=['int']))
        drop_live(h, e)


def concat_more(env, t):
    h, rng = env.h, env.rng
    d = h.pool[t]
    dk = dbgen.kind_of_type(d.fp_type)
    aliens = {}
    if len(d.props) > 0:
        r = h.op_from_array(dk, d.level, d.bits, False, dk, [[(0, 1)]], ['z'], [])
        if r[0] == 'ok':
            aliens['props-missing'] = len(h.pool) - 1
    r = h.op_new(dk, d.level)
    if r[0] == 'ok':
        aliens['empty-operand'] = len(h.pool) - 1
    ensure_live(h, t, *aliens.values())
    m = rng.choice([2, 3, 4])
    for what_, a in aliens.items():
        for pos in range(m):
            hs = [t] * m
            hs[pos] = a
            env.fault(h, 'concat:' + what_, pos, lambda: h.op_concat(hs, plus=(m == 2 and rng.random() < 0.3), tag='concat_fault'))
    return aliens


def from_array_more(env, t):
    h, rng = env.h, env.rng
    d = h.pool[t]
    dk = dbgen.kind_of_type(d.fp_type)
    bits = d.bits
    for _ in range(2):
        nrows = rng.choice([1, 2, 3])
        ncols = rng.choice([1, 2, 3])
        rows = [[(rng.randrange(min(bits, 8)), 1)] for _ in range(nrows)]
        names = [rng.choice(['a', 'b', None]) for _ in range(nrows)]
        pos = rng.randrange(ncols)
        cols = [('c%d' % j, [rng.choice([0, 1, 2])] * (nrows if j != pos else max(0, nrows + rng.choice([-1, 1, 2])))) for j in range(ncols)]
        env.fault(h, 'from_array:props-len:multi', pos, lambda: h.op_from_array(dk, d.level, bits, False, dk, rows, names, cols))


def tail(env, t):
    """Good operations after the refusals (the model validates that the database behaves like an untouched one), then faults again."""
    h, rng = env.h, env.rng
    ensure_live(h, t)
    d = h.pool[t]
    h.op_add(t, h.batch(t, 2))
    if d.props:
        k = rng.choice(list(d.props.keys()))
        ty = h.col_type(t, k, [])
        h.op_set_prop(t, k, [dbgen.rand_props(rng, [(k, ty)])[0][1] for _ in range(d.fp_num)], ty=ty)
    for _ in range(2):
        h.rand_step()
    ensure_live(h, t)
    add_fault(env, t, 2, 1, 'bits', label='bits:after-good-ops')
    add_fault(env, t, 2, 0, 'level', label='level:after-good-ops')
    nn = d.fp_num
    key = rng.choice(list(d.props.keys()) + ['q'])
    env.fault(h, 'set_prop:len:after-good-ops', nn + 1, lambda: h.op_set_prop(t, key, [1] * (nn + 1), tag='set_prop_fault'))
    env.bump('tails', 'good-ops-then-faults')


# --------------------------------------------------------------------------------------------- (2) implementation-only faults
def mkval(s):
    k = s['v']
    if k == 'list':
        return list(s['x'])
    if k == 'tuple':
        return tuple(s['x'])
    if k == 'range':
        return range(s['n'])
    if k == 'scalar':
        return s['x']
    if k == 'none':
        return None
    if k == 'np':
        shape = tuple(s['shape'])
        return np.arange(int(np.prod(shape)) if shape else 1).reshape(shape).astype(s['dtype'])
    if k == 'ragged':
        return [[1, 2]] + [[3]] * (s['n'] - 1)
    raise ValueError(k)


def val_rows(s):
    """First dimension of the array the value becomes (None: it has no rows at all)."""
    k = s['v']
    if k in ('list', 'tuple'):
        return len(s['x'])
    if k == 'range' or k == 'ragged':
        return s['n']
    if k == 'np':
        return s['shape'][0] if s['shape'] else None
    return None


def _fp_objs(spec):
    out = []
    if 'repeat' in spec:
        # a LARGE batch described compactly: the base fingerprints cycled `repeat` times, one faulty member at `fault_pos`
        base = spec['fps']
        for i in range(spec['repeat']):
            out.append(dbgen.fp_from_json(spec['fault_fp'] if i == spec['fault_pos'] else base[i % len(base)])['fp'])
        return out
    for j in spec['fps']:
        if j is None:
            out.append(None)
        elif 'not_fp' in j:
            out.append(np.zeros(4, dtype=bool) if j['not_fp'] == 'vector' else j['not_fp'])
        else:
            out.append(dbgen.fp_from_json(j)['fp'])
    return out


def run_direct(h, spec, scratch=None):
    """Execute one implementation-only call described by `spec` (also used by the replay)."""
    D, _ = dbgen.mods()
    c = spec['call']
    tgt = scratch if scratch is not None else (h.pool[spec['h']] if 'h' in spec else None)
    form = spec.get('form', 'pos')
    if c == 'set_prop':
        v = mkval(spec['val'])
        if form == 'kw':
            return tgt.set_prop(key=spec['key'], vals=v)
        if form == 'kw_check':
            return tgt.set_prop(spec['key'], v, check_length=True)
        if form == 'pos3':
            return tgt.set_prop(spec['key'], v, True)
        return tgt.set_prop(spec['key'], v)
    if c == 'update_props':
        pd = {k: mkval(v) for k, v in spec['cols']}
        if form == 'kw':
            return tgt.update_props(props_dict=pd, append=spec['append'], check_length=True)
        if form == 'default' and not spec['append']:
            return tgt.update_props(pd)
        return tgt.update_props(pd, spec['append'])
    if c == 'update_props_own':
        return tgt.update_props(tgt.props, append=True)
    if c == 'add':
        objs = _fp_objs(spec)
        cont = spec.get('container', 'list')
        if cont == 'tuple':
            return tgt.add_fingerprints(tuple(objs))
        if cont == 'gen':
            return tgt.add_fingerprints(x for x in objs)
        return tgt.add_fingerprints(objs)
    if c == 'concat':
        ds = [h.pool[g] for g in spec['hs']]
        if form == 'tuple':
            return D.concat(tuple(ds))
        if form == 'gen':
            return D.concat(x for x in ds)
        if form == 'append':
            import warnings
            with warnings.catch_warnings():
                warnings.simplefilter('ignore')
                return D.append(ds)
        if form == 'kw':
            return D.concat(dbs=ds)
        return D.concat(ds)
    if c == 'from_array':
        from scipy.sparse import csr_matrix
        T = fpgen.classes()[spec['kind']]
        n, bits = spec['nrows'], spec['bits']
        arr = csr_matrix((np.ones(n, dtype=dbgen.DTYPE[spec['kind']]), np.arange(n) % bits, np.arange(n + 1)), shape=(n, bits))
        names = spec['names']
        names = tuple(names) if spec.get('names_as') == 'tuple' else np.array(names) if spec.get('names_as') == 'np' else list(names)
        props = {k: mkval(v) for k, v in spec['props']}
        if form == 'kw':
            return D.FingerprintDatabase.from_array(array=arr, fp_names=names, fp_type=T, level=spec['level'], name=None, props=props)
        return D.FingerprintDatabase.from_array(arr, names, T, spec['level'], None, props)
    raise ValueError(c)


def scratch_of(h, spec):
    """The object an implementation-only fault runs on when it must not touch the history: a deep copy of the target, or a new
    database outside the history."""
    if spec.get('fresh_db'):
        D, _ = dbgen.mods()
        return D.FingerprintDatabase(fp_type=fpgen.classes()[spec['fresh_db']['kind']], level=spec['fresh_db']['level'])
    return copy.deepcopy(h.pool[spec['h']])


def direct(env, kind, pos, spec, scratch=False, finding=None):
    """One implementation-only fault: must raise, and every live database (and the scratch object) must be unchanged."""
    h, ctx = env.h, env.ctx
    tgt = scratch_of(h, spec) if scratch else None
    before = snap_live(h)
    sb = snap_db(tgt) if scratch else None
    try:
        run_direct(h, spec, tgt)
        exc = None
    except Exception as e:  # noqa
        exc = type(e).__name__
    env.dist['fault_ops'] += 1
    env.dist['direct_ops'] = env.dist.get('direct_ops', 0) + 1
    env.dist['by_fault'][kind] = env.dist['by_fault'].get(kind, 0) + 1
    ctx.count((kind, pos, repr(sorted(spec.items(), key=str))[:600]), True)
    payload = {'fault': kind, 'position': pos, 'direct': spec, 'scratch_copy': scratch, 'raised': exc, 'ops': dbgen.descs_of(h.steps)}
    if exc is None:
        env.found = True
        ctx.fail('incompatible input was accepted (%s at position %s; implementation-only fault)' % (kind, pos), payload,
                 finding_key='accepted:' + (finding or kind))
        return False
    after = snap_live(h)
    sa = snap_db(tgt) if scratch else None
    if after != before or sa != sb:
        env.found = True
        if scratch:
            payload['target_before'], payload['target_after'] = repr(sb)[:1500], repr(sa)[:1500]
        else:
            ch = [(b, a) for b, a in zip(before, after) if b != a][:1]
            payload['changed_before'], payload['changed_after'] = (repr(ch[0][0])[:1500], repr(ch[0][1])[:1500]) if ch else (None, None)
        ctx.fail('database changed by a refused operation (%s at position %s raised %s; implementation-only fault)' % (kind, pos, exc),
                 payload, finding_key='not-atomic:' + (finding or kind))
        return False
    return True


def odd_values(rng, n_rows):
    """Property values that are not `n_rows` rows: scalars, strings, 0-d / 2-D arrays, other dtypes and containers."""
    vals = [('scalar-int', {'v': 'scalar', 'x': 5}), ('scalar-none', {'v': 'none'}), ('0-d', {'v': 'np', 'shape': [], 'dtype': 'int64'}),
            ('scalar-float', {'v': 'scalar', 'x': 2.5})]
    if n_rows >= 1:
        vals.append(('str-of-row-count-chars', {'v': 'scalar', 'x': 'a' * n_rows}))      # len() == rows, but no rows
        vals.append(('2d-zero-rows', {'v': 'np', 'shape': [0, n_rows], 'dtype': 'int64'}))
    if n_rows >= 2:
        vals.append(('2d-one-row', {'v': 'np', 'shape': [1, n_rows], 'dtype': rng.choice(['int64', 'float64'])}))
    for r in (2, 3):
        if n_rows % r == 0 and n_rows // r >= 1 and r != n_rows:
            vals.append(('2d-right-size', {'v': 'np', 'shape': [r, n_rows // r], 'dtype': 'int64'}))
    vals.append(('2d-more-rows', {'v': 'np', 'shape': [n_rows + 1, 2], 'dtype': 'int64'}))
    wrong = [n_rows + 1, n_rows + 2] + ([n_rows - 1] if n_rows >= 1 else [])
    for dt in ('int32', 'float32', 'bool', 'object', '<U3', 'S2', 'uint8'):
        vals.append(('np-' + dt, {'v': 'np', 'shape': [rng.choice(wrong)], 'dtype': dt}))
    vals.append(('tuple', {'v': 'tuple', 'x': [1] * rng.choice(wrong)}))
    vals.append(('range', {'v': 'range', 'n': rng.choice(wrong)}))
    vals.append(('ragged', {'v': 'ragged', 'n': rng.choice([w for w in wrong if w >= 2] or [n_rows + 2])}))
    return [(lab, s) for lab, s in vals if val_rows(s) != n_rows]


def direct_prop_faults(env, t):
    h, rng = env.h, env.rng
    ensure_live(h, t)
    d = h.pool[t]
    n_rows = d.fp_num
    stored = [k for k in d.props.keys() if isinstance(k, str)]
    vals = odd_values(rng, n_rows)
    forms = ['pos', 'kw', 'kw_check', 'pos3']
    for i, (lab, s) in enumerate(vals):
        key = rng.choice(stored) if stored and rng.random() < 0.5 else 'dq'
        env.bump('set_prop_key', 'existing' if key in d.props else 'fresh')
        form = forms[i % len(forms)]
        env.bump('call_forms', 'set_prop:' + form)
        if not direct(env, 'set_prop:value:' + lab, 0, {'call': 'set_prop', 'h': t, 'key': key, 'val': s, 'form': form}):
            return
    # update_props: the odd value at every position among good columns (fresh, and - with append - stored ones extended by nothing)
    for lab, s in rng.sample(vals, min(len(vals), env.ctx.n(6, 12))):
        ncols = rng.choice([2, 3])
        append = rng.random() < 0.5
        for pos in range(ncols):
            cols = []
            for j in range(ncols):
                if j == pos:
                    k = rng.choice(stored) if stored and not append and rng.random() < 0.4 else 'dw%d' % j
                    cols.append([k, s])
                elif append and stored and rng.random() < 0.4 and not any(c[0] in stored for c in cols):
                    k = rng.choice(stored)
                    cols.append([k, {'v': 'np', 'shape': [0], 'dtype': str(np.asarray(d.props[k]).dtype)}])     # extended by nothing
                else:
                    cols.append(['dg%d' % j, {'v': 'list', 'x': [j] * n_rows}])
            if len(set(c[0] for c in cols)) < ncols:
                continue
            form = rng.choice(['pos', 'kw'] + ([] if append else ['default']))
            env.bump('call_forms', 'update_props:' + form)
            if not direct(env, 'update_props:%svalue:%s' % ('append:' if append else '', lab), pos,
                          {'call': 'update_props', 'h': t, 'cols': cols, 'append': append, 'form': form}):
                return
    if n_rows > 0 and len(d.props) > 0:
        direct(env, 'update_props:append:own-props-dict', 0, {'call': 'update_props_own', 'h': t})


def _fp_json(f):
    return {'fp': fpgen.obs_json(f['obs']), 'props': [[k, dbgen.pval_json(v)] for k, v in f['props']]}


def direct_add_faults(env, t):
    """Batch members that are not fingerprints; generator / tuple batches carrying a faulty fingerprint."""
    h, rng = env.h, env.rng
    ensure_live(h, t)
    n = rng.choice([1, 2, 3, 4])
    for pos in range(n):
        what = rng.choice(['none', 'vector', 'str'])
        fps = [_fp_json(f) for f in h.batch(t, n)]
        fps[pos] = None if what == 'none' else {'not_fp': 'vector' if what == 'vector' else 'abc'}
        if not direct(env, 'add:not-a-fingerprint', pos, {'call': 'add', 'h': t, 'fps': fps, 'container': rng.choice(['list', 'tuple'])}):
            return
    for cont in ('gen', 'tuple'):
        n = rng.choice([2, 3, 4])
        pos = rng.randrange(n)
        batch = h.batch(t, n)
        kind = rng.choice(['bits', 'level', 'bits-near', 'level-near'])
        make_fault(env, batch, pos, kind)
        env.bump('call_forms', 'add:' + cont)
        if not direct(env, 'add:%s:container-%s' % (kind, cont), pos, {'call': 'add', 'h': t, 'fps': [_fp_json(f) for f in batch], 'container': cont}):
            return


def direct_large_batches(env, t):
    """Batches of thousands of fingerprints with ONE faulty member late in the batch (an implementation that validates or commits a
    long batch slice by slice, or stops validating after a while, refuses too late).  Outside the model's evaluation budget, so
    implementation-only: must raise, and the target (a deep copy) and every live database must be unchanged.  Per run (quick): four
    batches (two sizes x two positions: the last member and a late one) whose fault is in the PROPERTIES of a late member (missing column / sequence value; needs a target with property
    columns) and four whose fault is its length or level; sizes 1100 / 4200 / 9000 (thorough: also 20000 / 70000)."""
    h, rng = env.h, env.rng
    d = h.pool[t]
    cap = 4 if env.ctx.tier == 'quick' else 24
    if len(d.props) > 0 and env.dist.get('large_batches_props', 0) < cap:
        group, kinds = 'large_batches_props', ['missing_prop', 'prop-sequence-value']
    elif env.dist.get('large_batches_shape', 0) < cap:
        group, kinds = 'large_batches_shape', ['bits-near', 'level-near']
    else:
        return
    sizes = rng.sample([1100, 4200, 9000] + ([20000, 70000] if env.ctx.tier != 'quick' else []), 2)
    if max(sizes) < 4200:
        sizes[0] = rng.choice([4200, 9000])          # every call has one batch beyond a few thousand
    base = h.batch(t, 6)
    for n, pos in [(n, q) for n in sizes for q in (n - 1, rng.randrange(2 * n // 3, n - 1))]:      # the last member and a late one, for both sizes
        kind = rng.choice(kinds)
        b2 = list(base)
        if kind == 'prop-sequence-value':
            fj = _fp_json(b2[0])
            cols = [j for j, (k, _) in enumerate(fj['props']) if k != 'extra']
            if not cols:
                continue
            j = rng.choice(cols)
            fj['props'][j] = [fj['props'][j][0], list(rng.choice(SEQ_VALUES))]
        else:
            if not make_fault(env, b2, 0, kind):
                continue
            fj = _fp_json(b2[0])
        env.dist[group] = env.dist.get(group, 0) + 1
        env.bump('call_forms', 'add:large-batch-%d' % n)
        if not direct(env, 'add:%s:large-batch' % kind, pos, {'call': 'add', 'h': t, 'fps': [_fp_json(f) for f in base], 'repeat': n, 'fault_pos': pos,
                                                              'fault_fp': fj, 'container': 'list'}, scratch=True, finding='add:large-batch:' + kind):
            return


def direct_concat_forms(env, t, aliens):
    h, rng = env.h, env.rng
    live_aliens = {k: a for k, a in aliens.items() if a is not None}
    if not live_aliens:
        return
    ensure_live(h, t, *live_aliens.values())
    for form in ('tuple', 'gen', 'append', 'kw'):
        what_, a = rng.choice(sorted(live_aliens.items()))
        m = rng.choice([2, 3])
        pos = rng.randrange(m)
        hs = [t] * m
        hs[pos] = a
        env.bump('call_forms', 'concat:' + form)
        if not direct(env, 'concat:%s:form-%s' % (what_, form), pos, {'call': 'concat', 'hs': hs, 'form': form}):
            return


def direct_from_array(env, t):
    h, rng = env.h, env.rng
    d = h.pool[t]
    dk = dbgen.kind_of_type(d.fp_type)
    bits = d.bits if d.bits <= 1024 else 16
    for form in ('pos', 'kw'):
        n = rng.choice([2, 3, 4])
        lab, s = rng.choice(odd_values(rng, n))
        ncols = rng.choice([1, 2])
        pos = rng.randrange(ncols)
        props = [['fa%d' % j, s if j == pos else {'v': 'list', 'x': [j] * n}] for j in range(ncols)]
        if not direct(env, 'from_array:props-value:' + lab, pos, {'call': 'from_array', 'kind': dk, 'level': d.level, 'bits': bits, 'nrows': n,
                                                                  'names': ['n%d' % i for i in range(n)], 'props': props, 'form': form}):
            return
    n = rng.choice([2, 3])
    for names_as in ('tuple', 'np'):
        nm = ['n%d' % i for i in range(n + rng.choice([-1, 1]))]
        if not direct(env, 'from_array:names-len:' + names_as, len(nm), {'call': 'from_array', 'kind': dk, 'level': d.level, 'bits': bits, 'nrows': n,
                                                                         'names': nm, 'names_as': names_as, 'props': [], 'form': 'pos'}):
            return


SEQ_VALUES = ([1, 2], [1, 2, 3], [], [0.5, 1.5], ['x', 'y'])


def direct_seq_valued_props(env, t):
    """"Wrong property length" at one batch position: a fingerprint whose value for a property column is a sequence (0, 2 or 3
    values instead of one).  The batch cannot be stored as one value per row: it must be refused, and atomically.  Outside the
    model (cells are scalars there).  Runs on a deep copy of the target / on a new database, so the history is not touched."""
    h, rng = env.h, env.rng
    d = h.pool[t]
    if len(d.props) == 0:
        return
    dk = dbgen.kind_of_type(d.fp_type)
    n = rng.choice([1, 2, 3])
    for pos in range(n):
        batch = h.batch(t, n)
        fps = [_fp_json(f) for f in batch]
        cols = [j for j, (k, _) in enumerate(fps[pos]['props']) if k != 'extra']
        if not cols:
            return
        j = rng.choice(cols)
        fps[pos]['props'][j] = [fps[pos]['props'][j][0], list(rng.choice(SEQ_VALUES))]
        if not direct(env, 'add:prop-sequence-value', pos, {'call': 'add', 'h': t, 'fps': fps, 'container': 'list'}, scratch=True,
                      finding='add:prop-sequence-value'):
            return
    # a database without rows: the first fingerprint defines the columns, a later one carries a sequence
    n = rng.choice([2, 3])
    pos = rng.randrange(1, n)
    fps = []
    for i in range(n):
        f = dbgen.make_fp(rng, dk, d.bits, d.level, 'e%d' % i, [('p', i)])
        fps.append(_fp_json(f))
    fps[pos]['props'][0] = ['p', [1, 2]]
    direct(env, 'add:prop-sequence-value:empty-db', pos, {'call': 'add', 'fresh_db': {'kind': dk, 'level': d.level}, 'fps': fps, 'container': 'list'},
           scratch=True, finding='add:prop-sequence-value')


def replay_direct(h, case):
    """Re-run an implementation-only fault from a replay file on the replayed history; True if it still fails."""
    spec = case['direct']
    scratch = case.get('scratch_copy', False)
    tgt = scratch_of(h, spec) if scratch else None
    before, sb = snap_live(h), (snap_db(tgt) if scratch else None)
    try:
        run_direct(h, spec, tgt)
        exc = None
    except Exception as e:  # noqa
        exc = '%s: %s' % (type(e).__name__, str(e)[:200])
    changed = snap_live(h) != before or (scratch and snap_db(tgt) != sb)
    print('direct fault %s at position %s -> %s; database %s' % (case.get('fault'), case.get('position'), exc or 'ACCEPTED',
                                                                  'CHANGED' if changed else 'unchanged'))
    if scratch and changed:
        print('  before:', repr(sb)[:800])
        print('  after: ', repr(snap_db(tgt))[:800])
    return exc is None or changed
