"""C17 - bit, count and float views of the same data agree (Properties/C17.v).
Parts: (a) fingerprinter output, bit vs count (here, model M1); (b) fingerprint conversions (props/c17_fp.py, model M2);
(c) database as_type / cast on add (props/c17_db.py, model M3)."""
import importlib
from collections import Counter
import core
import m1lib
import molfacts
import molgen
import fpgen


def part_fprinter(ctx):
    rng = ctx.rng
    found = False
    cases = []
    src = molgen.pool(rng, ctx.n(40, 800))
    stats = {'pairs': 0}
    for (name, m0, cid) in src[:ctx.n(30, 600)]:
        o = molgen.rand_opts(rng)
        m = molfacts.gridded(m0, conf_ids={cid})
        bits = rng.choice([2 ** 32, 4096, 1024, 32])
        cb = m1lib.Case(name, m, cid, o, bits=bits, counts=False)
        if cb.unstable:
            continue
        if cb.err is not None:
            if cb.heavy_retained() and not cb.has_offtable_bond():
                found = True
                ctx.fail('fingerprinting raised %s' % cb.exc, cb.payload(), finding_key=None)
            continue
        cc = m1lib.Case(name, m, cid, o, bits=bits, counts=True)
        lv = rng.choice([None, 0, 1, cb.k])
        ret = cb.heavy_retained()
        mask = [] if rng.random() < 0.6 else rng.sample(ret, 1)
        rb = cb.add_query(lv, bits, mask)
        rc = cc.add_query(lv, bits, mask)
        cases += [cb, cc]
        stats['pairs'] += 1
        if rb[0] == 'ok' and rc[0] == 'ok':
            # decided on the implementation directly: support = set bits, count = number of accepted shells folding there
            shells = cb.f.get_shells_at_level(level=lv, atom_mask=set(mask))
            mult = Counter(((int(s.identifier) + 2 ** 32) % 2 ** 32) % bits for s in shells)
            bit, cnt = rb[1], rc[1]
            ok = (bit['idx'] == cnt['idx'] == sorted(mult) and {k: int(v) for k, v in cnt['cnt']} == dict(mult)
                  and sum(int(v) for _, v in cnt['cnt']) == len(shells))
            if not ok:
                found = True
                ctx.fail('count and bit fingerprints of the same run disagree (support / multiplicities / total)',
                         dict(cb.payload(), count_fp=fpgen.obs_json(cnt), bit_fp=fpgen.obs_json(bit), multiplicities={str(k): v for k, v in mult.items()}),
                         finding_key='C17:fprinter-count-vs-bit')
    ctx.coverage.setdefault('input_distribution', {})['fprinter_pairs'] = stats
    found |= m1lib.run_cases(ctx, cases, 'C17 fingerprinter bit/count queries') > 0
    return found


def run(ctx):
    ok, res = core.proof_step(ctx)
    found = part_fprinter(ctx)
    parts = []
    for modname in ('props.c17_fp', 'props.c17_db'):
        try:
            mod = importlib.import_module(modname)
        except ImportError:
            ctx.notes.append('%s not present' % modname)
            continue
        parts.append(modname)
        found |= bool(mod.part(ctx))
    ctx.coverage['rule'] = ('paired bit/count fingerprinters on the same gridded (molecule, conformer, options) input at bits in {2^32, 4096, 1024, 32}: model tie for both, and on the '
                            'implementation support = set bits, each count = number of accepted shells folding to the position, total = number of shells; plus the parts '
                            + ', '.join(parts) + ' (fingerprint and database conversions between all ordered pairs of kinds)')
    if not ok:
        core.report_broken_proof(ctx, res, found)


def replay(ctx, path):
    return m1lib.replay_case(ctx, path)
