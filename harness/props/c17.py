"""C17 - bit, count and float views of the same data agree (Properties/C17.v).
Parts: (a) fingerprinter output, bit vs count (here, model M1); (b) fingerprint conversions (props/c17_fp.py, model M2);
(c) database as_type / cast on add (props/c17_db.py, model M3)."""
import importlib
from collections import Counter
import core
import m1lib
import molfacts
import molgen
import fpgen


def part_fprinter(ctx):
    rng = ctx.rng
    found = False
    cases = []
    src = molgen.pool(rng, ctx.n(40, 800))
    stats = {'pairs': 0}
    for (name, m0, cid) in src[:ctx.n(30, 600)]:
        o = molgen.rand_opts(rng)
        m = molfacts.gridded(m0, conf_ids={cid})
        bits = rng.choice([2 ** 32, 4096, 1024, 32])
        cb = m1lib.Case(name, m, cid, o, bits=bits, counts=False)
        if cb.unstable:
            continue
        if cb.err is not None:
            if cb.heavy_retained() and not cb.has_offtable_bond():
                found = True
                ctx.fail('fingerprinting raised %s' % cb.exc, cb.payload(), finding_key=None)
            continue
        cc = m1lib.Case(name, m, cid, o, bits=bits, counts=True)
        lv = rng.choice([None, 0, 1, cb.k])
        ret = cb.heavy_retained()
        mask = [] if rng.random() < 0.6 else rng.sample(ret, 1)
        rb = cb.add_query(lv, bits, mask)
        rc = cc.add_query(lv, bits, mask)
        cases += [cb, cc]
        stats['pairs'] += 1
        if rb[0] == 'ok' and rc[0] == 'ok':
            # decided on the implementation directly: support = set bits, count = number of accepted shells folding there
            shells = cb.f.get_shells_at_level(level=lv, atom_mask=set(mask))
            mult = Counter(((int(s.identifier) + 2 ** 32) % 2 ** 32) % bits for s in shells)
            bit, cnt = rb[1], rc[1]
            ok = (bit['idx'] == cnt['idx'] == sorted(mult) and {k: int(v) for k, v in cnt['cnt']} == dict(mult)
                  and sum(int(v) for _, v in cnt['cnt']) == len(shells))
            if not ok:
                found = True
                ctx.fail('count and bit fingerprints of the same run disagree (support / multiplicities / total)',
                         dict(cb.payload(), count_fp=fpgen.obs_json(cnt), bit_fp=fpgen.obs_json(bit), multiplicities={str(k): v for k, v in mult.items()}),
                         finding_key='C17:fprinter-count-vs-bit')
    ctx.coverage.setdefault('input_distribution', {})['fprinter_pairs'] = stats
    found |= m1lib.run_cases(ctx, cases, 'C17 fingerprinter bit/count queries') > 0
    return found


# --------------------------------------------------------------------------------------------- coverage extension (a)
# Query forms the first stream does not draw: `bits` left to the constructor's value (None / -1), a query length different
# from the constructor's, the extreme lengths 1 and 2 (every identifier collides), lengths fold() must refuse (not a power
# of two below 2^32, above 2^32), levels -1 / beyond the last one reached, multi-atom masks and the mask that removes every
# shell (empty fingerprint), truthy / falsy spellings of the `counts` flag, several queries on ONE pair of objects, one
# pair of Fingerprinter objects reused over conformers (A B C A), and the pipeline entry point.
CTOR_BITS = [2 ** 32, 2 ** 32, 2 ** 32, 2 ** 31, 65536, 4096, 4096, 1024, 1024, 64, 32, 32, 8, 2, 1, 48]     # 48: accepted with a warning, every default-length query refused
QUERY_BITS = [None, None, -1, 2 ** 32, 2 ** 31, 65536, 1024, 64, 32, 2, 1]
REFUSED_BITS = [100, 3, 2 ** 33, 48]
COUNT_FLAGS = {False: [False, 0, None], True: [True, 1]}


def _u32(i):
    return (int(i) + 2 ** 32) % 2 ** 32


def _foldable(bits):
    return 0 < bits <= 2 ** 32 and (2 ** 32) % bits == 0 and ((2 ** 32) // bits) & ((2 ** 32) // bits - 1) == 0


def _query(case, lv, qbits, mask):
    """get_fingerprint_at_level with `bits` possibly left to the constructor's value; the model is given the effective length."""
    r = m1lib.query_impl(case.f, lv, qbits, mask)
    eff = case.bits if qbits in (None, -1) else qbits
    case.queries.append((lv, eff, sorted(mask), r))
    return r, eff


def _pair_check(ctx, cb, cc, lv, qbits, mask, stats):
    """One query on a bit / count pair of fingerprinters that ran on the same input: decided on the implementation."""
    rb, eff = _query(cb, lv, qbits, mask)
    rc, _ = _query(cc, lv, qbits, mask)
    pl = dict(cb.payload(), query={'level': lv, 'bits': qbits, 'effective_bits': eff, 'mask': sorted(mask)},
              bit=fpgen.obs_json(rb[1]) if rb[0] == 'ok' else rb[1], count=fpgen.obs_json(rc[1]) if rc[0] == 'ok' else rc[1])
    pl.pop('impl_levels', None)
    ctx.count(('c17pair', cb.key(), str(lv), str(qbits), tuple(sorted(mask))), True)
    if rb[0] != rc[0] or (rb[0] == 'err' and rb[1] != rc[1]):
        ctx.fail('bit and count fingerprinters answer the same query differently (%s vs %s)' % (rb[1] if rb[0] == 'err' else 'ok', rc[1] if rc[0] == 'err' else 'ok'),
                 pl, finding_key='C17:fprinter-count-vs-bit-outcome', kind='property-on-implementation')
        return True
    if rb[0] == 'err':
        stats['refused'] = stats.get('refused', 0) + 1
        if _foldable(eff):
            ctx.fail('query refused (%s) although the length %d is a power-of-two fraction of 2^32' % (rb[1], eff), pl,
                     finding_key='C17:fprinter-query-refused', kind='property-on-implementation')
            return True
        return False
    if not _foldable(eff):
        ctx.fail('query with length %d answered although 2^32 / length is not a power of two' % eff, pl, finding_key='C17:fprinter-query-accepted',
                 kind='property-on-implementation')
        return True
    sb = cb.f.get_shells_at_level(level=lv, atom_mask=set(mask))
    sc = cc.f.get_shells_at_level(level=lv, atom_mask=set(mask))
    ids_b, ids_c = sorted(_u32(s.identifier) for s in sb), sorted(_u32(s.identifier) for s in sc)
    mult = Counter(i % eff for i in ids_b)
    bit, cnt = rb[1], rc[1]
    stats['ok'] = stats.get('ok', 0) + 1
    stats['empty'] = stats.get('empty', 0) + (0 if ids_b else 1)
    stats['with_collision'] = stats.get('with_collision', 0) + (1 if len(mult) < len(set(ids_b)) else 0)
    stats['with_count_above_1'] = stats.get('with_count_above_1', 0) + (1 if any(v > 1 for v in mult.values()) else 0)
    bad = None
    if ids_b != ids_c:
        bad = 'the two fingerprinters accepted different shells'
    elif bit['kind'] != 'KBit' or cnt['kind'] != 'KCount':
        bad = 'class of the result does not follow the counts flag (%s / %s)' % (bit['kind'], cnt['kind'])
    elif bit['bits'] != eff or cnt['bits'] != eff or bit['level'] != cnt['level'] or bit['level'] != lv:
        bad = 'length / level label differ (bit %s/%s, count %s/%s, asked %s/%s)' % (bit['bits'], bit['level'], cnt['bits'], cnt['level'], eff, lv)
    elif not (bit['idx'] == cnt['idx'] == sorted(mult)):
        bad = 'support of the count fingerprint, set bits and folded identifiers differ'
    elif {k: int(v) for k, v in cnt['cnt']} != dict(mult) or any(v != int(v) for _, v in cnt['cnt']):
        bad = 'a count is not the number of accepted shells folding to its position'
    elif sum(int(v) for _, v in cnt['cnt']) != len(sb):
        bad = 'counts do not add up to the number of accepted shells'
    if bad:
        ctx.fail('count and bit fingerprints of the same run disagree: ' + bad, dict(pl, multiplicities={str(k): v for k, v in mult.items()}),
                 finding_key='C17:fprinter-count-vs-bit', kind='property-on-implementation')
        return True
    # the two objects handed out: converting one gives the other's support; folding further keeps the supports equal and the total
    C = fpgen.classes()
    fb = cb.f.get_fingerprint_at_level(level=lv, bits=qbits, atom_mask=set(mask))
    fc = cc.f.get_fingerprint_at_level(level=lv, bits=qbits, atom_mask=set(mask))
    ob, oc = fpgen.obs(C['KBit'].from_fingerprint(fc)), fpgen.obs(C['KCount'].from_fingerprint(fb))
    if ob != dict(bit, name=ob['name']) or oc['idx'] != cnt['idx'] or any(v != 1 for _, v in oc['cnt']):
        ctx.fail('converting the count result to bits (or the bit result to counts) does not give the other result\'s support', pl,
                 finding_key='C17:fprinter-convert-result', kind='property-on-implementation')
        return True
    # exact=True: the same answer for a level that was generated, IndexError from both otherwise
    if ctx.rng.random() < 0.4:
        eb = fpgen.attempt(lambda: fpgen.obs(cb.f.get_fingerprint_at_level(level=lv, bits=qbits, exact=True, atom_mask=set(mask))))
        ec = fpgen.attempt(lambda: fpgen.obs(cc.f.get_fingerprint_at_level(level=lv, bits=qbits, exact=True, atom_mask=set(mask))))
        generated = lv is not None and lv != -1 and 0 <= lv <= cb.k
        stats['exact'] = stats.get('exact', 0) + 1
        if (eb[0], ec[0]) != (('ok', 'ok') if generated else ('err', 'err')) or (generated and (eb[1] != bit or ec[1] != cnt)) or (not generated and not (eb[1] == ec[1] == 'EIndex')):
            ctx.fail('exact=True query at level %r (levels 0..%d generated): bit %s, count %s' % (lv, cb.k, eb[1] if eb[0] == 'err' else 'ok', ec[1] if ec[0] == 'err' else 'ok'), pl,
                     finding_key='C17:fprinter-exact-query', kind='property-on-implementation')
            return True
    nb = eff
    while nb > 1 and ctx.rng.random() < 0.7:
        nb //= 2 ** ctx.rng.choice([1, 1, 3, 8])
        nb = max(nb, 1)
    if nb < eff:
        r1, r2 = fpgen.attempt(lambda: fpgen.obs(fb.fold(nb))), fpgen.attempt(lambda: fpgen.obs(fc.fold(nb)))
        m2 = Counter(i % nb for i in ids_b)
        stats['refolded'] = stats.get('refolded', 0) + 1
        if r1[0] != 'ok' or r2[0] != 'ok' or not (r1[1]['idx'] == r2[1]['idx'] == sorted(m2)) or {k: int(v) for k, v in r2[1]['cnt']} != dict(m2):
            ctx.fail('folding both results to %d bits: supports differ or counts are not the multiplicities' % nb,
                     dict(pl, refold_bits=nb, bit_folded=fpgen.obs_json(r1[1]) if r1[0] == 'ok' else r1[1], count_folded=fpgen.obs_json(r2[1]) if r2[0] == 'ok' else r2[1]),
                     finding_key='C17:fprinter-refold', kind='property-on-implementation')
            return True
    return False


def _rand_query(rng, case, allow_refused=True):
    k = case.k
    lv = rng.choice([None, None, -1, 0, 1, 2, k, k, max(k - 1, 0), k + 2, case.o['level']])
    r = rng.random()
    qbits = rng.choice(REFUSED_BITS) if (allow_refused and r < 0.08) else rng.choice(QUERY_BITS + [case.bits])
    ret = case.heavy_retained()
    r = rng.random()
    if r < 0.45 or not ret:
        mask = []
    elif r < 0.7:
        mask = rng.sample(ret, 1)
    elif r < 0.9:
        mask = rng.sample(ret, min(len(ret), rng.choice([2, 3, 4])))
    else:
        mask = list(ret)                                    # every shell masked: the empty fingerprint
    return lv, qbits, mask


def _make_pair(ctx, name, m, cid, o, bits, stats):
    rng = ctx.rng
    fb_, fc_ = rng.choice(COUNT_FLAGS[False]), rng.choice(COUNT_FLAGS[True])
    cb = m1lib.Case(name, m, cid, o, bits=bits, counts=fb_)
    if cb.unstable:
        stats['unstable_skipped'] = stats.get('unstable_skipped', 0) + 1
        return None
    if cb.err is not None:
        stats['impl_errors'] = stats.get('impl_errors', 0) + 1
        if cb.heavy_retained() and not cb.has_offtable_bond():
            ctx.fail('fingerprinting raised %s' % cb.exc, cb.payload(), finding_key=None)
            return 'failed'
        return None
    cc = m1lib.Case(name, m, cid, o, bits=bits, counts=fc_)
    if cc.err is not None:
        ctx.fail('fingerprinting with counts=%r raised %s on an input the bit run accepts' % (fc_, cc.exc), cc.payload(), finding_key='C17:fprinter-count-run-raises',
                 kind='property-on-implementation')
        return 'failed'
    stats['flag_spellings'] = stats.get('flag_spellings', {})
    for v in (fb_, fc_):
        stats['flag_spellings'][repr(v)] = stats['flag_spellings'].get(repr(v), 0) + 1
    return cb, cc


def part_fprinter_ext(ctx):
    rng = ctx.rng
    found = False
    cases = []
    stats = {'pairs': 0, 'queries': 0, 'ctor_bits': {}, 'query_bits': {}, 'levels': {}, 'mask_sizes': {}}
    n = ctx.n(22, 400)
    src = molgen.pool(rng, n * 2)
    k = 0
    while stats['pairs'] < n and k < len(src):
        name, m0, cid = src[k]
        k += 1
        r = rng.random()
        o = molgen.rand_opts(rng)
        if r < 0.2:
            name, m0, cid = molgen.synthetic_symmetric(rng)                     # many shells with one identifier: counts > 1 without folding
        elif r < 0.3:
            o = dict(o, remdup=False, level=rng.choice([1, 2, 3]))           # duplicate substructures kept: counts > 1 at 2^32
        m = molfacts.gridded(m0, conf_ids={cid})
        bits = rng.choice(CTOR_BITS)
        pr = _make_pair(ctx, name, m, cid, o, bits, stats)
        if pr == 'failed':
            found = True
        if not isinstance(pr, tuple):
            continue
        cb, cc = pr
        stats['pairs'] += 1
        stats['ctor_bits'][str(bits)] = stats['ctor_bits'].get(str(bits), 0) + 1
        qs = [_rand_query(rng, cb) for _ in range(rng.choice([2, 3, 4]))]
        qs.append(qs[0])                                                        # the first query again after the others
        for lv, qbits, mask in qs:
            stats['queries'] += 1
            for key, v in (('query_bits', qbits), ('levels', 'k+2' if lv == cb.k + 2 else lv), ('mask_sizes', 'all' if mask and len(mask) == len(cb.heavy_retained()) else len(mask))):
                stats[key][str(v)] = stats[key].get(str(v), 0) + 1
            found |= _pair_check(ctx, cb, cc, lv, qbits, mask, stats)
        cases += [cb, cc]
    # one bit and one count Fingerprinter object, each reused over the conformers of one molecule object (A B C A)
    from e3fp.fingerprint.fprinter import Fingerprinter
    reused = {'objects': 0, 'runs': 0}
    shipped = list(molgen.shipped())
    rng.shuffle(shipped)
    for name, m0 in shipped[:ctx.n(3, 12)]:
        o = dict(molgen.rand_opts(rng), level=rng.choice([2, 3, 5]), remdup=True)
        bits = rng.choice([2 ** 32, 4096, 1024, 32])
        mk = lambda c: Fingerprinter(bits=bits, level=o['level'], radius_multiplier=o['mult'], stereo=o['stereo'], counts=c,
                                     include_disconnected=o['incl'], rdkit_invariants=o['rdkit'], exclude_floating=o['exfloat'],
                                     remove_duplicate_substructs=o['remdup'])
        fb, fc = mk(False), mk(True)
        ids = [conf.GetId() for conf in list(m0.GetConformers())[:3]]
        m = molfacts.gridded(m0, conf_ids=set(ids))
        reused['objects'] += 2
        for cid in ids + ids[:1]:
            cb = m1lib.Case(name + ' (reused bit fingerprinter)', m, cid, o, bits=bits, counts=False, reuse=fb)
            if cb.unstable or cb.err is not None:
                fc.run(cid, m) if cb.err is None else None
                continue
            cc = m1lib.Case(name + ' (reused count fingerprinter)', m, cid, o, bits=bits, counts=True, reuse=fc)
            if cc.err is not None:
                found = True
                ctx.fail('reused count fingerprinter raised %s' % cc.exc, cc.payload(), finding_key='C17:fprinter-count-run-raises', kind='property-on-implementation')
                continue
            reused['runs'] += 1
            for lv in [None] + list(range(0, o['level'] + 2)):
                stats['queries'] += 1
                found |= _pair_check(ctx, cb, cc, lv, rng.choice([None, bits, 1024, 2]), [], stats)
            cases += [cb, cc]
    stats['reused_fingerprinters'] = reused
    # the entry point most callers use: e3fp.pipeline.fprints_from_mol with counts on and off
    from e3fp.pipeline import fprints_from_mol
    pipe = {'molecules': 0, 'fingerprints': 0}
    for name, m0 in shipped[:ctx.n(3, 10)]:
        params = {'bits': rng.choice([2 ** 32, 4096, 1024, 32]), 'level': rng.choice([-1, 2, 5]), 'first': rng.choice([1, 2, 3]),
                  'radius_multiplier': rng.choice([1.5, 1.718, 2.0]), 'stereo': rng.random() < 0.7}
        lb = fpgen.attempt(lambda: fprints_from_mol(m0, fprint_params=dict(params, counts=False)))
        lc = fpgen.attempt(lambda: fprints_from_mol(m0, fprint_params=dict(params, counts=True)))
        pl = {'molecule': name, 'fprint_params': params}
        pipe['molecules'] += 1
        ctx.count(('c17pipe', name, str(sorted(params.items()))), True)
        if lb[0] != 'ok' or lc[0] != 'ok' or len(lb[1]) != len(lc[1]):
            found = True
            ctx.fail('fprints_from_mol with counts on / off: %s vs %s' % (lb[1] if lb[0] != 'ok' else len(lb[1]), lc[1] if lc[0] != 'ok' else len(lc[1])), pl,
                     finding_key='C17:pipeline-count-vs-bit', kind='property-on-implementation')
            continue
        for j, (b, c) in enumerate(zip(lb[1], lc[1])):
            pipe['fingerprints'] += 1
            ob, oc = fpgen.obs(b), fpgen.obs(c)
            f = Fingerprinter(bits=params['bits'], level=params['level'], radius_multiplier=params['radius_multiplier'], stereo=params['stereo'], counts=True)
            f.run(m0.GetConformers()[j].GetId(), m0)
            mult = Counter(_u32(s.identifier) % params['bits'] for s in f.get_shells_at_level(level=params['level']))
            if (ob['kind'], oc['kind']) != ('KBit', 'KCount') or ob['idx'] != oc['idx'] or ob['bits'] != oc['bits'] or ob['level'] != oc['level'] \
                    or ob['name'] != oc['name'] or {k: int(v) for k, v in oc['cnt']} != dict(mult):
                found = True
                ctx.fail('fprints_from_mol: count and bit fingerprints of conformer %d disagree (class / support / name / multiplicities)' % j,
                         dict(pl, bit=fpgen.obs_json(ob), count=fpgen.obs_json(oc), multiplicities={str(k): v for k, v in mult.items()}),
                         finding_key='C17:pipeline-count-vs-bit', kind='property-on-implementation')
    stats['pipeline'] = pipe
    ctx.coverage.setdefault('input_distribution', {})['fprinter_pairs_ext'] = stats
    found |= m1lib.run_cases(ctx, cases, 'C17 fingerprinter bit/count queries (extended query forms, reused objects)') > 0
    return found




def run(ctx):
    ok, res = core.proof_step(ctx)
    found = part_fprinter(ctx)
    found |= part_fprinter_ext(ctx)
    parts = []
    for modname in ('props.c17_fp', 'props.c17_db'):
        mod = importlib.import_module(modname)          # a missing or broken part fails the check (no silent degradation)
        parts.append(modname)
        found |= bool(mod.part(ctx))
    ctx.coverage['rule'] = ('paired bit/count fingerprinters on the same gridded (molecule, conformer, options) input at bits in {2^32, 4096, 1024, 32}: model tie for both, and on the '
                            'implementation support = set bits, each count = number of accepted shells folding to the position, total = number of shells; plus the parts '
                            + ', '.join(parts) + ' (fingerprint and database conversions between all ordered pairs of kinds)')
    if not ok:
        core.report_broken_proof(ctx, res, found)


def replay(ctx, path):
    return m1lib.replay_case(ctx, path)
