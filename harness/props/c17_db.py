"""C17, database part: as_type between all ordered kind pairs and casting additions keep the support and, where
representable, the values.  Theorems: Proofs/DbSpec.v as_type_casts, add_appends; Proofs/DbFold.v cast_row_support,
fp_row_support, cast_to_values.  Called by props/c17.py as part(ctx) -> found_input."""
import dbgen


def _support(db):
    """(stored columns per row, {column: stored value} per row).  A stored explicit zero (a zero count or a False that an
    addition or a cast left in the CSR structure) is NOT part of the support: C17 speaks of the non-zero positions."""
    o = dbgen.obs_db(db)
    return [sorted(j for j, v in r) for r in o['rows']], [dict(r) for r in o['rows']]


def _nonzero(vals):
    return [{j: v for j, v in row.items() if v != 0} for row in vals]


def _expected(sk, k, vals):
    """Non-zero cells of the source after the cast sk -> k (the oracle, written independently of the model): any non-zero
    value is True as a bit; a float becomes its integer part as a count (values in (0,1) are not representable: they become
    0 and leave the support); everything else is kept."""
    out = []
    for row in _nonzero(vals):
        if k == 'KBit':
            out.append({j: 1 for j in row})
        elif k == 'KCount' and sk == 'KFloat':
            out.append({j: int(v) for j, v in row.items() if int(v) != 0})
        else:
            out.append(dict(row))
    return out


def part(ctx):
    rng = ctx.rng
    found = False
    hists = {}
    for i in range(ctx.n(40, 500)):
        h = dbgen.History(rng)
        h.op_new(rng.choice(dbgen.KINDS), h.level)
        src = h.live[-1]
        h.op_add(src, h.batch(src, rng.choice([1, 2, 3, 4]), own=False))           # casting addition (lossless kinds)
        d = h.pool[src]
        if d.fp_num == 0:
            continue
        sk = dbgen.kind_of_type(d.fp_type)
        sup, vals = _support(d)
        for k in dbgen.KINDS:
            for cp in (False, True):
                r = h.op_as_type(src, k, cp)
                if r[0] != 'ok':
                    found = True
                    ctx.fail('as_type raised', {'ops': dbgen.descs_of(h.steps)}, finding_key='as_type-raises')
                    continue
                t = r[1]
                sup2, vals2 = _support(t)
                ctx.count(('c17db', sk, k, cp, str(sup)), sk != k)
                if sup2 != sup:
                    found = True
                    ctx.fail('as_type %s -> %s changed the set of stored positions' % (sk, k), {'ops': dbgen.descs_of(h.steps)}, finding_key='as_type-support')
                # non-zero positions and the values there (stored explicit zeros are not part of the support)
                nz2, exp = _nonzero(vals2), _expected(sk, k, vals)
                if [sorted(r) for r in nz2] != [sorted(r) for r in exp]:
                    found = True
                    ctx.fail('as_type %s -> %s changed the set of non-zero positions' % (sk, k), {'ops': dbgen.descs_of(h.steps)}, finding_key='as_type-nonzero-support')
                elif nz2 != exp:
                    found = True
                    ctx.fail('as_type %s -> %s changed representable values' % (sk, k), {'ops': dbgen.descs_of(h.steps)}, finding_key='as_type-values')
                # and back
                rb = h.op_as_type(len(h.pool) - 1, sk, True)
                if rb[0] == 'ok' and k != 'KBit' and not (k == 'KCount' and sk == 'KFloat') and not bool(rb[1] == d):
                    found = True
                    ctx.fail('as_type %s -> %s -> %s is not equal to the source' % (sk, k, sk), {'ops': dbgen.descs_of(h.steps)}, finding_key='as_type-roundtrip')
        # a conversion must reflect the database as it is NOW: as_type -> add -> as_type again, metric -> add -> metric
        # (tanimoto / dice convert a count or float database with as_type(Fingerprint, copy=False) on every call)
        others = [k for k in dbgen.KINDS if k != sk]
        k2 = rng.choice(others)
        h.op_as_type(src, k2, False)
        m = rng.choice(['MTanimoto', 'MDice', 'MSoergel', 'MCosine']) if (d.bits or 0) <= 4096 else 'MSoergel'
        h.op_metric(m, src, src)
        h.op_add(src, h.batch(src, rng.choice([1, 2]), own=True))
        r2 = h.op_as_type(src, k2, False)
        fresh = h.op_as_type(src, k2, True)
        ctx.count(('c17db-stale', i, sk, k2), True)
        if r2[0] == 'ok' and fresh[0] == 'ok':
            if dbgen.db_lit(dbgen.obs_db(r2[1])) != dbgen.db_lit(dbgen.obs_db(fresh[1])) or r2[1].fp_num != d.fp_num:
                found = True
                ctx.fail('as_type(%s, copy=False) after an addition does not show the added rows (stale conversion)' % k2,
                         {'ops': dbgen.descs_of(h.steps)}, finding_key='as_type-stale')
        _, M = dbgen.mods()
        import numpy as np
        for mname, f in (('tanimoto', M.tanimoto), ('dice', M.dice), ('soergel', M.soergel)):
            if mname != 'soergel' and (d.bits or 0) > 4096:
                continue
            got = dbgen.attempt(lambda: np.asarray(f(d, d)))
            from e3fp.fingerprint.fprint import Fingerprint
            ref_db = d.as_type(Fingerprint, copy=True) if mname != 'soergel' else d.as_type(d.fp_type, copy=True)
            ref = dbgen.attempt(lambda: np.asarray(f(ref_db, ref_db)))
            ctx.count(('c17db-metric', i, mname), True)
            if got[0] != ref[0] or (got[0] == 'ok' and (got[1].shape != (d.fp_num, d.fp_num) or not np.allclose(got[1], ref[1]))):
                found = True
                ctx.fail('%s(db, db) after an addition differs from the measure on a freshly converted database' % mname,
                         {'ops': dbgen.descs_of(h.steps), 'shape': list(got[1].shape) if got[0] == 'ok' else got[1], 'rows': d.fp_num},
                         finding_key='metric-stale-conversion')
        h.op_metric(m, src, src)
        hists['c17db-%d' % i] = h
    nbad = dbgen.check_histories(ctx, hists, 'C17 database casts', finding_key_of=lambda h, st: 'dbcast:model-vs-impl')
    return found or nbad > 0
