"""C17, database part: as_type between all ordered kind pairs and casting additions keep the support and, where
representable, the values.  Theorems: Proofs/DbSpec.v as_type_casts, add_appends; Proofs/DbFold.v cast_row_support,
fp_row_support, cast_to_values.  Called by props/c17.py as part(ctx) -> found_input."""
import dbgen


def _support(db):
    o = dbgen.obs_db(db)
    # stored columns = what db[i].indices reports (a float in (0,1) cast to a count is kept as a stored 0: not representable)
    return [sorted(j for j, v in r) for r in o['rows']], [dict(r) for r in o['rows']]


def part(ctx):
    rng = ctx.rng
    found = False
    hists = {}
    for i in range(ctx.n(40, 500)):
        h = dbgen.History(rng)
        h.op_new(rng.choice(dbgen.KINDS), h.level)
        src = h.live[-1]
        h.op_add(src, h.batch(src, rng.choice([1, 2, 3, 4]), own=False))           # casting addition (lossless kinds)
        d = h.pool[src]
        if d.fp_num == 0:
            continue
        sk = dbgen.kind_of_type(d.fp_type)
        sup, vals = _support(d)
        for k in dbgen.KINDS:
            for cp in (False, True):
                r = h.op_as_type(src, k, cp)
                if r[0] != 'ok':
                    found = True
                    ctx.fail('as_type raised', {'ops': dbgen.descs_of(h.steps)}, finding_key='as_type-raises')
                    continue
                t = r[1]
                sup2, vals2 = _support(t)
                ctx.count(('c17db', sk, k, cp, str(sup)), sk != k)
                if sup2 != sup:
                    found = True
                    ctx.fail('as_type %s -> %s changed the set of stored positions' % (sk, k), {'ops': dbgen.descs_of(h.steps)}, finding_key='as_type-support')
                # values are representable unless a float is cast to a count / anything to bit
                if k == 'KFloat' or (k == 'KCount' and sk != 'KFloat'):
                    exp = [{j: (v if sk != 'KBit' else 1) for j, v in row.items()} for row in vals]
                    if vals2 != exp:
                        found = True
                        ctx.fail('as_type %s -> %s changed representable values' % (sk, k), {'ops': dbgen.descs_of(h.steps)}, finding_key='as_type-values')
                # and back
                rb = h.op_as_type(len(h.pool) - 1, sk, True)
                if rb[0] == 'ok' and k != 'KBit' and not (k == 'KCount' and sk == 'KFloat') and not bool(rb[1] == d):
                    found = True
                    ctx.fail('as_type %s -> %s -> %s is not equal to the source' % (sk, k, sk), {'ops': dbgen.descs_of(h.steps)}, finding_key='as_type-roundtrip')
        hists['c17db-%d' % i] = h
    nbad = dbgen.check_histories(ctx, hists, 'C17 database casts', finding_key_of=lambda h, st: 'dbcast:model-vs-impl')
    return found or nbad > 0
