"""C17, database part: as_type between all ordered kind pairs and casting additions keep the support and, where
representable, the values.  Theorems: Proofs/DbSpec.v as_type_casts, add_appends; Proofs/DbFold.v cast_row_support,
fp_row_support, cast_to_values.  Called by props/c17.py as part(ctx) -> found_input."""
import numpy as np
import dbgen
import fpgen


def _support(db):
    """(stored columns per row, {column: stored value} per row).  A stored explicit zero (a zero count or a False that an
    addition or a cast left in the CSR structure) is NOT part of the support: C17 speaks of the non-zero positions."""
    o = dbgen.obs_db(db)
    return [sorted(j for j, v in r) for r in o['rows']], [dict(r) for r in o['rows']]


def _nonzero(vals):
    return [{j: v for j, v in row.items() if v != 0} for row in vals]


def _expected(sk, k, vals):
    """Non-zero cells of the source after the cast sk -> k (the oracle, written independently of the model): any non-zero
    value is True as a bit; a float becomes its integer part as a count (values in (0,1) are not representable: they become
    0 and leave the support); everything else is kept."""
    out = []
    for row in _nonzero(vals):
        if k == 'KBit':
            out.append({j: 1 for j in row})
        elif k == 'KCount' and sk == 'KFloat':
            out.append({j: int(v) for j, v in row.items() if int(v) != 0})
        else:
            out.append(dict(row))
    return out


def part(ctx):
    rng = ctx.rng
    found = False
    hists = {}
    for i in range(ctx.n(40, 500)):
        h = dbgen.History(rng)
        h.op_new(rng.choice(dbgen.KINDS), h.level)
        src = h.live[-1]
        h.op_add(src, h.batch(src, rng.choice([1, 2, 3, 4]), own=False))           # casting addition (lossless kinds)
        d = h.pool[src]
        if d.fp_num == 0:
            hists['c17db-%d' % i] = h               # the (refused / empty) addition is still compared with the model
            continue
        sk = dbgen.kind_of_type(d.fp_type)
        sup, vals = _support(d)
        for k in dbgen.KINDS:
            for cp in (False, True):
                r = h.op_as_type(src, k, cp)
                if r[0] != 'ok':
                    found = True
                    ctx.fail('as_type raised', {'ops': dbgen.descs_of(h.steps)}, finding_key='as_type-raises')
                    continue
                t = r[1]
                sup2, vals2 = _support(t)
                ctx.count(('c17db', sk, k, cp, str(sup)), sk != k)
                if sup2 != sup:
                    found = True
                    ctx.fail('as_type %s -> %s changed the set of stored positions' % (sk, k), {'ops': dbgen.descs_of(h.steps)}, finding_key='as_type-support')
                # non-zero positions and the values there (stored explicit zeros are not part of the support)
                nz2, exp = _nonzero(vals2), _expected(sk, k, vals)
                if [sorted(r) for r in nz2] != [sorted(r) for r in exp]:
                    found = True
                    ctx.fail('as_type %s -> %s changed the set of non-zero positions' % (sk, k), {'ops': dbgen.descs_of(h.steps)}, finding_key='as_type-nonzero-support')
                elif nz2 != exp:
                    found = True
                    ctx.fail('as_type %s -> %s changed representable values' % (sk, k), {'ops': dbgen.descs_of(h.steps)}, finding_key='as_type-values')
                # and back
                rb = h.op_as_type(len(h.pool) - 1, sk, True)
                if rb[0] == 'ok' and k != 'KBit' and not (k == 'KCount' and sk == 'KFloat') and not bool(rb[1] == d):
                    found = True
                    ctx.fail('as_type %s -> %s -> %s is not equal to the source' % (sk, k, sk), {'ops': dbgen.descs_of(h.steps)}, finding_key='as_type-roundtrip')
        # a conversion must reflect the database as it is NOW: as_type -> add -> as_type again, metric -> add -> metric
        # (tanimoto / dice convert a count or float database with as_type(Fingerprint, copy=False) on every call)
        others = [k for k in dbgen.KINDS if k != sk]
        k2 = rng.choice(others)
        h.op_as_type(src, k2, False)
        m = rng.choice(['MTanimoto', 'MDice', 'MSoergel', 'MCosine']) if (d.bits or 0) <= 4096 else 'MSoergel'
        h.op_metric(m, src, src)
        h.op_add(src, h.batch(src, rng.choice([1, 2]), own=True))
        r2 = h.op_as_type(src, k2, False)
        fresh = h.op_as_type(src, k2, True)
        ctx.count(('c17db-stale', i, sk, k2), True)
        if r2[0] == 'ok' and fresh[0] == 'ok':
            if dbgen.db_lit(dbgen.obs_db(r2[1])) != dbgen.db_lit(dbgen.obs_db(fresh[1])) or r2[1].fp_num != d.fp_num:
                found = True
                ctx.fail('as_type(%s, copy=False) after an addition does not show the added rows (stale conversion)' % k2,
                         {'ops': dbgen.descs_of(h.steps)}, finding_key='as_type-stale')
        _, M = dbgen.mods()
        import numpy as np
        for mname, f in (('tanimoto', M.tanimoto), ('dice', M.dice), ('soergel', M.soergel)):
            if mname != 'soergel' and (d.bits or 0) > 4096:
                continue
            got = dbgen.attempt(lambda: np.asarray(f(d, d)))
            from e3fp.fingerprint.fprint import Fingerprint
            ref_db = d.as_type(Fingerprint, copy=True) if mname != 'soergel' else d.as_type(d.fp_type, copy=True)
            ref = dbgen.attempt(lambda: np.asarray(f(ref_db, ref_db)))
            ctx.count(('c17db-metric', i, mname), True)
            if got[0] != ref[0] or (got[0] == 'ok' and (got[1].shape != (d.fp_num, d.fp_num) or not np.allclose(got[1], ref[1]))):
                found = True
                ctx.fail('%s(db, db) after an addition differs from the measure on a freshly converted database' % mname,
                         {'ops': dbgen.descs_of(h.steps), 'shape': list(got[1].shape) if got[0] == 'ok' else got[1], 'rows': d.fp_num},
                         finding_key='metric-stale-conversion')
        h.op_metric(m, src, src)
        hists['c17db-%d' % i] = h
    nbad = dbgen.check_histories(ctx, hists, 'C17 database casts', finding_key_of=lambda h, st: 'dbcast:model-vs-impl')
    found_ext = part_ext(ctx)
    return found or nbad > 0 or found_ext


# --------------------------------------------------------------------------------------------- coverage extension (c)
# Sources the first stream does not draw: databases built by from_array (dense / sparse, any source dtype, explicit zeros,
# unsorted columns, rows without any bit), additions whose cast loses information (fractional floats into a count database,
# counts into a bit database), empty databases; observations it does not make: dtype / class / names / level / props of the
# converted database, the fingerprints read back from it against the fingerprint-level conversion, fold(bits, fp_type=K) as a
# conversion, the row a casting addition stores against the fingerprint-level conversion, and the independence of source and
# converted database under later additions to either; from_array without fp_type (kind inferred from the dtype).
def _frame(db):
    o = dbgen.obs_db(db)
    return {'db_name': db.name, 'names': o['names'], 'level': o['level'], 'bits': o['bits'], 'props': o['props'], 'index': sorted(o['index'], key=str), 'rows': len(o['rows'])}


def _fp_nonzero(f):
    return {j: v for j, v in fpgen.obs(f)['cnt'] if v != 0}


def _fp_wf(f):
    o = fpgen.obs(f)
    return all(v > 0 for _, v in o['cnt']) and [j for j, _ in o['cnt']] == o['idx']


AWKWARD = [0.1, 1.0 / 3, 2.0 / 3, 1e-3, 12345.678, 65535.9999, 1.0000001, 3.999999999, 7.5e-5, 255.99, 1e-300, 40000.000001]


def _awkward_batch(h, src, n):
    """Float fingerprints whose values need the full double mantissa (not dyadic, not representable in float32, within and
    far below / above the count range): built on dbgen's batch so that names and property columns fit the database."""
    rng = h.rng
    out = h.batch(src, n, own=True)
    F = fpgen.classes()['KFloat']
    for f in out:
        bits = f['obs']['bits']
        idx = fpgen.rand_indices(rng, bits, 5) or [0]
        kw = {'bits': bits, 'level': f['obs']['level'], 'props': dict(f['props'])}
        if f['obs']['name']:
            kw['name'] = f['obs']['name']
        f['fp'] = F.from_counts({int(j): rng.choice(AWKWARD) for j in idx}, **kw)        # all below 65536: every database here is also cast to counts (uint16)
        f['obs'] = fpgen.obs(f['fp'])
    return out


def part_ext(ctx):
    rng = ctx.rng
    C = fpgen.classes()
    found = [False]
    hists = {}
    stats = ctx.coverage.setdefault('input_distribution', {}).setdefault('db_ext', {})

    def bump(key, n=1):
        stats[key] = stats.get(key, 0) + n

    def fail(key, what, h, extra=None):
        found[0] = True
        ctx.fail(what, dict({'ops': dbgen.descs_of(h.steps)}, **(extra or {})), finding_key=key, kind='property-on-implementation')

    for i in range(ctx.n(30, 400)):
        h = dbgen.History(rng)
        h.MAX_LIVE = 10
        hists['c17dbx-%d' % i] = h
        awkward = False             # full-mantissa float values present: colliding cells are then not summed (the model adds exactly, float64 rounds)
        r = rng.random()
        if r < 0.1:
            # a database without rows: every conversion to another kind (or with copy=True) fails the same way on both sides
            h.op_new(rng.choice(dbgen.KINDS), h.level)
            for k in dbgen.KINDS:
                h.op_as_type(h.live[0], k, rng.random() < 0.5)
            bump('source/empty-database')
            continue
        if r < 0.45:
            res = h.rand_from_array()
            if res[0] != 'ok':
                bump('source/from_array-refused')
                continue
            src = h.live[-1]
            last = h.steps[-1]['op']
            bump('source/from_array/%s/%s-as-%s' % ('dense' if last['dense'] else 'sparse', last['src_dtype'], last['kind']))
        else:
            h.op_new(rng.choice(dbgen.KINDS), h.level)
            src = h.live[-1]
            h.op_add(src, h.batch(src, rng.choice([1, 2, 3, 4]), own=False, lossy=True))
            bump('source/new+lossy-mixed-addition')
            if rng.random() < 0.6:
                h.op_add(src, _awkward_batch(h, src, rng.choice([1, 2])))
                awkward = True
                bump('source/+float-fingerprints-with-full-mantissa-values')
        d = h.pool[src]
        if d.fp_num == 0:
            hists['c17dbx-%d' % i] = h               # the (refused / empty) addition is still compared with the model
            continue
        sk = dbgen.kind_of_type(d.fp_type)
        d.name = rng.choice([None, 'db', 'my db'])             # the database's own name (not part of the model's state) must be carried too
        sup, vals = _support(d)
        frame = _frame(d)
        stored_zero = [any(v == 0 for v in row.values()) for row in vals]
        if d.array.dtype != np.dtype(dbgen.DTYPE[sk]):
            fail('db-dtype', 'the matrix of a %s database has dtype %s' % (sk, d.array.dtype), h)
        conv = {}
        for k in dbgen.KINDS:
            cp = rng.random() < 0.5
            rr = h.op_as_type(src, k, cp)
            ctx.count(('c17dbx', i, sk, k, cp), sk != k)
            bump('as_type/%s->%s' % (sk, k))
            if rr[0] != 'ok':
                fail('as_type-raises', 'as_type raised %s' % rr[1], h)
                continue
            t = conv[k] = rr[1]
            if t.fp_type is not C[k] or t.array.dtype != np.dtype(dbgen.DTYPE[k]):
                fail('as_type-class', 'as_type %s -> %s: class %s, matrix dtype %s' % (sk, k, t.fp_type.__name__, t.array.dtype), h)
            if _frame(t) != frame:
                fail('as_type-frame', 'as_type %s -> %s changed names / level / bits / properties / number of rows' % (sk, k), h, {'before': str(frame)[:600], 'after': str(_frame(t))[:600]})
            if (t is d) != (k == sk and not cp):
                fail('as_type-identity', 'as_type(%s, copy=%s) of a %s database %s' % (k, cp, sk, 'returned the database itself' if t is d else 'returned a new object'), h)
            sup2, vals2 = _support(t)
            nz2, exp = _nonzero(vals2), _expected(sk, k, vals)
            if sup2 != sup or nz2 != exp:
                fail('as_type-nonzero-support' if [sorted(x) for x in nz2] != [sorted(x) for x in exp] else 'as_type-values',
                     'as_type %s -> %s: stored positions / non-zero positions / representable values differ from the cast of the source' % (sk, k), h)
            # the fingerprints read back from the converted database = the fingerprint-level conversion of the source's fingerprints
            for row in range(d.fp_num):
                if stored_zero[row]:
                    bump('read-back/row-with-stored-zero-skipped')
                    continue
                f_t = dbgen.attempt(lambda: t[row])
                f_c = dbgen.attempt(lambda: C[k].from_fingerprint(d[row]))
                bump('read-back/%s->%s' % (sk, k))
                ctx.count(('c17dbx-rb', i, k, row), True)
                if f_t[0] != 'ok' or f_c[0] != 'ok':
                    fail('read-back-raises', 'reading row %d of the converted database / converting the fingerprint raised (%s / %s)' % (row, f_t[1] if f_t[0] != 'ok' else 'ok', f_c[1] if f_c[0] != 'ok' else 'ok'), h)
                    continue
                ot, oc = fpgen.obs(f_t[1]), fpgen.obs(f_c[1])
                if ot['kind'] != k or (ot['bits'], ot['level'], ot['name']) != (oc['bits'], oc['level'], oc['name']) or _fp_nonzero(f_t[1]) != _fp_nonzero(f_c[1]):
                    fail('read-back-vs-conversion', 'row %d read from as_type(%s) of a %s database differs from %s.from_fingerprint of the source row' % (row, k, sk, k), h,
                         {'from_database': fpgen.obs_json(ot), 'from_fingerprint': fpgen.obs_json(oc)})
            # fold to the same length with fp_type=K is a conversion too
            rf = h.op_fold(src, d.bits, k)
            bump('fold-as-conversion/%s->%s' % (sk, k))
            if rf[0] != 'ok':
                fail('fold-as-conversion-raises', 'fold(bits, fp_type=%s) raised %s' % (k, rf[1]), h)
            else:
                tf = rf[1]
                _, valsf = _support(tf)
                if tf.fp_type is not C[k] or tf.array.dtype != np.dtype(dbgen.DTYPE[k]) or _nonzero(valsf) != exp or _frame(tf) != frame:
                    fail('fold-as-conversion', 'fold(%d, fp_type=%s) of a %s database differs from as_type(%s) (class / dtype / non-zero cells / names / properties)' % (d.bits, k, sk, k), h)
        # the converted database read by iteration and by name (model tie: the class and counts of every fingerprint handed out)
        live_conv = [(k, g) for k in conv for g in h.live if h.pool[g] is conv[k] and conv[k] is not d]
        if live_conv:
            k, g = rng.choice(live_conv)
            h.op_iter(g)
            present = [nm for nm in dict.keys(conv[k].fp_names_to_indices) if nm is not None]
            if present:
                h.op_getname(g, rng.choice(present))
            bump('iterate-converted/%s->%s' % (sk, k))
            it = dbgen.attempt(lambda: [fpgen.obs(f) for f in conv[k]])
            ix = dbgen.attempt(lambda: [fpgen.obs(conv[k][a]) for a in range(conv[k].fp_num)])
            if it != ix or it[0] != 'ok' or any(o['kind'] != k for o in it[1]):
                fail('iterate-vs-index', 'iterating over the database obtained by as_type(%s) gives other fingerprints than indexing it' % k, h)
        # folding to a shorter length while converting keeps the folded support (where every colliding sum is representable)
        if d.bits >= 2 and d.bits & (d.bits - 1) == 0 and not awkward:
            nb = max(1, d.bits >> rng.choice([1, 1, 2, 3, 30]))
            k = rng.choice(dbgen.KINDS)
            rf = h.op_fold(src, nb, k)
            nzsrc = _nonzero(vals)
            sums = [{} for _ in nzsrc]
            for row, cells in zip(sums, nzsrc):
                for j, v in cells.items():
                    row[j % nb] = row.get(j % nb, 0) + v
            representable = all(v < 65536 for row in sums for v in row.values()) if 'KCount' in (sk, k) else True
            integral = all(v == int(v) for row in nzsrc for v in row.values())
            if rf[0] == 'ok' and representable and (integral or k != 'KCount'):
                _, valsf = _support(rf[1])
                bump('fold-shorter-as-conversion/%s->%s' % (sk, k))
                if [sorted(x) for x in _nonzero(valsf)] != [sorted(x) for x in sums]:
                    fail('fold-shorter-support', 'fold(%d, fp_type=%s) of a %s database: non-zero positions are not the folded non-zero positions of the source' % (nb, k, sk), h)
            elif rf[0] != 'ok':
                fail('fold-as-conversion-raises', 'fold(%d, fp_type=%s) raised %s' % (nb, k, rf[1]), h)
        # a casting addition stores what the fingerprint-level conversion gives; earlier conversions do not see it
        before = {k: dbgen.db_lit(dbgen.obs_db(t)) for k, t in conv.items() if t is not d}
        batch = h.batch(src, rng.choice([1, 2, 3]), own=False, lossy=True)
        n0 = d.fp_num
        ra = h.op_add(src, batch)
        if ra[0] == 'ok':
            _, vals_now = _support(d)
            for off, f in enumerate(batch):
                if not _fp_wf(f['fp']):
                    bump('cast-on-add/fingerprint-with-zero-count-skipped')
                    continue
                fk = f['obs']['kind']
                bump('cast-on-add/%s-into-%s' % (fk, sk))
                ctx.count(('c17dbx-add', i, off, fk, sk), fk != sk)
                want = _fp_nonzero(C[sk].from_fingerprint(f['fp']))
                got = {j: v for j, v in vals_now[n0 + off].items() if v != 0}
                if got != want:
                    fail('cast-on-add-vs-conversion', 'the row stored for a %s fingerprint added to a %s database differs from %s.from_fingerprint of it' % (fk, sk, sk), h,
                         {'row': {str(j): str(v) for j, v in got.items()}, 'conversion': {str(j): str(v) for j, v in want.items()}})
            if d.array.dtype != np.dtype(dbgen.DTYPE[sk]):
                fail('db-dtype', 'after a casting addition the matrix of a %s database has dtype %s' % (sk, d.array.dtype), h)
            for k, lit0 in before.items():
                if dbgen.db_lit(dbgen.obs_db(conv[k])) != lit0:
                    fail('as_type-aliasing', 'an addition to the source changed a database obtained earlier by as_type(%s)' % k, h)
        # ... and the other way round: add to a converted database, then convert it back
        others = [k for k in conv if conv[k] is not d and conv[k].fp_num > 0]
        if others:
            k = rng.choice(others)
            hk = [g for g in range(len(h.pool)) if h.pool[g] is conv[k]][0]
            lit_src = dbgen.db_lit(dbgen.obs_db(d))
            if hk in h.live:
                h.op_add(hk, h.batch(hk, rng.choice([1, 2]), own=False, lossy=True))
                bump('add-to-converted-then-back/%s->%s->%s' % (sk, k, sk))
                if dbgen.db_lit(dbgen.obs_db(d)) != lit_src:
                    fail('as_type-aliasing', 'an addition to a database obtained by as_type(%s) changed the source' % k, h)
                rb = h.op_as_type(hk, sk, rng.random() < 0.5)
                if rb[0] == 'ok':
                    _, vb = _support(rb[1])
                    _, vk = _support(conv[k])
                    if _nonzero(vb) != _expected(k, sk, vk):
                        fail('as_type-values', 'as_type back to %s after an addition to the %s database: cells differ from the cast' % (sk, k), h)
    nbad = dbgen.check_histories(ctx, hists, 'C17 database casts (extended sources)', finding_key_of=lambda h, st: 'dbcast:model-vs-impl')
    # from_array without fp_type: the kind follows the dtype of the array (bool -> bit, any integer -> count, any float -> float)
    D, _ = dbgen.mods()
    from scipy.sparse import csr_matrix
    for i in range(ctx.n(24, 300)):
        dt, want_kind = rng.choice([(np.bool_, 'KBit'), (np.uint8, 'KCount'), (np.int32, 'KCount'), (np.int64, 'KCount'), (np.uint16, 'KCount'),
                                    (np.float32, 'KFloat'), (np.float64, 'KFloat')])
        bits = rng.choice([8, 16, 1024, 2 ** 20])
        n = rng.choice([1, 2, 3])
        rows = []
        for _ in range(n):
            idx = fpgen.rand_indices(rng, bits, 5)
            if dt is np.bool_:
                v = [1] * len(idx)
            elif want_kind == 'KCount':
                v = [rng.choice([1, 2, 7, 200]) for _ in idx]
            else:
                v = [rng.choice([0.5, 1.0, 2.25, 9.0, 250.0]) for _ in idx]
            rows.append(dict(zip(idx, v)))
        dense = bits <= 16 and rng.random() < 0.5
        if dense:
            arr = np.zeros((n, bits), dtype=dt)
            for a, row in enumerate(rows):
                for j, v in row.items():
                    arr[a, j] = v
        else:
            arr = csr_matrix((np.array([v for row in rows for v in row.values()], dtype=dt), np.array([j for row in rows for j in row], dtype=np.int64),
                              np.cumsum([0] + [len(row) for row in rows]).astype(np.int64)), shape=(n, bits))
        names = ['n%d' % a for a in range(n)]
        pl = {'dtype': np.dtype(dt).name, 'dense': dense, 'bits': bits, 'rows': [{str(j): v for j, v in row.items()} for row in rows]}
        ctx.count(('c17dbx-infer', str(pl)), True)
        bump('from_array-kind-inferred/%s' % np.dtype(dt).name)
        rdb = dbgen.attempt(lambda: D.FingerprintDatabase.from_array(arr, names, level=5))
        if rdb[0] != 'ok':
            found[0] = True
            ctx.fail('from_array without fp_type raised %s' % rdb[1], pl, finding_key='from_array-inferred-kind', kind='property-on-implementation')
            continue
        db = rdb[1]
        _, v0 = _support(db)
        # (the matrix keeps the array's own dtype on this route - an int64 count database; C17 speaks of positions and values only)
        if dbgen.kind_of_type(db.fp_type) != want_kind \
                or _nonzero(v0) != [{j: fpgen.fr(1 if want_kind == 'KBit' else v) for j, v in row.items()} for row in rows]:
            found[0] = True
            ctx.fail('from_array without fp_type on a %s array: kind %s (matrix dtype %s), or cells differ from the array' % (np.dtype(dt).name, dbgen.kind_of_type(db.fp_type), db.array.dtype),
                     dict(pl, cells=str(_nonzero(v0))[:400]), finding_key='from_array-inferred-kind', kind='property-on-implementation')
            continue
        for k in dbgen.KINDS:
            t = dbgen.attempt(lambda: db.as_type(C[k], copy=True))
            if t[0] != 'ok' or _nonzero(_support(t[1])[1]) != _expected(want_kind, k, v0) or t[1].array.dtype != np.dtype(dbgen.DTYPE[k]):
                found[0] = True
                ctx.fail('as_type(%s) of a database built from a %s array without fp_type' % (k, np.dtype(dt).name), pl, finding_key='as_type-values', kind='property-on-implementation')
    return found[0] or nbad > 0
