"""C17, fingerprint part - converting fingerprints between bit, count and float kinds preserves the set of non-zero
positions and, where representable, the values; a count fingerprint built from an index multiset has support = the set
and counts = multiplicities.  Lemmas: Proofs/FprintConv.v (convert_support, convert_values, convert_nz_support,
count_is_multiplicity_fp).  Exposes part(ctx) -> found_input for props/c17.py."""
from fractions import Fraction
import numpy as np
import core
import fpgen
import fpio
from fpgen import lit, attempt, result_lit
from fpio import IMPORTS, rand_spec, build, xobs, xobs_json


def part(ctx):
    rng, C = ctx.rng, fpgen.classes()
    cases, payloads, mexpr = [], {}, {}
    found = [False]
    dist = ctx.coverage.setdefault('input_distribution', {}) if isinstance(ctx.coverage.get('input_distribution'), dict) else {}
    ctx.coverage['input_distribution'] = dist

    def add(tag, expr, payload, m, nontrivial=True):
        key = 'fp/%s/%d' % (tag, len(cases))
        cases.append((key, expr))
        payloads[key] = dict(payload, section=tag)
        mexpr[key] = m
        dist['fp/' + tag] = dist.get('fp/' + tag, 0) + 1
        ctx.count(('fp', tag, str(payload)), nontrivial)

    def prop_fail(key, what, payload):
        found[0] = True
        ctx.fail(what, payload, finding_key=key, kind='property-on-implementation')

    # 1. all nine ordered kind pairs on well-formed fingerprints
    for i in range(ctx.n(60, 1000)):
        sa = rand_spec(rng, big=rng.random() < 0.2)
        a = build(sa)
        oa = xobs(a)
        pos = dict(oa['cnt'])
        for k in fpgen.KINDS:
            r = attempt(lambda: C[k].from_fingerprint(a))
            ro = ('ok', xobs(r[1])) if r[0] == 'ok' else r
            m = 'from_fingerprint %s %s' % (k, lit(oa))
            add('convert/%s->%s' % (oa['kind'], k), 'result_eqb fp_obs_eqb (%s) %s' % (m, result_lit(ro)),
                {'a': xobs_json(oa), 'to': k, 'impl': xobs_json(ro[1]) if ro[0] == 'ok' else ro[1]}, m, bool(oa['idx']))
            pl = {'a': xobs_json(oa), 'to': k}
            if r[0] != 'ok':
                prop_fail('convert:raised', '%s.from_fingerprint raised %s' % (k, r[1]), pl)
                continue
            b, ob = r[1], ro[1]
            pl['result'] = xobs_json(ob)
            if xobs(a) != oa:
                prop_fail('convert:source-mutated', 'conversion changed its source', pl)
            if ob['kind'] != k or ob['bits'] != oa['bits'] or ob['level'] != oa['level'] or ob['name'] != oa['name'] or ob['props'] != oa['props']:
                prop_fail('convert:frame', 'kind/bits/level/name/props not carried by the conversion', pl)
            # support: indices of the result = positions with a positive count in the source
            if ob['idx'] != sorted(pos):
                prop_fail('convert:support', 'indices of the result differ from the non-zero positions of the source', pl)
            # values
            for j, v in ob['cnt']:
                src = pos.get(j)
                want = 1 if (k == 'KBit' or oa['kind'] == 'KBit') else (src if k == 'KFloat' else Fraction(int(src)))
                if v != want:
                    prop_fail('convert:values', 'value at %d is %s, expected %s' % (j, v, want), pl)
                    break
            # OUTCOME test of the listed finding: the result lists a position whose stored count is 0 (a float value in (0,1)
            # truncated by int()); everything else about such a result is still compared above and against the model
            zero_listed = [j for j, v in ob['cnt'] if v == 0 and j in ob['idx']]
            if zero_listed:
                ctx.fail('%s.from_fingerprint(%s fingerprint) lists position(s) %s with stored count 0: the non-zero position is kept in indices but its value is zero'
                         % (k, oa['kind'], zero_listed[:5]), dict(pl, positions_with_stored_zero=zero_listed),
                         finding_key='from_fingerprint:float-below-one-to-count', kind='property-on-implementation')
                if not any(f.get('key') == 'from_fingerprint:float-below-one-to-count' and f.get('status') == 'known' for f in ctx.findings):
                    found[0] = True
            # get_count agrees with the model on and off the support
            probes = (ob['idx'][:2] + [0, oa['bits'] - 1])[:4]
            for j in probes:
                g = attempt(lambda: b.get_count(j))
                if g[0] == 'ok':
                    add('get_count', 'Qeq_bool (get_count %s %s) %s' % (lit(ob), core.zlit(j), core.qlit(fpgen.fr(g[1]))),
                        {'a': xobs_json(ob), 'i': j, 'impl': str(g[1])}, 'get_count %s %s' % (lit(ob), core.zlit(j)), j in ob['idx'])
    # 2. count fingerprints from an index multiset (what the fingerprinter does with its identifier list)
    for i in range(ctx.n(50, 800)):
        bits = fpio.rand_bits(rng)
        base = fpio.rand_index_set(rng, bits) or [0]
        multi = []
        for j in base:
            multi += [j] * rng.choice([1, 1, 1, 2, 3, 7])
        rng.shuffle(multi)
        k = rng.choice(['KCount', 'KFloat', 'KBit'])
        lv = rng.choice(fpio.LEVELS)
        r = attempt(lambda: C[k].from_indices(np.array(multi, dtype=np.int64), bits=bits, level=lv))
        ro = ('ok', xobs(r[1])) if r[0] == 'ok' else r
        m = 'from_index_list %s %s %s %s None' % (k, core.zlist(multi), core.zlit(bits), core.optlit(lv))
        add('multiset/' + k, 'result_eqb fp_obs_eqb (%s) %s' % (m, result_lit(ro)),
            {'indices': multi, 'bits': bits, 'kind': k, 'impl': xobs_json(ro[1]) if ro[0] == 'ok' else ro[1]}, m, len(multi) > len(base))
        if r[0] != 'ok':
            prop_fail('multiset:raised', 'from_indices raised %s' % r[1], {'indices': multi, 'bits': bits, 'kind': k})
            continue
        ob = ro[1]
        want = sorted((j, Fraction(1 if k == 'KBit' else multi.count(j))) for j in set(multi))
        if ob['idx'] != sorted(set(multi)) or ob['cnt'] != want:
            prop_fail('multiset:counts', 'support/counts are not the set/multiplicities of the index list', {'indices': multi, 'bits': bits, 'kind': k, 'result': xobs_json(ob)})
        if k != 'KBit':
            rb = attempt(lambda: xobs(C['KBit'].from_indices(np.array(multi, dtype=np.int64), bits=bits, level=lv)))
            if rb[0] != 'ok' or rb[1]['idx'] != ob['idx']:
                prop_fail('multiset:bit-vs-count', 'bit and count fingerprints of one index list differ in support', {'indices': multi, 'bits': bits})
    # 3. sources outside the domain (zero / negative counts): the model is faithful; recorded, not failed
    for i in range(ctx.n(30, 400)):
        a = fpio.build_signed(rng)
        oa = xobs(a)
        for k in fpgen.KINDS:
            r = attempt(lambda: C[k].from_fingerprint(a))
            ro = ('ok', xobs(r[1])) if r[0] == 'ok' else r
            m = 'from_fingerprint %s %s' % (k, lit(oa))
            add('signed/%s->%s' % (oa['kind'], k), 'result_eqb fp_obs_eqb (%s) %s' % (m, result_lit(ro)),
                {'a': xobs_json(oa), 'to': k, 'impl': xobs_json(ro[1]) if ro[0] == 'ok' else ro[1]}, m, True)
            if r[0] == 'ok':
                nzsrc = [j for j, v in oa['cnt'] if v != 0]
                if ro[1]['idx'] != nzsrc:
                    fpio.outside_domain(ctx, 'from_fingerprint:nonpositive-counts' + ('-kept-as-bits' if k == 'KBit' else '-dropped'),
                                        ('Fingerprint.from_fingerprint keeps positions whose count is zero (it copies `indices`)' if k == 'KBit' else
                                         'Count/FloatFingerprint.from_fingerprint drops positions whose count is negative (`c > 0`)') +
                                        ': the non-zero positions of a fingerprint holding zero/negative counts (e.g. a - b) are not preserved',
                                        {'a': xobs_json(oa), 'to': k, 'result': xobs_json(ro[1])})
    nbad = core.compare_cases(ctx, cases, IMPORTS, 'C17 fingerprint conversions', payloads, model_expr=mexpr,
                              finding_key_of=lambda k, pl: 'model:%s' % pl.get('section'))
    ctx.assumptions += ['fingerprint conversions: the domain is well-formed sources (every listed position has a positive count). A float value in (0,1) converted to the count kind is inside the domain and is reported through the known-finding key from_fingerprint:float-below-one-to-count (outcome test: a listed position with stored count 0). Only sources that themselves hold zero or negative counts (results of subtraction; not "counts" of set bits) are outside the domain: what from_fingerprint does with them is compared with the model and recorded as an evidence note, not failed']
    return found[0] or nbad > 0
