"""C17, fingerprint part - converting fingerprints between bit, count and float kinds preserves the set of non-zero
positions and, where representable, the values; a count fingerprint built from an index multiset has support = the set
and counts = multiplicities.  Lemmas: Proofs/FprintConv.v (convert_support, convert_values, convert_nz_support,
count_is_multiplicity_fp).  Exposes part(ctx) -> found_input for props/c17.py.

Streams: 1 conversions of well-formed fingerprints built by from_indices / from_counts (all nine ordered pairs);
2 count fingerprints from an index multiset; 3 sources outside the domain (zero / negative counts: recorded);
4 sources that reached their state by another route (folded, carrying a fold cache, from a dense / sparse vector of any
dtype, from a bit string, from RDKit, results of operators, unpickled, NumPy-typed counts), with the fold cache of the
result exercised; 5 conversion chains, repeated conversions and aliasing between source and result; 6 error paths and
constructor argument forms of CountFingerprint (indices + counts, counts only, containers and dtypes of the index list);
7 the vector views (to_vector with the dtype of another kind = what a database does when it casts an addition)."""
import pickle
from fractions import Fraction
import numpy as np
import core
import fpgen
import fpio
from fpgen import lit, attempt, result_lit
from fpio import IMPORTS, rand_spec, build, xobs, xobs_json

DT = {'KBit': np.bool_, 'KCount': np.uint16, 'KFloat': np.float64}
KNOWN_ZERO = 'from_fingerprint:float-below-one-to-count'
CACHE_KEY = 'from_fingerprint:fold-cache-keeps-source-kind'        # repro: findings/repro_cov_c17.py
COPY_CACHE_KEY = 'from_fingerprint:fold-cache-copy-unusable'


def conv_oracle(src_kind, k, cnt):
    """Expected counts of C[k].from_fingerprint(source) for a well-formed source (written independently of the model)."""
    if k == 'KBit' or src_kind == 'KBit':
        return {j: Fraction(1) for j in cnt}
    if k == 'KFloat':
        return dict(cnt)
    return {j: Fraction(int(v)) for j, v in cnt.items()}


def well_formed(o):
    return [j for j, _ in o['cnt']] == o['idx'] and all(v > 0 for _, v in o['cnt']) and o['idx'] == sorted(set(o['idx'])) \
        and all(0 <= j < o['bits'] for j in o['idx'])


def _pow2_spec(rng, kind=None, maxbits=2 ** 32, minbits=4):
    bits = rng.choice([b for b in (4, 8, 16, 64, 1024, 4096, 2 ** 16, 2 ** 20, 2 ** 32) if minbits <= b <= maxbits])
    return rand_spec(rng, kind=kind, bits=bits)


def _entries(spec):
    if 'cnt' in spec:
        return sorted((int(k), Fraction(v)) for k, v in spec['cnt'].items())
    return [(int(i), Fraction(1)) for i in spec['idx']]


def route_source(rng, C):
    """(route, fingerprint, rebuild) - `rebuild()` gives an equal fingerprint that carries no fold cache (or None)."""
    from scipy.sparse import csr_matrix
    route = rng.choice(['cached', 'cached', 'folded', 'vector_dense', 'vector_sparse', 'bitstring', 'rdkit', 'operator', 'operator',
                        'pickled', 'np_typed', 'indices+counts'])
    if route in ('cached', 'folded'):
        spec = _pow2_spec(rng)
        a = build(spec)
        shifts = [s for s in (1, 1, 2, 3, 8, 31, 32) if (spec['bits'] >> s) >= 1]
        if route == 'cached':
            for _ in range(rng.choice([1, 1, 2])):
                a.fold(spec['bits'] >> rng.choice(shifts), rng.choice([0, 0, 1]))
            return route, a, (lambda: build(spec))
        return route, a.fold(spec['bits'] >> rng.choice(shifts), rng.choice([0, 0, 1])), None
    if route in ('vector_dense', 'vector_sparse', 'bitstring', 'rdkit'):
        k0 = rng.choice(fpgen.KINDS)
        bits = rng.choice([1, 2, 5, 8, 33, 64, 1024, 4096] if route != 'vector_sparse' else [8, 64, 4096, 99999, 2 ** 20, 2 ** 31 - 1, 2 ** 32])
        idx = fpio.rand_index_set(rng, bits)
        lv = rng.choice(fpio.LEVELS)
        kw = {'level': lv}
        nm = rng.choice(fpio.NAMES)
        if nm:
            kw['name'] = nm
        if route == 'bitstring':
            on = set(idx)
            return route, C[k0].from_bitstring(''.join('1' if i in on else '0' for i in range(bits)), **kw), None
        if route == 'rdkit':
            return route, C[k0].from_rdkit(C['KBit'].from_indices(np.array(idx, dtype=np.int64), bits=bits).to_rdkit(), **kw), None
        dt = rng.choice([np.bool_, np.uint16, np.int64, np.int8, np.uint8, np.float64, np.float32])
        if dt is np.bool_:
            vals = [1] * len(idx)
        elif dt in (np.float64, np.float32):
            vals = [float(Fraction(rng.choice([1, 3, 5, 9, 250]), rng.choice([1, 2, 4]))) for _ in idx]
        else:
            vals = [rng.choice([1, 1, 2, 7, 100]) for _ in idx]
        if route == 'vector_dense':
            vec = np.zeros(bits, dtype=dt)
            for i, v in zip(idx, vals):
                vec[i] = v
        else:
            vec = csr_matrix((np.array(vals, dtype=dt), (np.zeros(len(idx), dtype=np.int64), np.array(idx, dtype=np.int64))), shape=(1, bits), dtype=dt)
        return route + '/' + np.dtype(dt).name, C[k0].from_vector(vec, **kw), None
    if route == 'operator':
        import e3fp.fingerprint.fprint as FP
        k0 = rng.choice(fpgen.KINDS)
        sx = _pow2_spec(rng, kind=k0, maxbits=2 ** 20)
        sy = rand_spec(rng, kind=rng.choice([k0, k0, 'KCount' if k0 != 'KBit' else 'KBit']), bits=sx['bits'])
        x, y = build(sx), build(sy)
        if k0 == 'KBit':
            op = rng.choice(['or', 'and', 'xor', 'add', 'batch_add', 'batch_mean'])
        else:
            op = rng.choice(['add', 'mul', 'div', 'floordiv', 'batch_add', 'batch_mean', 'sub'])
        f = {'or': lambda: x | y, 'and': lambda: x & y, 'xor': lambda: x ^ y, 'add': lambda: x + y, 'sub': lambda: x - y,
             'mul': lambda: x * rng.choice([2, 3, 1.5]), 'div': lambda: x / rng.choice([2, 4, 3]), 'floordiv': lambda: x // rng.choice([2, 3]),
             'batch_add': lambda: FP.add([x, y]), 'batch_mean': lambda: FP.mean([x, y])}[op]
        return route + '/' + op, f(), None
    if route == 'pickled':
        spec = rand_spec(rng)
        return route, pickle.loads(pickle.dumps(build(spec), rng.choice([0, 2, pickle.HIGHEST_PROTOCOL]))), None
    spec = rand_spec(rng, kind=rng.choice(['KCount', 'KFloat']))
    kw = {'bits': spec['bits'], 'level': spec['level']}
    if spec.get('name'):
        kw['name'] = spec['name']
    if route == 'np_typed':
        vt = rng.choice([np.int64, np.uint16, np.int32, np.float32, np.float64] if spec['kind'] == 'KCount' else [np.float32, np.float64, np.int64])
        cnt = {np.int64(i): vt(min(float(v), 60000)) for i, v in spec['cnt'].items()}
        if spec['kind'] == 'KCount':
            cnt = {i: (v if v >= 1 else vt(1)) for i, v in cnt.items()}
        return route + '/' + np.dtype(vt).name, C[spec['kind']].from_counts(cnt, **kw), None
    # indices + counts together: index list a shuffled Python list, counts keyed by Python ints
    idx = list(spec['cnt'].keys())
    rng.shuffle(idx)
    conv = float if spec['kind'] == 'KFloat' else int
    return route, C[spec['kind']].from_indices(idx + idx[:1], counts={int(i): conv(v) for i, v in spec['cnt'].items()}, **kw), None


def part(ctx):
    rng, C = ctx.rng, fpgen.classes()
    cases, payloads, mexpr = [], {}, {}
    found = [False]
    dist = ctx.coverage.setdefault('input_distribution', {}) if isinstance(ctx.coverage.get('input_distribution'), dict) else {}
    ctx.coverage['input_distribution'] = dist

    def bump(key, n=1):
        dist[key] = dist.get(key, 0) + n

    def add(tag, expr, payload, m, nontrivial=True):
        key = 'fp/%s/%d' % (tag, len(cases))
        cases.append((key, expr))
        payloads[key] = dict(payload, section=tag)
        mexpr[key] = m
        bump('fp/' + tag)
        ctx.count(('fp', tag, str(payload)), nontrivial)

    def prop_fail(key, what, payload):
        found[0] = True
        ctx.fail(what, payload, finding_key=key, kind='property-on-implementation')

    def known_zero(k, oa, ob, pl):
        """OUTCOME test of the listed finding: the result lists a position whose stored count is 0 (a float value in (0,1)
        truncated by int()); everything else about such a result is still compared by the caller and against the model."""
        zero_listed = [j for j, v in ob['cnt'] if v == 0 and j in ob['idx']]
        if zero_listed:
            ctx.fail('%s.from_fingerprint(%s fingerprint) lists position(s) %s with stored count 0: the non-zero position is kept in indices but its value is zero'
                     % (k, oa['kind'], zero_listed[:5]), dict(pl, positions_with_stored_zero=zero_listed),
                     finding_key=KNOWN_ZERO, kind='property-on-implementation')
            if not any(f.get('key') == KNOWN_ZERO and f.get('status') == 'known' for f in ctx.findings):
                found[0] = True
        return zero_listed

    def convert_all(a, oa, tag, extra=None):
        """All three conversions of one well-formed source: model tie + the property decided on the implementation."""
        pos = dict(oa['cnt'])
        results = {}
        for k in fpgen.KINDS:
            r = attempt(lambda: C[k].from_fingerprint(a))
            ro = ('ok', xobs(r[1])) if r[0] == 'ok' else r
            m = 'from_fingerprint %s %s' % (k, lit(oa))
            add('%s/%s->%s' % (tag, oa['kind'], k), 'result_eqb fp_obs_eqb (%s) %s' % (m, result_lit(ro)),
                dict({'a': xobs_json(oa), 'to': k, 'impl': xobs_json(ro[1]) if ro[0] == 'ok' else ro[1]}, **(extra or {})), m, bool(oa['idx']))
            pl = dict({'a': xobs_json(oa), 'to': k}, **(extra or {}))
            if r[0] != 'ok':
                prop_fail('convert:raised', '%s.from_fingerprint raised %s' % (k, r[1]), pl)
                continue
            b, ob = r[1], ro[1]
            results[k] = b
            pl['result'] = xobs_json(ob)
            if xobs(a) != oa:
                prop_fail('convert:source-mutated', 'conversion changed its source', pl)
            if ob['kind'] != k or ob['bits'] != oa['bits'] or ob['level'] != oa['level'] or ob['name'] != oa['name'] or ob['props'] != oa['props']:
                prop_fail('convert:frame', 'kind/bits/level/name/props not carried by the conversion', pl)
            # support: indices of the result = positions with a positive count in the source
            if ob['idx'] != sorted(pos) or [j for j, _ in ob['cnt']] != ob['idx']:
                prop_fail('convert:support', 'indices of the result differ from the non-zero positions of the source', pl)
            # values
            want = conv_oracle(oa['kind'], k, pos)
            for j, v in ob['cnt']:
                if v != want.get(j):
                    prop_fail('convert:values', 'value at %d is %s, expected %s' % (j, v, want.get(j)), pl)
                    break
            known_zero(k, oa, ob, pl)
            # get_count agrees with the model on and off the support (index given as a Python int and as a NumPy integer)
            probes = (ob['idx'][:2] + [0, oa['bits'] - 1])[:4]
            for j in probes:
                g = attempt(lambda: b.get_count(j))
                if g[0] == 'ok':
                    add('get_count', 'Qeq_bool (get_count %s %s) %s' % (lit(ob), core.zlit(j), core.qlit(fpgen.fr(g[1]))),
                        {'a': xobs_json(ob), 'i': j, 'impl': str(g[1])}, 'get_count %s %s' % (lit(ob), core.zlit(j)), j in ob['idx'])
                g2 = attempt(lambda: b.get_count(np.int64(j)))
                if g2[0] != g[0] or (g[0] == 'ok' and fpgen.fr(g2[1]) != fpgen.fr(g[1])):
                    prop_fail('get_count:numpy-index', 'get_count(np.int64(%d)) differs from get_count(%d)' % (j, j), pl)
        return results

    # 1. all nine ordered kind pairs on well-formed fingerprints
    for i in range(ctx.n(60, 1000)):
        sa = rand_spec(rng, big=rng.random() < 0.2)
        a = build(sa)
        convert_all(a, xobs(a), 'convert')
    # 2. count fingerprints from an index multiset (what the fingerprinter does with its identifier list)
    for i in range(ctx.n(50, 800)):
        bits = fpio.rand_bits(rng)
        base = fpio.rand_index_set(rng, bits) or [0]
        multi = []
        for j in base:
            multi += [j] * rng.choice([1, 1, 1, 2, 3, 7])
        rng.shuffle(multi)
        k = rng.choice(['KCount', 'KFloat', 'KBit'])
        lv = rng.choice(fpio.LEVELS)
        r = attempt(lambda: C[k].from_indices(np.array(multi, dtype=np.int64), bits=bits, level=lv))
        ro = ('ok', xobs(r[1])) if r[0] == 'ok' else r
        m = 'from_index_list %s %s %s %s None' % (k, core.zlist(multi), core.zlit(bits), core.optlit(lv))
        add('multiset/' + k, 'result_eqb fp_obs_eqb (%s) %s' % (m, result_lit(ro)),
            {'indices': multi, 'bits': bits, 'kind': k, 'impl': xobs_json(ro[1]) if ro[0] == 'ok' else ro[1]}, m, len(multi) > len(base))
        if r[0] != 'ok':
            prop_fail('multiset:raised', 'from_indices raised %s' % r[1], {'indices': multi, 'bits': bits, 'kind': k})
            continue
        ob = ro[1]
        want = sorted((j, Fraction(1 if k == 'KBit' else multi.count(j))) for j in set(multi))
        if ob['idx'] != sorted(set(multi)) or ob['cnt'] != want:
            prop_fail('multiset:counts', 'support/counts are not the set/multiplicities of the index list', {'indices': multi, 'bits': bits, 'kind': k, 'result': xobs_json(ob)})
        if k != 'KBit':
            rb = attempt(lambda: xobs(C['KBit'].from_indices(np.array(multi, dtype=np.int64), bits=bits, level=lv)))
            if rb[0] != 'ok' or rb[1]['idx'] != ob['idx']:
                prop_fail('multiset:bit-vs-count', 'bit and count fingerprints of one index list differ in support', {'indices': multi, 'bits': bits})
    # 3. sources outside the domain (zero / negative counts): the model is faithful; recorded, not failed
    for i in range(ctx.n(30, 400)):
        a = fpio.build_signed(rng)
        oa = xobs(a)
        for k in fpgen.KINDS:
            r = attempt(lambda: C[k].from_fingerprint(a))
            ro = ('ok', xobs(r[1])) if r[0] == 'ok' else r
            m = 'from_fingerprint %s %s' % (k, lit(oa))
            add('signed/%s->%s' % (oa['kind'], k), 'result_eqb fp_obs_eqb (%s) %s' % (m, result_lit(ro)),
                {'a': xobs_json(oa), 'to': k, 'impl': xobs_json(ro[1]) if ro[0] == 'ok' else ro[1]}, m, True)
            if r[0] == 'ok':
                nzsrc = [j for j, v in oa['cnt'] if v != 0]
                if ro[1]['idx'] != nzsrc:
                    fpio.outside_domain(ctx, 'from_fingerprint:nonpositive-counts' + ('-kept-as-bits' if k == 'KBit' else '-dropped'),
                                        ('Fingerprint.from_fingerprint keeps positions whose count is zero (it copies `indices`)' if k == 'KBit' else
                                         'Count/FloatFingerprint.from_fingerprint drops positions whose count is negative (`c > 0`)') +
                                        ': the non-zero positions of a fingerprint holding zero/negative counts (e.g. a - b) are not preserved',
                                        {'a': xobs_json(oa), 'to': k, 'result': xobs_json(ro[1])})
    # 4. sources that reached their state by another route; the fold cache of the result is exercised
    for i in range(ctx.n(70, 1000)):
        try:
            route, a, rebuild = route_source(rng, C)
        except Exception as e:  # noqa  (the constructors themselves belong to C09/C10/C11; here only their results are needed)
            bump('fp/route/construction-raised-skipped')
            continue
        if a is None:
            bump('fp/route/none-skipped')
            continue
        oa = xobs(a)
        if not well_formed(oa):
            bump('fp/route/%s/not-well-formed-skipped' % route.split('/')[0])
            continue
        extra = {'route': route}
        res = convert_all(a, oa, 'route/' + route.split('/')[0], extra)
        bump('fp/route-detail/' + route)
        if not a.folded_fingerprint or rebuild is None:
            continue
        # a conversion must not depend on what the source happens to have cached: folding the result gives what folding a
        # conversion of an equal, never-folded source gives (same class as the result, same support, same values)
        for k, b in res.items():
            for (nb, method) in sorted(a.folded_fingerprint, key=lambda t: (int(t[0]), int(t[1]))):
                nb, method = int(nb), int(method)
                g = attempt(lambda: b.fold(nb, method))
                ref = attempt(lambda: C[k].from_fingerprint(rebuild()).fold(nb, method))
                go = ('ok', xobs(g[1])) if g[0] == 'ok' else g
                refo = ('ok', xobs(ref[1])) if ref[0] == 'ok' else ref
                bump('fp/fold-after-convert/%s->%s' % (oa['kind'], k))
                ctx.count(('fp-cache', str(oa), k, nb, method), True)
                if go != refo:
                    pl = {'a': xobs_json(oa), 'a_folded_before_conversion_to': [nb, method], 'to': k,
                          'fold_of_result': xobs_json(go[1]) if go[0] == 'ok' else go[1],
                          'fold_of_conversion_of_unfolded_source': xobs_json(refo[1]) if refo[0] == 'ok' else refo[1]}
                    what = ('%s.from_fingerprint(%s fingerprint that has been folded to %d before).fold(%d) %s; the same on a source that was never folded gives %s'
                            % (k, oa['kind'], nb, nb, ('raises ' + go[1]) if go[0] != 'ok' else 'returns a %s with counts %s' % (go[1]['kind'], [(j, str(v)) for j, v in go[1]['cnt']][:6]),
                               ('raises ' + refo[1]) if refo[0] != 'ok' else 'a %s with counts %s' % (refo[1]['kind'], [(j, str(v)) for j, v in refo[1]['cnt']][:6])))
                    # the two specific outcomes reproduced in findings/repro_cov_c17.py get their own keys; anything else is a plain failure
                    src_kind_back = go[0] == 'ok' and k != oa['kind'] and go[1]['kind'] == oa['kind']
                    raised = go[0] == 'err' and go[1] in ('EUnexpected_AssertionError', 'EUnexpected_AttributeError')
                    if refo[0] == 'ok' and k != oa['kind'] and (src_kind_back or raised):
                        key = CACHE_KEY
                    elif refo[0] == 'ok' and k == oa['kind'] and k != 'KBit' and go == ('err', 'EUnexpected_AttributeError'):
                        key = COPY_CACHE_KEY
                    else:
                        prop_fail('convert:fold-after-convert', what, pl)
                        continue
                    ctx.fail(what, pl, finding_key=key, kind='property-on-implementation')
                    if not any(f.get('key') == key and f.get('status') == 'known' for f in ctx.findings):
                        found[0] = True
    # 5. chains, repeated conversions, aliasing between source and result
    for i in range(ctx.n(40, 600)):
        sa = rand_spec(rng, big=rng.random() < 0.1)
        a = build(sa)
        oa = xobs(a)
        k1, k2 = rng.choice(fpgen.KINDS), rng.choice(fpgen.KINDS)
        pl = {'a': xobs_json(oa), 'via': k1, 'to': k2}
        r1 = attempt(lambda: C[k1].from_fingerprint(a))
        if r1[0] != 'ok':
            prop_fail('convert:raised', '%s.from_fingerprint raised %s' % (k1, r1[1]), pl)
            continue
        o1 = xobs(r1[1])
        if any(v == 0 for _, v in o1['cnt']):
            bump('fp/chain/intermediate-with-known-zero-skipped')       # consequence of the listed finding: the next conversion drops the position
            continue
        r2 = attempt(lambda: C[k2].from_fingerprint(r1[1]))
        ro2 = ('ok', xobs(r2[1])) if r2[0] == 'ok' else r2
        m = 'rbind (from_fingerprint %s %s) (fun r => from_fingerprint %s r)' % (k1, lit(oa), k2)
        add('chain/%s->%s->%s' % (oa['kind'], k1, k2), 'result_eqb fp_obs_eqb (%s) %s' % (m, result_lit(ro2)),
            dict(pl, impl=xobs_json(ro2[1]) if ro2[0] == 'ok' else ro2[1]), m, bool(oa['idx']))
        if r2[0] != 'ok':
            prop_fail('convert:raised', '%s.from_fingerprint raised %s on the result of a conversion' % (k2, r2[1]), pl)
            continue
        o2 = ro2[1]
        want = conv_oracle(k1, k2, conv_oracle(oa['kind'], k1, dict(oa['cnt'])))
        zl = known_zero(k2, o1, o2, pl)
        if o2['idx'] != oa['idx'] or dict(o2['cnt']) != want or o2['props'] != oa['props'] or o2['name'] != oa['name'] or o2['level'] != oa['level']:
            prop_fail('convert:chain', 'conversion %s -> %s -> %s: support / values / props differ from the composition of the two casts' % (oa['kind'], k1, k2),
                      dict(pl, result=xobs_json(o2), expected={str(j): str(v) for j, v in want.items()}))
        # round trip through a kind that can represent the values gives the source back
        if k2 == oa['kind'] and (k1 == 'KFloat' or k1 == oa['kind'] or oa['kind'] == 'KBit') and not fpio.same_content(o2, oa, props=True):
            prop_fail('convert:roundtrip', 'conversion %s -> %s -> %s does not give the source back' % (oa['kind'], k1, k2), dict(pl, result=xobs_json(o2)))
        # the same conversion again (A, B, A): equal result, distinct objects
        r1b = attempt(lambda: C[k1].from_fingerprint(a))
        if r1b[0] != 'ok' or xobs(r1b[1]) != o1 or r1b[1] is r1[1] or r1b[1] is a:
            prop_fail('convert:repeat', 'converting the same object twice (with another conversion in between) gives different results or the same object', pl)
            continue
        # aliasing: writes to the result do not reach the source or an earlier result, writes to the source do not reach a result
        b, b2 = r1[1], r1b[1]
        ctx.count(('fp-alias', str(oa), k1), True)
        bump('fp/alias')
        b.set_prop('c17_marker', 1)
        shares = np.shares_memory(b.indices, a.indices) or np.shares_memory(b.indices, b2.indices)
        if k1 != 'KBit' and o1['idx']:
            b.counts[o1['idx'][0]] = 12345
        if 'c17_marker' in a.props or 'c17_marker' in b2.props or xobs(a) != oa or xobs(b2) != o1 or shares or b.props is a.props \
                or (k1 != 'KBit' and oa['kind'] != 'KBit' and b.counts is a.counts):
            prop_fail('convert:aliasing', 'the result of a conversion shares state with its source or with another result of the same conversion', pl)
        if oa['kind'] != 'KBit' and oa['idx']:
            a.counts[oa['idx'][0]] = 54321
        a.set_prop('c17_marker2', 2)
        if xobs(b2) != o1:
            prop_fail('convert:aliasing', 'a later write to the source changes the result of an earlier conversion', pl)
    # 6. error paths and constructor argument forms
    from e3fp.fingerprint.db import FingerprintDatabase
    junk = [None, 3, 'x', [1, 2], (1, 2), {1: 2}, np.array([1, 2]), FingerprintDatabase()]
    for k in fpgen.KINDS:
        for x in junk:
            r = attempt(lambda: C[k].from_fingerprint(x))
            ctx.count(('fp-junk', k, type(x).__name__), True)
            bump('fp/from_fingerprint-of-non-fingerprint')
            if r != ('err', 'EInvalidFp'):
                prop_fail('convert:non-fingerprint', '%s.from_fingerprint(%s) %s instead of raising E3FPInvalidFingerprintError' % (k, type(x).__name__, 'returned' if r[0] == 'ok' else 'raised ' + r[1]),
                          {'to': k, 'argument': repr(x)[:60]})
    r = attempt(lambda: C['KCount']())
    if r != ('err', 'EOption'):
        prop_fail('ctor:neither', 'CountFingerprint() without indices and counts: %s' % (r,), {})
    for i in range(ctx.n(60, 900)):
        bits = fpio.rand_bits(rng)
        base = fpio.rand_index_set(rng, bits)
        k = rng.choice(['KCount', 'KFloat', 'KCount', 'KBit'])
        lv = rng.choice(fpio.LEVELS)
        form = rng.choice(['container', 'container', 'indices+counts', 'indices+counts', 'counts-only', 'mismatch', 'out-of-range', 'heavy'])
        kw = {'bits': bits, 'level': lv}
        plain = lambda v: str(fpgen.fr(v)) if not isinstance(v, (int, np.integer)) else int(v)
        if form in ('container', 'heavy'):
            multi = []
            for j in (base if form == 'container' else base[:5]):
                multi += [j] * (rng.choice([1, 1, 2, 3]) if form == 'container' else rng.choice([1, 40, 300, 1000]))
            rng.shuffle(multi)
            cont = rng.choice(['list', 'tuple', 'int32', 'uint32', 'uint64', 'int64-noncontiguous', 'list-of-numpy', 'empty'] if form == 'container' else ['list', 'int64'])
            fits32 = all(j < 2 ** 31 for j in multi)
            if cont == 'empty':
                multi = []
            arg = {'list': lambda: list(multi), 'tuple': lambda: tuple(multi), 'int64': lambda: np.array(multi, dtype=np.int64),
                   'int32': lambda: np.array(multi, dtype=np.int32 if fits32 else np.int64), 'uint32': lambda: np.array(multi, dtype=np.uint32 if all(j < 2 ** 32 for j in multi) else np.int64),
                   'uint64': lambda: np.array(multi, dtype=np.uint64), 'list-of-numpy': lambda: [np.int64(j) for j in multi], 'empty': lambda: [],
                   'int64-noncontiguous': lambda: np.array([x for j in multi for x in (j, 0)], dtype=np.int64)[::2]}[cont]()
            r = attempt(lambda: C[k].from_indices(arg, **kw))
            m = 'from_index_list %s %s %s %s None' % (k, core.zlist(multi), core.zlit(bits), core.optlit(lv))
            pl = {'form': form, 'container': cont, 'indices': multi if len(multi) < 200 else {'distinct': sorted(set(multi)), 'multiplicities': [multi.count(j) for j in sorted(set(multi))]},
                  'bits': bits, 'kind': k}
            want_idx = sorted(set(multi))
            want_cnt = [(j, Fraction(1 if k == 'KBit' else multi.count(j))) for j in want_idx]
            want = ('ok', want_idx, want_cnt)
        elif form in ('indices+counts', 'mismatch', 'out-of-range'):
            idx = list(base)
            vals = {int(j): (rng.choice([1, 2, 7, 200, 70000]) if k != 'KFloat' else float(Fraction(rng.choice([1, 3, 5, 250]), rng.choice([1, 2, 8])))) for j in idx}
            if k == 'KCount' and rng.random() < 0.3:
                vals = {j: rng.choice([np.int64(v), np.uint32(v), float(v), float(v) + 0.75]) for j, v in vals.items()}     # int() of each value is stored
            err = None
            if form == 'mismatch':
                free = [j for j in range(min(bits, 50)) if j not in vals]
                if rng.random() < 0.5 and free:
                    vals[free[0]] = 1                       # a key of counts that is not an index
                    err = 'ECounts'
                elif idx:
                    del vals[idx[0]]                        # an index without a count
                    err = 'ECounts'
            if form == 'out-of-range':
                idx = idx + [bits + rng.choice([0, 1, 7])]
                vals[idx[-1]] = 1
                err = 'EBits'
            given = list(idx) + ([idx[0]] if idx and rng.random() < 0.3 else [])
            rng.shuffle(given)
            r = attempt(lambda: C[k].from_indices(given, counts=dict(vals), **kw))
            cl = fpio.entries_lit(sorted((j, fpgen.fr(v)) for j, v in vals.items()))
            if k == 'KBit':
                m = 'mk_bit %s %s %s None' % (core.zlist(given), core.zlit(bits), core.optlit(lv))
                err = err if err == 'EBits' else None         # the bit class ignores `counts`
                want = ('err', err) if err else ('ok', sorted(set(given)), [(j, Fraction(1)) for j in sorted(set(given))])
            else:
                m = 'mk_count %s %s %s %s %s None' % (k, core.zlist(given), cl, core.zlit(bits), core.optlit(lv))
                want = ('err', err) if err else ('ok', sorted(set(given)), [(j, Fraction(int(vals[j])) if k == 'KCount' else fpgen.fr(vals[j])) for j in sorted(set(given))])
            pl = {'form': form, 'indices': given, 'counts': {str(j): plain(v) for j, v in vals.items()}, 'value_types': sorted(set(type(v).__name__ for v in vals.values())), 'bits': bits, 'kind': k}
        else:
            k = k if k != 'KBit' else 'KCount'
            vals = {(np.int64(j) if rng.random() < 0.5 else int(j)): (rng.choice([1, 2, 7, 65535, 2 ** 40]) if k == 'KCount' else float(Fraction(rng.choice([1, 3, 5, 250]), rng.choice([1, 2, 8])))) for j in base}
            over = rng.random() < 0.15
            if over:
                vals[bits + rng.choice([0, 3])] = 1
            r = attempt(lambda: C[k].from_counts(dict(vals), **kw))
            m = 'mk_from_counts %s %s %s %s None' % (k, fpio.entries_lit(sorted((int(j), fpgen.fr(v)) for j, v in vals.items())), core.zlit(bits), core.optlit(lv))
            want = ('err', 'EBits') if over else ('ok', sorted(int(j) for j in vals), sorted((int(j), fpgen.fr(v)) for j, v in vals.items()))
            pl = {'form': form, 'counts': {str(int(j)): plain(v) for j, v in vals.items()}, 'bits': bits, 'kind': k}
        ro = ('ok', xobs(r[1])) if r[0] == 'ok' else r
        add('ctor/%s/%s' % (form, k), 'result_eqb fp_obs_eqb (%s) %s' % (m, result_lit(ro)), dict(pl, impl=xobs_json(ro[1]) if ro[0] == 'ok' else ro[1]), m, True)
        if 'container' in pl:
            bump('fp/ctor-container/' + pl['container'])
        got = ('err', ro[1]) if ro[0] != 'ok' else ('ok', ro[1]['idx'], ro[1]['cnt'])
        if got != want:
            prop_fail('ctor:' + form, '%s built from %s: %s, expected %s' % (k, form, str(got)[:200], str(want)[:200]), dict(pl, result=xobs_json(ro[1]) if ro[0] == 'ok' else ro[1]))
    # multiplicities beyond the range of the count dtype (uint16) are still exact in the fingerprint (decided on the implementation:
    # an index list of 70000 entries is too long a literal for the model)
    for mult in (255, 256, 65535, 65536, 70000):
        j = rng.randrange(0, 1024)
        for k in ('KCount', 'KFloat', 'KBit'):
            r = attempt(lambda: xobs(C[k].from_indices(np.concatenate([np.full(mult, j, dtype=np.int64), np.array([1023, 1023], dtype=np.int64)]), bits=1024)))
            ctx.count(('fp-very-heavy', k, mult), True)
            bump('fp/ctor/very-heavy-multiplicity')
            want = sorted({j: Fraction(1 if k == 'KBit' else mult), 1023: Fraction(1 if k == 'KBit' else 2 + (mult if j == 1023 else 0))}.items())
            if r[0] != 'ok' or r[1]['cnt'] != want:
                prop_fail('ctor:very-heavy', '%s from an index list holding %d %d times: %s' % (k, j, mult, (r[1]['cnt'] if r[0] == 'ok' else r[1])), {'index': j, 'times': mult, 'kind': k})
    # 7. vector views: to_vector with the dtype of another kind (the cast a database applies to an addition) agrees with the
    #    vector of the converted fingerprint, and reading the vector back gives the conversion's non-zero positions and values
    for i in range(ctx.n(40, 600)):
        sa = rand_spec(rng, maxbits=rng.choice([4096, 4096, 2 ** 32]))
        a = build(sa)
        oa = xobs(a)
        pos = dict(oa['cnt'])
        for k in fpgen.KINDS:
            if k == 'KCount' and any(v >= 65536 for v in pos.values()):
                bump('fp/vector/not-representable-in-uint16-skipped')
                continue
            want = {j: v for j, v in conv_oracle(oa['kind'], k, pos).items() if v != 0}
            for sparse in ([True, False] if oa['bits'] <= 4096 else [True]):
                pl = {'a': xobs_json(oa), 'dtype_of': k, 'sparse': sparse}
                ctx.count(('fp-vector', str(oa), k, sparse), bool(pos))
                bump('fp/vector/%s-as-%s/%s' % (oa['kind'], k, 'sparse' if sparse else 'dense'))
                v = attempt(lambda: a.to_vector(sparse=sparse, dtype=DT[k]))
                w = attempt(lambda: C[k].from_fingerprint(a).to_vector(sparse=sparse))
                if v[0] != 'ok' or w[0] != 'ok':
                    prop_fail('vector:raised', 'to_vector raised (%s / %s)' % (v[1] if v[0] != 'ok' else 'ok', w[1] if w[0] != 'ok' else 'ok'), pl)
                    continue
                ents = lambda x: {j: q for j, q in (fpio.csr_obs(x)[1] if sparse else fpio.dense_obs(x)[1]) if q != 0}
                ev, ew = ents(v[1]), ents(w[1])
                if v[1].dtype != np.dtype(DT[k]) or w[1].dtype != np.dtype(DT[k]) or v[1].shape != w[1].shape:
                    prop_fail('vector:dtype', 'dtype / shape of the vector is not that of the requested kind', dict(pl, dtypes=[str(v[1].dtype), str(w[1].dtype)]))
                if not (ev == ew == want):
                    prop_fail('vector:cast-vs-conversion', 'to_vector(dtype of %s) of a %s fingerprint, the vector of its conversion and the expected cast differ' % (k, oa['kind']),
                              dict(pl, cast={str(j): str(q) for j, q in ev.items()}, converted={str(j): str(q) for j, q in ew.items()}, expected={str(j): str(q) for j, q in want.items()}))
                back = attempt(lambda: xobs(C[k].from_vector(v[1], level=a.level)))
                if back[0] != 'ok' or {j: q for j, q in back[1]['cnt'] if q != 0} != want or back[1]['kind'] != k or back[1]['bits'] != oa['bits']:
                    prop_fail('vector:read-back', '%s.from_vector of the cast vector does not give the non-zero positions / values of the conversion' % k,
                              dict(pl, back=xobs_json(back[1]) if back[0] == 'ok' else back[1]))
    nbad = core.compare_cases(ctx, cases, IMPORTS, 'C17 fingerprint conversions', payloads, model_expr=mexpr,
                              finding_key_of=lambda k, pl: 'model:%s' % pl.get('section'))
    ctx.assumptions += ['fingerprint conversions: the domain is well-formed sources (every listed position has a positive count). A float value in (0,1) converted to the count kind is inside the domain and is reported through the known-finding key from_fingerprint:float-below-one-to-count (outcome test: a listed position with stored count 0). Only sources that themselves hold zero or negative counts (results of subtraction; not "counts" of set bits) are outside the domain: what from_fingerprint does with them is compared with the model and recorded as an evidence note, not failed',
                        'vector views: float values >= 65536 are not cast to the uint16 count dtype (not representable; C semantics of the cast)']
    return found[0] or nbad > 0
