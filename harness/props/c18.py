"""C18 - only the positions of bonded heavy atoms influence a fingerprint (Properties/C18.v)."""
import core
import m1lib
import molfacts
import molgen
from props import c18_cov

# isotope-labelled hydrogens (D, T) are hydrogens: atomic number 1 whatever the isotope; labelled waters are unbonded "heavy" atoms
# only through their oxygen
LABELLED = ['[2H]C([2H])([2H])O', '[2H]C([2H])(C)O', '[3H]c1ccccc1', '[2H]OC(=O)C', 'CC(N)C(=O)O.[2H]O[2H]', '[2H]N([2H])CC', 'C[13CH3]', '[2H]C(Cl)(Cl)Cl']
SALTS = LABELLED + ['CCO.O', '[Na+].[Cl-]', 'CC(=O)[O-].[Na+]', 'C[N+](C)(C)C.[Br-]', 'CC(C)=O.O.O', 'OC(=O)CC(O)(CC(O)=O)C(O)=O.[K+]', 'c1ccccc1O.[Li+]', 'CCN.Cl', 'O.O.CC(N)C(=O)O']


def heavy_degree(a):
    """Number of heavy-atom neighbours: an 'unbonded heavy atom' (counter-ion, water) has none, with explicit or implicit hydrogens."""
    return sum(1 for n in a.GetNeighbors() if n.GetAtomicNum() > 1)


def displaced(m, cid, rng, which):
    """Copy of m with the atoms selected by `which(atom)` moved randomly (up to 3 A)."""
    from rdkit import Chem
    from rdkit.Geometry import Point3D
    m2 = Chem.Mol(m)
    conf = m2.GetConformer(cid)
    n = 0
    for a in m2.GetAtoms():
        if which(a):
            p = conf.GetAtomPosition(a.GetIdx())
            conf.SetAtomPosition(a.GetIdx(), Point3D(p.x + rng.uniform(-3, 3), p.y + rng.uniform(-3, 3), p.z + rng.uniform(-3, 3)))
            n += 1
    return m2, n


def without_floating(m):
    from rdkit import Chem
    rw = Chem.RWMol(m)
    dead = [a.GetIdx() for a in rw.GetAtoms() if a.GetAtomicNum() > 1 and heavy_degree(a) == 0]
    dead += [h.GetIdx() for i in list(dead) for h in rw.GetAtomWithIdx(i).GetNeighbors()]      # their hydrogens go with them
    # hydrogens attached to nothing else are not heavy; explicit H on floating atoms (water) have degree >= 1 neighbours: remove with their heavy atom
    for i in sorted(dead, reverse=True):
        rw.RemoveAtom(i)
    return rw.GetMol(), dead


def run(ctx):
    ok, res = core.proof_step(ctx)
    rng = ctx.rng
    found = False
    c18_cov._quiet()
    # tie on molecules with explicit hydrogens and unbonded heavy atoms, both exclude_floating values
    pool = []
    while len(pool) < ctx.n(60, 900):
        smi = rng.choice(SALTS + molgen.SMILES[:20] + c18_cov.EXTRA)
        m = molgen.embedded(smi, nconf=2, seed=rng.choice([3, 11]), keep_hs=rng.random() < 0.7)
        if m is not None:
            if rng.random() < 0.6:
                # atom order matters to index bookkeeping: hydrogens before heavy atoms, ions in the middle or after the Hs
                from rdkit import Chem
                order = list(range(m.GetNumAtoms()))
                rng.shuffle(order)
                m = Chem.RenumberAtoms(m, order)
                smi = smi + ' (atoms shuffled)'
            pool.append((smi, m, rng.randrange(m.GetNumConformers())))
    # fixed entries first (gen_cases walks the pool in order): a single heavy atom is kept whatever its neighbours (single_heavy_kept),
    # several heavy atoms none of which has a heavy neighbour raise (all_floating_raises), each with explicit and implicit hydrogens
    fixed = []
    for smi in c18_cov.FIXED_TIE:
        for keep in (True, False):
            m = molgen.embedded(smi, nconf=1, seed=11, keep_hs=keep)
            if m is not None:
                fixed.append((smi + (' (explicit H)' if keep else ' (implicit H)'), m, 0))
    ctx.coverage.setdefault('input_distribution', {})['fixed_single_heavy_and_all_floating_tie_cases'] = len(fixed)
    seen = [0]

    def exclusion_on_for_fixed(o):
        seen[0] += 1
        return dict(o, exfloat=True) if seen[0] <= len(fixed) else o
    cases = m1lib.gen_cases(ctx, len(fixed) + ctx.n(45, 700), pool=fixed + pool, opt_filter=exclusion_on_for_fixed)
    found |= m1lib.run_cases(ctx, cases, 'C18 model/implementation tie (explicit H, floating atoms)') > 0
    # lattice molecules: many heavy-atom distances equal a shell radius exactly
    lat = [molgen.lattice_molecule(rng) for _ in range(ctx.n(80, 600))]
    search_pool = [(smi, m, cid, None) for (smi, m, cid) in pool[:ctx.n(40, 500)]] + [(n, m, c, mult) for (n, m, c, mult) in lat]
    ctx.coverage['input_distribution']['lattice_molecules_with_exact_ties'] = len(lat)
    # search on the implementation
    stats = {'h_displacements': 0, 'floating_displacements': 0, 'deletions': 0, 'included_contributes': 0}
    for (smi, m, cid, lat_mult) in search_pool:
        o = molgen.rand_opts(rng)
        if lat_mult is not None:
            o = dict(o, mult=lat_mult, level=rng.choice([2, 3, 4]), incl=True)
        heavy = [a for a in m.GetAtoms() if a.GetAtomicNum() > 1]
        bonded = [a for a in heavy if heavy_degree(a) > 0]
        floating = [a for a in heavy if heavy_degree(a) == 0]
        r0 = m1lib.base_run(ctx, smi, m, cid, o)
        if r0 is None:
            continue
        f0, obs0, k0 = r0
        base = (k0, m1lib.all_level_ids(f0))
        # hydrogens never matter
        for rep in range(8 if lat_mult is not None else 1):      # exact-tie molecules: several displacements each (cheap)
            m2, nmoved = displaced(m, cid, rng, lambda a: a.GetAtomicNum() == 1)
            if not nmoved:
                break
            f1, _, k1 = molfacts.impl_run(m2, cid, o)
            stats['h_displacements'] += 1
            ctx.count(('H', smi, cid, str(o), rep), k0 >= 1)
            if (k1, m1lib.all_level_ids(f1)) != base:
                found = True
                from rdkit import Chem
                ctx.fail('moving hydrogen atoms changed the fingerprint', {'smiles': smi, 'conf': cid, 'opts': m1lib.opts_json(o),
                         'molblock_before': Chem.MolToMolBlock(m, confId=cid), 'molblock_after': Chem.MolToMolBlock(m2, confId=cid)}, finding_key='C18:hydrogen')
                break
        if floating and bonded and len(heavy) > 1:
            if o['exfloat']:
                m3, _ = displaced(m, cid, rng, lambda a: a.GetAtomicNum() > 1 and heavy_degree(a) == 0)
                f2, _, k2 = molfacts.impl_run(m3, cid, o)
                stats['floating_displacements'] += 1
                ctx.count(('float-move', smi, cid, str(o)), k0 >= 1)
                if (k2, m1lib.all_level_ids(f2)) != base:
                    found = True
                    ctx.fail('moving an unbonded heavy atom changed the fingerprint although exclude_floating is on', {'smiles': smi, 'conf': cid, 'opts': m1lib.opts_json(o)}, finding_key='C18:floating-move')
                m4, dead = without_floating(m)
                f3, _, k3 = molfacts.impl_run(m4, cid, o)
                stats['deletions'] += 1
                ctx.count(('float-del', smi, cid, str(o)), k0 >= 1)
                if (k3, m1lib.all_level_ids(f3)) != base:
                    found = True
                    ctx.fail('deleting the unbonded heavy atoms changed the fingerprint although exclude_floating is on', {'smiles': smi, 'conf': cid, 'opts': m1lib.opts_json(o), 'deleted': dead}, finding_key='C18:floating-delete')
            else:
                stats['included_contributes'] += 1
                centres0 = set(s.center_atom for s in f0.level_shells[0])
                ctx.count(('float-incl', smi, cid, str(o)), True)
                if not all(a.GetIdx() in centres0 for a in floating):
                    found = True
                    ctx.fail('with exclude_floating off an unbonded heavy atom contributes no identifier', {'smiles': smi, 'conf': cid, 'opts': m1lib.opts_json(o)}, finding_key='C18:floating-included')
    ctx.coverage['input_distribution']['metamorphic'] = stats
    # coverage extension (c18_cov.py): displacement styles, deletion variants, option grid, own identifiers with exclusion off,
    # call sequences, conformer sets, helper functions - on more input classes (see work/coverage_C18.md)
    found |= c18_cov.run_streams(ctx, SALTS + molgen.SMILES[:30])
    ctx.coverage['rule'] = ('tie: gridded cases on salts, hydrates and molecules with explicit hydrogens under both exclude_floating values; search: hydrogens displaced, '
                            'unbonded heavy atoms displaced and deleted (exclusion on), level-0 shells of unbonded atoms present (exclusion off); non-trivial: reaches level >= 1; '
                            'extension streams (c18_cov): seven displacement styles for hydrogens / dummy atoms / unbonded atoms, two deletion variants and explicit-vs-implicit '
                            'hydrogens compared shell by shell and through masked, folded and counted fingerprints under the increasing renumbering, every boolean option '
                            'combination x level x counts on salts (exclusion on: equals deleted; off: own identifier = hash of own invariants at every level and fold, '
                            'far-away unbonded atoms add exactly their own shells), default-constructed Fingerprinter, one Fingerprinter reused over variants / twins / '
                            'conformers, fprints_dict_from_mol, coords_from_atoms / bound_atoms_from_mol / ShellsGenerator called directly')
    ctx.assumptions += ['inputs within 2^-30 of a decision threshold are tagged (harness/m1_spec.py) and skipped in the tie']
    if not ok:
        core.report_broken_proof(ctx, res, found)


def replay(ctx, path):
    import json
    c = json.load(open(path)).get('case', {})
    if 'cov_stream' in c:
        return c18_cov.replay(ctx, c)
    return m1lib.replay_case(ctx, path)
