"""C18 coverage extension: implementation-level metamorphic streams (cheap: a few ms per run) over input classes, option
settings, call sequences and public helper functions that the original generator of c18.py did not draw.

Every relation checked here is an instance of a theorem of Properties/C18.v:
  * hydrogen_irrelevant(_run): atoms with atomic number <= 1 may differ in every field (position, presence) - streams
    `displace` (seven displacement styles), `implicit_vs_explicit_H`, helper-function stream;
  * floating_coords_irrelevant_run / deleted_renumbered_same_fingerprints: exclusion on - streams `displace` (unbonded heavy
    atoms), `delete` (two deletion variants, shells and masked / folded / counted fingerprints compared through the
    strictly increasing renumbering), `option grid` (every boolean option combination x level x counts);
  * floating_included_shell / floating_included_contributes: exclusion off - the unbonded atom owns a level-0 shell whose
    identifier is the hash of its own invariants (recomputed here from the RDKit getters), present at every level and in
    every folded fingerprint; with remove_duplicate_substructs on and the unbonded atoms out of reach of every shell the
    identifier multiset is exactly that of the molecule without them plus those identifiers;
  * call sequences: one Fingerprinter reused over variant / twin / deleted molecules and over conformers of one molecule that
    differ in hydrogen and ion positions only; run(conf object), run(mol=...), fprints_dict_from_mol.
Failures are reported through ctx.fail with both molecules (mol block + exact coordinates), the options and the stream."""
import numpy as np
import core
import m1lib
import m1_spec
import molfacts
import molgen

M32 = 1 << 32

# input classes missing from the first pool: polyatomic hydrides without a heavy neighbour (ammonium, methane, hydronium,
# hydrogen sulfide, HF), hydroxide, noble gas, multiply charged metal ions, several ions, dihydrogen / bare proton (not heavy
# at all), diatomic fragments (N2, O2: bonded, NOT floating), polyatomic counter-ions (bonded) next to floating ones,
# [1H]-labelled hydrogens, dummy atoms (atomic number 0: not heavy either), covalently written salts (no floating atom)
EXTRA = ['CCN.[NH4+]', 'CCO.C', 'CC(=O)[O-].[OH3+]', 'CCO.[H][H]', 'CC(=O)[O-].[H+]', 'CCO.[Ar]', 'CC(=O)[O-].CC(=O)[O-].[Ca+2]',
         'CCO.N#N', 'CC[NH3+].[O-]C(=O)C.O', 'CCS.S', 'OCC.[OH-].[K+]', 'CCO.F', '[1H]C([1H])C', 'CC(=O)O.O=O',
         'C[N+](C)(C)C.[O-]S(=O)(=O)C.O', 'c1ccccc1.[Zn+2].[Cl-].[Cl-]', 'CCO.[2H]O[2H].[Na+]', 'CC(=O)O[Na]', 'CC[*]', '[*]c1ccccc1',
         'C[C@H](N)C(=O)O.Cl', 'N[C@@H](CS)C(=O)O.O.[Na+]', 'F[C@](Cl)(Br)I.[Br-]', 'C/C=C/C.O', 'OC[C@H]1OC(O)[C@H](O)[C@@H](O)[C@@H]1O.O.O',
         'CN.Cl', 'C#N.[K+]', 'O=C=O.O', 'C1CC1.[Li+]', 'CC(C)(C)C.[Cl-]', '[NH3+]CC([O-])=O.[Mg+2].[Cl-].[Cl-]']

GRID_MOLS = ['CC(=O)[O-].[Na+]', 'CCO.O', 'CC[NH3+].[O-]C(=O)C.O', 'N[C@@H](CS)C(=O)O.O.[Na+]', 'CCN.[NH4+]', 'c1ccccc1O.[Li+]',
             'F[C@](Cl)(Br)I.[Br-]', 'CC(C)=O.O.O', 'CCO.[2H]O[2H].[Na+]', 'CC[*].[Cl-]']

FIXED_TIE = ['O', 'C', 'N', '[Na+]', '[NH4+]', 'Cl', '[Na+].[Cl-]', 'O.O', 'C.O', '[NH4+].[Cl-]', 'CO', 'CO.O']

STYLES = ('jitter', 'uniform3', 'far', 'onto_heavy', 'collapse', 'swap', 'huge')


def _quiet():
    from rdkit import RDLogger
    RDLogger.DisableLog('rdApp.*')


def hdeg(a):
    return sum(1 for n in a.GetNeighbors() if n.GetAtomicNum() > 1)


def is_h(a):
    """Not a heavy atom: hydrogens of every isotope (and dummy atoms, atomic number 0)."""
    return a.GetAtomicNum() <= 1


def is_floating(a):
    return a.GetAtomicNum() > 1 and hdeg(a) == 0


def classes(m):
    heavy = [a.GetIdx() for a in m.GetAtoms() if a.GetAtomicNum() > 1]
    fl = [a.GetIdx() for a in m.GetAtoms() if is_floating(a)]
    bonded = [i for i in heavy if i not in set(fl)]
    hs = [a.GetIdx() for a in m.GetAtoms() if is_h(a)]
    return heavy, bonded, fl, hs


def retained(m, exfloat):
    heavy, bonded, fl, hs = classes(m)
    return bonded if (exfloat and len(heavy) > 1) else heavy


def coords(m, cid):
    conf = m.GetConformer(cid)
    out = []
    for i in range(m.GetNumAtoms()):
        p = conf.GetAtomPosition(i)
        out.append((p.x, p.y, p.z))
    return out


def displaced(m, cid, rng, idxs, style):
    """Copy of m whose atoms `idxs` are moved in conformer `cid` according to `style`; all other coordinates bit-identical."""
    from rdkit import Chem
    from rdkit.Geometry import Point3D
    m2 = Chem.Mol(m)
    conf = m2.GetConformer(cid)
    pos = coords(m, cid)
    heavy = [a.GetIdx() for a in m.GetAtoms() if a.GetAtomicNum() > 1 and a.GetIdx() not in set(idxs)]
    new = {}
    if style == 'swap':
        perm = list(idxs)
        rng.shuffle(perm)
        for i, j in zip(idxs, perm):
            new[i] = pos[j]
        if len(idxs) < 2 or perm == list(idxs):
            style = 'uniform3'
            new = {}
    if style == 'collapse':
        pt = rng.choice([(0.0, 0.0, 0.0), pos[rng.choice(heavy)] if heavy else (1.0, 1.0, 1.0), (rng.uniform(-5, 5), rng.uniform(-5, 5), rng.uniform(-5, 5))])
        for i in idxs:
            new[i] = pt
    for i in idxs:
        if i in new:
            continue
        x, y, z = pos[i]
        if style == 'jitter':
            new[i] = (x + rng.uniform(-1e-3, 1e-3), y + rng.uniform(-1e-3, 1e-3), z + rng.uniform(-1e-3, 1e-3))
        elif style == 'uniform3':
            new[i] = (x + rng.uniform(-3, 3), y + rng.uniform(-3, 3), z + rng.uniform(-3, 3))
        elif style == 'far':
            s = 10.0 ** rng.uniform(2, 5)
            new[i] = (x + rng.uniform(-s, s), y + rng.uniform(-s, s), z + rng.uniform(-s, s))
        elif style == 'huge':
            s = 10.0 ** rng.uniform(8, 14)
            new[i] = (rng.choice([-1, 1]) * s, rng.uniform(-s, s), z)
        elif style == 'onto_heavy':
            new[i] = pos[rng.choice(heavy)] if heavy else (x + 1.0, y, z)
        else:
            raise ValueError(style)
    for i, p in new.items():
        conf.SetAtomPosition(i, Point3D(float(p[0]), float(p[1]), float(p[2])))
    return m2


def deleted(m, variant='with_hydrogens'):
    """(molecule without its unbonded heavy atoms, olds) where olds[new index] = old index (strictly increasing: RDKit shifts
    the later atoms down).  variant 'with_hydrogens': the hydrogens of the deleted atoms go too (the water molecule disappears);
    'heavy_only': they stay behind as atoms of atomic number 1 without neighbours."""
    from rdkit import Chem
    rw = Chem.RWMol(m)
    for a in rw.GetAtoms():
        a.SetIntProp('_c18_old', a.GetIdx())
    dead = [a.GetIdx() for a in rw.GetAtoms() if is_floating(a)]
    if variant == 'with_hydrogens':
        dead += [h.GetIdx() for i in list(dead) for h in rw.GetAtomWithIdx(i).GetNeighbors()]
    for i in sorted(set(dead), reverse=True):
        rw.RemoveAtom(i)
    m2 = rw.GetMol()
    olds = [a.GetIntProp('_c18_old') for a in m2.GetAtoms()]
    assert olds == sorted(olds) and len(set(olds)) == len(olds)
    return m2, olds


def map_obs(obs, new_to_old):
    """Observation of the renumbered molecule expressed in the old indices."""
    return {l: sorted((i, new_to_old[c], tuple(sorted(new_to_old[x] for x in s))) for i, c, s in v) for l, v in obs.items()}


def reorder(m, rng, how):
    from rdkit import Chem
    heavy, bonded, fl, hs = classes(m)
    if how == 'random':
        order = list(range(m.GetNumAtoms()))
        rng.shuffle(order)
    elif how == 'h_first':
        order = hs + heavy
    elif how == 'floating_first':
        order = fl + hs + bonded
    elif how == 'floating_last':
        order = bonded + hs + fl
    elif how == 'reverse':
        order = list(range(m.GetNumAtoms()))[::-1]
    elif how == 'interleaved':
        a, b = list(heavy), list(hs)
        order = []
        while a or b:
            if b:
                order.append(b.pop())
            if a:
                order.append(a.pop())
    else:
        return m
    return Chem.RenumberAtoms(m, order)


def with_gapped_conf_ids(m, rng):
    """Copy whose conformers carry non-contiguous ids (7, 10, ...)."""
    from rdkit import Chem
    m2 = Chem.Mol(m)
    confs = [Chem.Conformer(c) for c in m2.GetConformers()]
    m2.RemoveAllConformers()
    ids = []
    start, step = rng.choice([(7, 3), (1, 1), (40, 11), (2, 5)])
    for k, c in enumerate(confs):
        c.SetId(start + step * k)
        m2.AddConformer(c, assignId=False)
        ids.append(start + step * k)
    return m2, ids


def flat(smiles):
    """Explicit-hydrogen molecule with a 2-D depiction as its conformer (all z = 0)."""
    from rdkit import Chem
    from rdkit.Chem import AllChem
    m = Chem.MolFromSmiles(smiles)
    if m is None:
        return None
    m = Chem.AddHs(m)
    AllChem.Compute2DCoords(m)
    return m


def shipped_with_water(rng):
    """A shipped multi-conformer molecule with explicit hydrogens (coordinates added) and an explicit-hydrogen water plus a sodium
    ion appended after the hydrogens: what a ligand cut out of a crystal structure looks like."""
    from rdkit import Chem
    from rdkit.Geometry import Point3D
    name, m0 = rng.choice(molgen.shipped())
    m = Chem.AddHs(Chem.Mol(m0), addCoords=True)
    keep = [c.GetId() for c in m.GetConformers()][:3]
    for c in [c.GetId() for c in m.GetConformers()]:
        if c not in keep:
            m.RemoveConformer(c)
    rw = Chem.RWMol(m)
    o = rw.AddAtom(Chem.Atom(8))
    h1 = rw.AddAtom(Chem.Atom(1))
    h2 = rw.AddAtom(Chem.Atom(1))
    rw.AddBond(o, h1, Chem.BondType.SINGLE)
    rw.AddBond(o, h2, Chem.BondType.SINGLE)
    na = Chem.Atom(11)
    na.SetFormalCharge(1)
    na.SetNoImplicit(True)
    na = rw.AddAtom(na)
    for i in (o, h1, h2):
        rw.GetAtomWithIdx(i).SetNoImplicit(True)
    m = rw.GetMol()
    m.UpdatePropertyCache(strict=False)
    Chem.GetSymmSSSR(m)
    for conf in m.GetConformers():
        c = [rng.uniform(-4, 4) for _ in range(3)]
        conf.SetAtomPosition(o, Point3D(c[0], c[1], c[2]))
        conf.SetAtomPosition(h1, Point3D(c[0] + 0.96, c[1], c[2]))
        conf.SetAtomPosition(h2, Point3D(c[0] - 0.24, c[1] + 0.93, c[2]))
        conf.SetAtomPosition(na, Point3D(rng.uniform(-6, 6), rng.uniform(-6, 6), rng.uniform(-6, 6)))
    return name + ' +H2O +Na+', m, keep


def build_pool(ctx, n, base_smiles):
    """[(name, mol, conformer id)]: embedded / flat / shipped molecules in varied atom orders and conformer numberings."""
    rng = ctx.rng
    st = {'embedded': 0, 'flat_2d': 0, 'shipped_with_water_and_ion': 0, 'gapped_conformer_ids': 0, 'implicit_hydrogens': 0, 'atom_orders': {},
          'with_floating_atom': 0, 'with_dummy_atom': 0, 'with_isotopic_hydrogen': 0, 'floating_hydride_with_explicit_H': 0, 'two_or_more_floating': 0}
    out = []
    tries = 0
    while len(out) < n and tries < 20 * n:
        tries += 1
        r = rng.random()
        if r < 0.12:
            name, m, ids = shipped_with_water(rng)
            cid = rng.choice(ids)
            st['shipped_with_water_and_ion'] += 1
        elif r < 0.24:
            smi = rng.choice(EXTRA + base_smiles)
            m = flat(smi)
            if m is None:
                continue
            name, cid = smi + ' (2-D coordinates)', 0
            st['flat_2d'] += 1
        else:
            smi = rng.choice(EXTRA + EXTRA + base_smiles)
            keep = rng.random() < 0.8
            m = molgen.embedded(smi, nconf=2, seed=rng.choice([3, 11]), keep_hs=keep)
            if m is None:
                continue
            name, cid = smi, rng.randrange(m.GetNumConformers())
            st['embedded'] += 1
            if not keep:
                st['implicit_hydrogens'] += 1
        how = rng.choice(['none', 'random', 'random', 'h_first', 'floating_first', 'floating_last', 'reverse', 'interleaved'])
        m = reorder(m, rng, how)
        st['atom_orders'][how] = st['atom_orders'].get(how, 0) + 1
        if how != 'none':
            name += ' (atom order: %s)' % how
        if rng.random() < 0.3:
            pos = [c.GetId() for c in m.GetConformers()].index(cid)
            m, ids = with_gapped_conf_ids(m, rng)
            cid = ids[pos]
            st['gapped_conformer_ids'] += 1
        heavy, bonded, fl, hs = classes(m)
        st['with_floating_atom'] += bool(fl)
        st['two_or_more_floating'] += len(fl) >= 2
        st['with_dummy_atom'] += any(a.GetAtomicNum() == 0 for a in m.GetAtoms())
        st['with_isotopic_hydrogen'] += any(a.GetAtomicNum() == 1 and a.GetIsotope() > 0 for a in m.GetAtoms())
        st['floating_hydride_with_explicit_H'] += any(m.GetAtomWithIdx(i).GetDegree() > 0 for i in fl)
        out.append((name, m, cid))
    ctx.coverage['input_distribution']['cov_pool'] = dict(st, size=len(out))
    return out


def rand_opts(rng):
    o = molgen.rand_opts(rng)
    o['incl'] = rng.random() < 0.65          # connected-only mode more often than the shared generator draws it
    o['exfloat'] = rng.random() < 0.65
    bits = rng.choice([2 ** 32, 4096, 1024, 64])
    counts = rng.random() < 0.5
    return o, bits, counts


def _query(f, level, bits, mask):
    r = m1lib.query_impl(f, level, bits, mask)
    if r[0] != 'ok':
        return r
    o = r[1]
    return ('ok', o['kind'], o['bits'], o['level'], tuple(o['idx']), tuple((k, str(v)) for k, v in o['cnt']))


def rand_queries(rng, ret, k):
    qs = []
    for _ in range(2):
        lv = rng.choice([None, -1, 0, 1, 2, k, k + 1])
        mask = [] if rng.random() < 0.5 or not ret else rng.sample(ret, min(len(ret), rng.choice([1, 1, 2])))
        qs.append((lv, rng.choice([None, 1024, 32, 2 ** 32]), sorted(mask)))
    return qs


def payload(stream, name, m, cid, o, bits, counts, variant=None, vcid=None, extra=None):
    from rdkit import Chem
    d = {'cov_stream': stream, 'name': name, 'conf': cid, 'opts_': m1lib.opts_json(o) if o is not None else None, 'bits': bits, 'counts': counts,
         'molblock_': Chem.MolToMolBlock(m, confId=cid), 'exact_coords_hex_': [[float(c).hex() for c in p] for p in coords(m, cid)]}
    if variant is not None:
        vc = cid if vcid is None else vcid
        d['variant_molblock'] = Chem.MolToMolBlock(variant, confId=vc)
        d['variant_exact_coords_hex'] = [[float(c).hex() for c in p] for p in coords(variant, vc)]
    if extra:
        d.update(extra)
    return d


def run_fp(m, cid, o, bits, counts):
    return molfacts.impl_run(m, cid, o, bits=bits, counts=counts)


def invariant_identifier(m, cid, idx, rdkit):
    """Level-0 identifier of atom idx recomputed from the RDKit getters (independent of e3fp), as an unsigned 32-bit value."""
    a = molfacts.mol_facts(m, cid)['atoms'][idx]
    if rdkit:
        v = [a['num'], a['tdeg'], a['nh'], a['charge'], a['dmass'], a['ring']]
    else:
        v = [a['tdeg'] - a['nh'], a['tval'] - a['nh'], a['num'], a['mass'], a['charge'], a['nh'], a['ring']]
    return m1_spec.hash_i64(v) % M32


class Streams(object):
    def __init__(self, ctx):
        self.ctx, self.rng = ctx, ctx.rng
        self.found = False
        self.st = {}

    def bump(self, k, n=1):
        self.st[k] = self.st.get(k, 0) + n

    def fail(self, what, pl, key):
        self.found = True
        self.ctx.fail(what, pl, finding_key=key)

    def base(self, name, m, cid, o, bits, counts):
        """Run on the unmodified molecule; None when the input is outside the quantifier (nothing retained) or the listed
        bond-table finding (counted by m1lib.base_run's rules)."""
        try:
            r = run_fp(m, cid, o, bits, counts)
            # floating_excluded_eq_deleted, second conjunct: the atoms of the scene are exactly the bonded heavy atoms (exclusion on,
            # more than one heavy atom) / all heavy atoms (otherwise): every one owns a level-0 shell and nobody else does
            centres = sorted(c for _, c, _ in r[1][0])
            self.bump('retained_atom_set_checked')
            if centres != sorted(retained(m, o['exfloat'])):
                self.fail('the atoms that own a level-0 shell are not exactly the %s' % ('heavy atoms with a heavy neighbour (exclude_floating on)' if o['exfloat'] else 'heavy atoms (exclude_floating off)'),
                          payload('retained_set', name, m, cid, o, bits, counts, extra={'level0_centres': centres, 'expected': sorted(retained(m, o['exfloat']))}), 'C18:retained-set')
            return r
        except Exception as e:  # noqa
            ret = retained(m, o['exfloat'])
            from rdkit import Chem
            offtable = any(str(b.GetBondType()) not in molfacts.TAGS and b.GetBeginAtomIdx() in ret and b.GetEndAtomIdx() in ret for b in m.GetBonds())
            if not ret:
                self.bump('skipped_no_heavy_atom_retained')
            elif offtable and isinstance(e, KeyError):
                self.bump('skipped_bond_type_outside_table')
            else:
                self.fail('fingerprinting raised %s: %s on %s' % (type(e).__name__, str(e)[:100], name), payload('base', name, m, cid, o, bits, counts), None)
            return None

    # ---- stream 1: displacement styles -------------------------------------------------------------------------------------
    def displace(self, pool, reps):
        rng = self.rng
        for (name, m, cid) in pool:
            o, bits, counts = rand_opts(rng)
            heavy, bonded, fl, hs = classes(m)
            r0 = self.base(name, m, cid, o, bits, counts)
            if r0 is None:
                continue
            f0, obs0, k0 = r0
            ret = retained(m, o['exfloat'])
            qs = rand_queries(rng, ret, k0)
            snap0 = (k0, obs0, [_query(f0, *q) for q in qs])
            groups = []
            if hs:
                groups.append(('hydrogens' if all(m.GetAtomWithIdx(i).GetAtomicNum() == 1 for i in hs) else 'hydrogens / dummy atoms', hs, 'C18:hydrogen'))
            if fl and bonded and o['exfloat'] and len(heavy) > 1:
                groups.append(('unbonded heavy atoms', fl, 'C18:floating-move'))
                if hs:
                    groups.append(('hydrogens and unbonded heavy atoms', hs + fl, 'C18:floating-move'))
            if not groups:
                self.bump('displace_nothing_to_move')
            for label, idxs, key in groups:
                for style in rng.sample(STYLES, min(reps, len(STYLES))):
                    m2 = displaced(m, cid, rng, idxs, style)
                    try:
                        f1, obs1, k1 = run_fp(m2, cid, o, bits, counts)
                        snap1 = (k1, obs1, [_query(f1, *q) for q in qs])
                    except Exception as e:  # noqa
                        snap1 = ('raised', type(e).__name__, str(e)[:100])
                    self.bump('displace:%s:%s' % (label.split()[0], style))
                    self.ctx.count(('disp', name, cid, str(o), bits, counts, label, style, self.st['displace:%s:%s' % (label.split()[0], style)]), k0 >= 1)
                    if snap1 != snap0:
                        self.fail('moving the %s (%s) changed the fingerprinter\'s result%s' % (label, style, ' although exclude_floating is on' if 'unbonded' in label else ''),
                                  payload('displace', name, m, cid, o, bits, counts, variant=m2, extra={'moved_atoms': idxs, 'style': style, 'queries': qs,
                                          'levels_before': {str(l): len(v) for l, v in obs0.items()},
                                          'after': (snap1[:3] if snap1[0] == 'raised' else {str(l): len(v) for l, v in snap1[1].items()})}), key)
                        break

    # ---- stream 2: deletion variants and explicit/implicit hydrogens ---------------------------------------------------------
    def compare_renumbered(self, stream, what, key, name, m, cid, o, bits, counts, m2, olds, r0=None, extra=None):
        """run(m2) must equal run(m) through the strictly increasing renumbering olds[new] = old."""
        rng = self.rng
        if r0 is None:
            r0 = self.base(name, m, cid, o, bits, counts)
            if r0 is None:
                return None
        f0, obs0, k0 = r0
        try:
            f1, obs1, k1 = run_fp(m2, cid, o, bits, counts)
        except Exception as e:  # noqa
            self.fail('%s: the variant raises %s: %s' % (what, type(e).__name__, str(e)[:100]), payload(stream, name, m, cid, o, bits, counts, variant=m2, extra=extra), key)
            return False
        old_to_new = {old: new for new, old in enumerate(olds)}
        ret = [i for i in retained(m, o['exfloat'])]
        qs = rand_queries(rng, ret, k0)
        a0 = [_query(f0, *q) for q in qs]
        a1 = [_query(f1, lv, b, sorted(old_to_new[x] for x in mask)) for (lv, b, mask) in qs]
        same = (k0 == k1 and obs0 == map_obs(obs1, olds) and a0 == a1)
        if not same:
            d = dict(extra or {})
            d.update({'new_to_old': olds, 'queries_old_indices': qs, 'current_level': [k0, k1],
                      'identifiers_only_in_original': sorted(set(i for v in obs0.values() for i, _, _ in v) - set(i for v in obs1.values() for i, _, _ in v))[:12],
                      'identifiers_only_in_variant': sorted(set(i for v in obs1.values() for i, _, _ in v) - set(i for v in obs0.values() for i, _, _ in v))[:12]})
            self.fail(what, payload(stream, name, m, cid, o, bits, counts, variant=m2, extra=d), key)
        return same

    def delete(self, pool):
        rng = self.rng
        from rdkit import Chem
        for (name, m, cid) in pool:
            heavy, bonded, fl, hs = classes(m)
            o, bits, counts = rand_opts(rng)
            if fl and bonded:
                o['exfloat'] = True
                r0 = self.base(name, m, cid, o, bits, counts)
                if r0 is None:
                    continue
                for variant in ('with_hydrogens', 'heavy_only'):
                    m2, olds = deleted(m, variant)
                    self.bump('delete:' + variant)
                    self.ctx.count(('del', name, cid, str(o), bits, counts, variant), r0[2] >= 1)
                    ok = self.compare_renumbered('delete', 'deleting the unbonded heavy atoms (%s) changed the fingerprinter\'s result although exclude_floating is on' % variant,
                                                 'C18:floating-delete', name, m, cid, o, bits, counts, m2, olds, r0=r0, extra={'deletion_variant': variant})
                    if not ok:
                        break
            # hydrogens present or absent: Chem.RemoveHs keeps every heavy atom's hydrogen count, degree and valence
            if any(a.GetAtomicNum() == 1 for a in m.GetAtoms()) and len(heavy) >= 1:
                m3 = Chem.Mol(m)
                for a in m3.GetAtoms():
                    a.SetIntProp('_c18_old', a.GetIdx())
                try:
                    m3 = Chem.RemoveHs(m3)
                except Exception:  # noqa
                    continue
                olds = [a.GetIntProp('_c18_old') for a in m3.GetAtoms()]
                if olds != sorted(olds) or len(olds) == m.GetNumAtoms():
                    self.bump('implicit_vs_explicit_H:skipped')
                    continue
                # the hydrogen records of the heavy atoms must be unchanged for the comparison to be an instance of hydrogen_irrelevant
                fa, fb = molfacts.mol_facts(m, cid)['atoms'], molfacts.mol_facts(m3, cid)['atoms']
                keys = ('num', 'deg', 'tdeg', 'tval', 'nh', 'mass', 'charge', 'ring', 'dmass', 'pos')
                if any(fa[old]['num'] > 1 and any(fa[old][k] != fb[new][k] for k in keys) for new, old in enumerate(olds)):
                    self.bump('implicit_vs_explicit_H:skipped_records_differ')
                    continue
                o2 = dict(o)
                self.bump('implicit_vs_explicit_H')
                self.ctx.count(('impl-H', name, cid, str(o2), bits, counts), True)
                self.compare_renumbered('implicit_vs_explicit_H', 'removing the explicit hydrogen atoms (Chem.RemoveHs: same heavy-atom records) changed the fingerprinter\'s result',
                                        'C18:hydrogen-presence', name, m, cid, o2, bits, counts, m3, olds)

    # ---- stream 3: every option setting ------------------------------------------------------------------------------------
    def option_grid(self, mols, levels, count_values):
        rng = self.rng
        from rdkit import Chem
        from e3fp.fingerprint.fprinter import Fingerprinter
        for (name, m, cid) in mols:
            heavy, bonded, fl, hs = classes(m)
            if not (fl and bonded):
                continue
            for variant in ('with_hydrogens',):
                m2, olds = deleted(m, variant)
            for stereo in (True, False):
                for remdup in (True, False):
                    for incl in (True, False):
                        for rdk in (True, False):
                            for level in levels:
                                if level in (-1, None) and not remdup:
                                    continue
                                for counts in count_values:
                                    mult = rng.choice([1.0, 1.5, 1.718, 2.0])
                                    bits = rng.choice([2 ** 32, 4096, 1024])
                                    o = {'level': level, 'mult': mult, 'stereo': stereo, 'remdup': remdup, 'incl': incl, 'rdkit': rdk, 'exfloat': True}
                                    self.bump('grid:exclusion_on')
                                    self.ctx.count(('grid-on', name, str(o), bits, counts), True)
                                    self.compare_renumbered('option_grid', 'option grid: deleting the unbonded heavy atoms changed the result although exclude_floating is on',
                                                            'C18:floating-delete', name, m, cid, o, bits, counts, m2, olds)
                                    o = dict(o, exfloat=False)
                                    self.bump('grid:exclusion_off')
                                    self.ctx.count(('grid-off', name, str(o), bits, counts), True)
                                    self.included(name, m, cid, o, bits, counts, m2, olds)
            # the default: exclude_floating not passed at all
            from e3fp.fingerprint.generate import fprints_dict_from_mol
            for kw in ({}, {'level': 2, 'counts': True}, {'include_disconnected': False, 'bits': 1024}):
                ma, mb = Chem.Mol(m), Chem.Mol(m2)
                ma.SetProp('_Name', 'c18cov')
                mb.SetProp('_Name', 'c18cov')
                da, db_ = fprints_dict_from_mol(ma, first=-1, **kw), fprints_dict_from_mol(mb, first=-1, **kw)
                canon = lambda d: {lv: [(type(x).__name__, int(x.bits), tuple(int(i) for i in x.indices), tuple(sorted((int(a), str(b)) for a, b in x.counts.items()))) for x in fps] for lv, fps in d.items()}  # noqa
                self.bump('grid:default_fprints_dict_from_mol')
                self.ctx.count(('grid-default-entry', name, str(sorted(kw.items()))), True)
                if canon(da) != canon(db_):
                    self.fail('fprints_dict_from_mol(mol%s) without an explicit exclude_floating: the unbonded heavy atoms influence the fingerprints (exclusion is the default)' % ''.join(', %s=%r' % kv for kv in kw.items()),
                              payload('default_constructed', name, m, cid, None, kw.get('bits'), kw.get('counts', False), variant=m2, extra={'kwargs': dict(kw), 'entry_point': 'fprints_dict_from_mol'}),
                              'C18:floating-default')
            for kw in ({}, {'level': 3}, {'stereo': False, 'counts': True}, {'include_disconnected': False}, {'rdkit_invariants': True, 'bits': 1024}):
                fa, fb = Fingerprinter(**kw), Fingerprinter(**kw)
                fa.run(cid, m)
                fb.run(cid, m2)
                self.bump('grid:default_constructed')
                self.ctx.count(('grid-default', name, str(sorted(kw.items()))), True)
                if (int(fa.current_level), molfacts.observe(fa), _query(fa, None, None, [])) != (int(fb.current_level), map_obs(molfacts.observe(fb), olds), _query(fb, None, None, [])):
                    self.fail('Fingerprinter(%s) without an explicit exclude_floating: the unbonded heavy atoms influence the result (exclusion is the default)' % kw,
                              payload('default_constructed', name, m, cid, None, kw.get('bits'), kw.get('counts', False), variant=m2, extra={'kwargs': {k: v for k, v in kw.items()}}),
                              'C18:floating-default')

    # ---- exclusion off: own identifiers ---------------------------------------------------------------------------------------
    def included(self, name, m, cid, o, bits, counts, m_del=None, olds=None):
        rng = self.rng
        heavy, bonded, fl, hs = classes(m)
        try:
            f0, obs0, k0 = run_fp(m, cid, o, bits, counts)
        except Exception as e:  # noqa
            self.fail('exclude_floating off: fingerprinting raised %s: %s' % (type(e).__name__, str(e)[:100]), payload('included', name, m, cid, o, bits, counts), 'C18:floating-included')
            return
        bad = None
        for i in fl:
            ident = invariant_identifier(m, cid, i, o['rdkit'])
            sh0 = (ident if ident < (1 << 31) else ident - M32, i, (i,))
            for l in range(k0 + 1):
                if not any((s[0] % M32, s[1], s[2]) == (ident, i, (i,)) for s in obs0[l]):
                    bad = 'the level-0 shell %r of unbonded atom %d (identifier = hash of its own invariants) is missing at level %d' % (sh0, i, l)
            for lv, b in ((None, None), (0, 64), (k0, 1024), (max(0, k0 - 1), 2 ** 32)):
                r = m1lib.query_impl(f0, lv, b, [x for x in fl if x != i][:1])
                bb = bits if b is None else b
                if r[0] != 'ok' or (ident % bb) not in r[1]['idx'] or (counts and dict(r[1]['cnt']).get(ident % bb, 0) < 1):
                    bad = 'the identifier %d of unbonded atom %d is not a set position (%d) of the fingerprint at level %r folded to %d' % (ident, i, ident % bb, lv, bb)
            if bad:
                break
        if bad:
            self.fail('exclude_floating off: ' + bad, payload('included', name, m, cid, o, bits, counts), 'C18:floating-included')
            return
        # out of reach of every shell and with duplicate removal on, the unbonded atoms contribute exactly their own identifiers
        if m_del is not None and o['remdup']:
            from rdkit import Chem
            from rdkit.Geometry import Point3D
            m_far = Chem.Mol(m)
            conf = m_far.GetConformer(cid)
            for n, i in enumerate(fl):
                conf.SetAtomPosition(i, Point3D(1e4 * (n + 1), -3e3 * (n + 1), 5e3))
            try:
                f1, obs1, k1 = run_fp(m_far, cid, o, bits, counts)
                f2, obs2, k2 = run_fp(m_del, cid, o, bits, counts)
            except Exception as e:  # noqa
                self.fail('exclude_floating off, unbonded atoms far away: raised %s: %s' % (type(e).__name__, str(e)[:100]), payload('included_far', name, m, cid, o, bits, counts, variant=m_far), 'C18:floating-included')
                return
            own = sorted((invariant_identifier(m, cid, i, o['rdkit']), i, (i,)) for i in fl)
            self.bump('included:far_equals_deleted_plus_own')
            exp = {l: sorted([(s[0] % M32, s[1], s[2]) for s in v] + own) for l, v in map_obs(obs2, olds).items()}
            got = {l: sorted((s[0] % M32, s[1], s[2]) for s in v) for l, v in obs1.items()}
            if k1 != k2 or exp != got:
                self.fail('exclude_floating off, unbonded atoms out of reach of every shell: the shells are not those of the molecule without them plus their own level-0 shells',
                          payload('included_far', name, m, cid, o, bits, counts, variant=m_far, extra={'current_level': [k1, k2], 'own_shells': own, 'new_to_old': olds}), 'C18:floating-included')

    # ---- lattice molecules (exact distance ties) in every atom order ----------------------------------------------------------
    def lattice(self, n, reps):
        """Heavy atoms on a cubic lattice whose spacing equals the shell radius step, so that many pair distances EQUAL a radius
        exactly: any arithmetic that mixes a hydrogen's or an excluded atom's coordinates into the retained ones (re-centring on
        the first atom, a centroid, a bounding box) flips a shell membership.  Unlike the lattice molecules of c18.py these come in
        every atom order (a hydrogen or the ion first) and with every displacement style (far / huge)."""
        rng = self.rng
        for _ in range(n):
            name, m, cid, mult = molgen.lattice_molecule(rng)
            how = rng.choice(['random', 'h_first', 'floating_first', 'reverse', 'interleaved', 'none'])
            m = reorder(m, rng, how)
            name += ' (atom order: %s)' % how
            o, bits, counts = rand_opts(rng)
            o = dict(o, mult=mult, level=rng.choice([2, 3, 4]), incl=True)
            heavy, bonded, fl, hs = classes(m)
            r0 = self.base(name, m, cid, o, bits, counts)
            if r0 is None:
                continue
            f0, obs0, k0 = r0
            groups = [('hydrogens', hs, 'C18:hydrogen')]
            if fl and o['exfloat']:
                groups.append(('unbonded heavy atoms', fl, 'C18:floating-move'))
            for label, idxs, key in groups:
                for style in rng.sample(STYLES, min(reps, len(STYLES))):
                    m2 = displaced(m, cid, rng, idxs, style)
                    f1, obs1, k1 = run_fp(m2, cid, o, bits, counts)
                    self.bump('lattice:%s:%s' % (label.split()[0], style))
                    self.ctx.count(('lat', name, str(o), label, style, self.st['lattice:%s:%s' % (label.split()[0], style)]), k0 >= 1)
                    if (k1, obs1) != (k0, obs0):
                        self.fail('lattice molecule with exact distance ties: moving the %s (%s) changed the fingerprinter\'s result' % (label, style),
                                  payload('lattice', name, m, cid, o, bits, counts, variant=m2, extra={'moved_atoms': idxs, 'style': style}), key)
                        break
            if fl and o['exfloat']:
                m3, olds = deleted(m, 'with_hydrogens')
                self.bump('lattice:delete')
                self.ctx.count(('lat-del', name, str(o), self.st['lattice:delete']), k0 >= 1)
                self.compare_renumbered('lattice', 'lattice molecule with exact distance ties: deleting the unbonded ion changed the result although exclude_floating is on',
                                        'C18:floating-delete', name, m, cid, o, bits, counts, m3, olds, r0=r0)

    def included_pool(self, pool):
        for (name, m, cid) in pool:
            heavy, bonded, fl, hs = classes(m)
            if not (fl and bonded):
                continue
            o, bits, counts = rand_opts(self.rng)
            o['exfloat'] = False
            m2, olds = deleted(m, 'with_hydrogens')
            self.bump('included:pool')
            self.ctx.count(('incl', name, cid, str(o), bits, counts), True)
            self.included(name, m, cid, o, bits, counts, m2, olds)

    # ---- stream 5: call sequences ------------------------------------------------------------------------------------------------
    def sequences(self, pool):
        rng = self.rng
        from rdkit import Chem
        from e3fp.fingerprint.fprinter import Fingerprinter
        for (name, m, cid) in pool:
            heavy, bonded, fl, hs = classes(m)
            if not bonded or not (hs or fl):
                continue
            o, bits, counts = rand_opts(rng)
            if fl:
                o['exfloat'] = True
            if self.base(name, m, cid, o, bits, counts) is None:
                continue
            move = hs + (fl if o['exfloat'] and len(heavy) > 1 else [])
            order = list(range(m.GetNumAtoms()))
            rng.shuffle(order)
            twin = Chem.RenumberAtoms(m, order)                     # new index j holds old atom order[j]
            steps = [('original', m, None), ('moved copy', displaced(m, cid, rng, move, rng.choice(STYLES)), None), ('renumbered twin', twin, None)]
            if fl and o['exfloat']:
                md, olds = deleted(m, rng.choice(['with_hydrogens', 'heavy_only']))
                steps.append(('unbonded atoms deleted', md, olds))
            steps += [('plain copy', Chem.Mol(m), None), ('original', m, None), ('moved copy', displaced(m, cid, rng, move, rng.choice(STYLES)), None)]
            rng.shuffle(steps)
            f = Fingerprinter(bits=bits, level=o['level'], radius_multiplier=o['mult'], stereo=o['stereo'], counts=counts, include_disconnected=o['incl'],
                              rdkit_invariants=o['rdkit'], exclude_floating=o['exfloat'], remove_duplicate_substructs=o['remdup'])
            ref = None
            hist = []
            for label, mm, olds in steps:
                hist.append(label)
                try:
                    how = rng.choice(['id+mol', 'conf', 'conf+mol'])
                    if how == 'id+mol':
                        f.run(cid, mm)
                    elif how == 'conf':
                        f.run(conf=mm.GetConformer(cid))
                    else:
                        f.run(mm.GetConformer(cid), mm)
                    k, obs = int(f.current_level), molfacts.observe(f)
                    fp_ = _query(f, None, None, [])
                    ff, fobs, fk = run_fp(mm, cid, o, bits, counts)
                    fresh = (fk, fobs, _query(ff, None, None, []))
                except Exception as e:  # noqa
                    self.fail('reused Fingerprinter: step %r raised %s: %s' % (label, type(e).__name__, str(e)[:100]), payload('sequence', name, m, cid, o, bits, counts, variant=mm, extra={'history': hist}), 'C18:reuse')
                    break
                self.bump('sequence_steps')
                self.bump('sequence_call:' + how)
                self.ctx.count(('seq', name, cid, str(o), bits, counts, tuple(hist)), k >= 1)
                if (k, obs, fp_) != fresh:
                    self.fail('a Fingerprinter reused over variants of one molecule answers differently from a fresh one at step %r' % label,
                              payload('sequence', name, m, cid, o, bits, counts, variant=mm, extra={'history': hist}), 'C18:reuse')
                    break
                # canonical (numbering-free) form: identifier multisets per level + the whole-molecule fingerprint
                canon = (k, {l: sorted(s[0] for s in v) for l, v in obs.items()}, fp_)
                if ref is None:
                    ref = canon
                elif canon != ref:
                    self.fail('step %r of a sequence of variants (hydrogens / unbonded atoms moved, renumbered twin, unbonded atoms deleted) gives different identifiers' % label,
                              payload('sequence', name, m, cid, o, bits, counts, variant=mm, extra={'history': hist}), 'C18:reuse')
                    break

    def conformers(self, pool):
        """One molecule object whose conformers differ in hydrogen (and excluded-atom) positions only: one Fingerprinter over all of
        them (the reset_conf path) and fprints_dict_from_mol must give one and the same fingerprint for every conformer."""
        rng = self.rng
        from rdkit import Chem
        from e3fp.fingerprint.fprinter import Fingerprinter
        from e3fp.fingerprint.generate import fprints_dict_from_mol
        for (name, m, cid) in pool:
            heavy, bonded, fl, hs = classes(m)
            if not bonded or not (hs or fl):
                continue
            o, bits, counts = rand_opts(rng)
            if fl:
                o['exfloat'] = True
            if o['level'] is None:
                o['level'] = -1
            if self.base(name, m, cid, o, bits, counts) is None:
                continue
            move = hs + (fl if o['exfloat'] and len(heavy) > 1 else [])
            mm = Chem.Mol(m)
            for c in [c.GetId() for c in mm.GetConformers()]:
                if c != cid:
                    mm.RemoveConformer(c)
            mm.GetConformer(cid).SetId(0)
            nvar = rng.choice([2, 3, 4])
            for k in range(nvar):
                v = displaced(m, cid, rng, move, rng.choice(STYLES))
                c = Chem.Conformer(v.GetConformer(cid))
                c.SetId(k + 1)
                mm.AddConformer(c, assignId=False)
            mm.SetProp('_Name', 'c18cov')
            f = Fingerprinter(bits=bits, level=o['level'], radius_multiplier=o['mult'], stereo=o['stereo'], counts=counts, include_disconnected=o['incl'],
                              rdkit_invariants=o['rdkit'], exclude_floating=o['exfloat'], remove_duplicate_substructs=o['remdup'])
            res = []
            try:
                for c in range(nvar + 1):
                    if c % 3 == 2:
                        f.run(conf=mm.GetConformer(c))          # the owning molecule comes back as a new Python object: full re-initialisation
                    else:
                        f.run(c, mm)                            # same molecule object: only the conformer-specific state is reset
                    res.append((int(f.current_level), molfacts.observe(f), _query(f, None, None, [])))
                d = fprints_dict_from_mol(mm, first=-1, bits=bits, level=o["level"], radius_multiplier=o['mult'], counts=counts, stereo=o['stereo'], include_disconnected=o['incl'],
                                          rdkit_invariants=o['rdkit'], exclude_floating=o['exfloat'], remove_duplicate_substructs=o['remdup'])
                via = {lv: [(type(x).__name__, int(x.bits), tuple(int(i) for i in x.indices), tuple(sorted((int(a), str(b)) for a, b in x.counts.items()))) for x in fps] for lv, fps in d.items()}
            except Exception as e:  # noqa
                self.fail('conformers differing in hydrogen / excluded-atom positions only: raised %s: %s' % (type(e).__name__, str(e)[:100]), payload('conformers', name, mm, 0, o, bits, counts), 'C18:conformers')
                continue
            self.bump('conformer_sets')
            self.bump('conformer_runs', nvar + 1)
            self.ctx.count(('confs', name, cid, str(o), bits, counts, nvar), res[0][0] >= 1, n=nvar + 1)
            if any(r != res[0] for r in res):
                bad = [i for i, r in enumerate(res) if r != res[0]][0]
                self.fail('one Fingerprinter over conformers that differ in hydrogen / excluded-atom positions only: conformer %d differs from conformer 0' % bad,
                          payload('conformers', name, mm, 0, o, bits, counts, variant=mm, vcid=bad), 'C18:conformers')
            elif any(len(fps) != nvar + 1 or any(x != fps[0] for x in fps) for fps in via.values()):
                self.fail('fprints_dict_from_mol over conformers that differ in hydrogen / excluded-atom positions only returns different fingerprints',
                          payload('conformers', name, mm, 0, o, bits, counts, extra={'via_fprints_dict_from_mol': {str(k): [list(map(str, x[:3])) for x in v] for k, v in via.items()}}), 'C18:conformers')

            elif fl and o['exfloat'] and len(heavy) > 1:
                # the entry point on the molecule without its unbonded atoms: same fingerprints (names aside)
                md, olds = deleted(mm, rng.choice(['with_hydrogens', 'heavy_only']))
                md.SetProp('_Name', 'c18cov')
                try:
                    d2 = fprints_dict_from_mol(md, first=-1, bits=bits, level=o['level'], radius_multiplier=o['mult'], counts=counts, stereo=o['stereo'], include_disconnected=o['incl'],
                                               rdkit_invariants=o['rdkit'], exclude_floating=o['exfloat'], remove_duplicate_substructs=o['remdup'])
                    via2 = {lv: [(type(x).__name__, int(x.bits), tuple(int(i) for i in x.indices), tuple(sorted((int(a), str(b)) for a, b in x.counts.items()))) for x in fps] for lv, fps in d2.items()}
                except Exception as e:  # noqa
                    via2 = 'raised %s: %s' % (type(e).__name__, str(e)[:100])
                self.bump('fprints_dict_from_mol:deleted')
                if via2 != via:
                    self.fail('fprints_dict_from_mol: the molecule without its unbonded heavy atoms gives different fingerprints although exclude_floating is on',
                              payload('conformers', name, mm, 0, o, bits, counts, variant=md, extra={'new_to_old': olds}), 'C18:floating-delete')

    # ---- stream 5b: entry-point call sequences with BOTH exclusion settings in one process -------------------------------------------
    def entry_sequences(self, pool):
        """fprints_dict_from_mol called repeatedly in one process with the other options fixed and exclude_floating False / default /
        True in changing order: every call must equal a fresh Fingerprinter with that call's setting (nothing remembered between calls)."""
        rng = self.rng
        from rdkit import Chem
        from e3fp.fingerprint.fprinter import Fingerprinter
        from e3fp.fingerprint.generate import fprints_dict_from_mol

        def canon(fps):
            return [(type(x).__name__, int(x.bits), tuple(int(i) for i in x.indices), tuple(sorted((int(a), str(b)) for a, b in x.counts.items()))) for x in fps]
        for (name, m, cid) in pool:
            heavy, bonded, fl, hs = classes(m)
            if not bonded or not fl or len(heavy) < 2:
                continue
            o, bits, counts = rand_opts(rng)
            if o['level'] is None:
                o['level'] = -1
            mm = Chem.Mol(m)
            for c in [c.GetId() for c in mm.GetConformers()]:
                if c != cid:
                    mm.RemoveConformer(c)
            mm.GetConformer(cid).SetId(0)
            mm.SetProp('_Name', 'c18seq')
            kw = dict(first=-1, bits=bits, level=o['level'], radius_multiplier=o['mult'], counts=counts, stereo=o['stereo'], include_disconnected=o['incl'],
                      rdkit_invariants=o['rdkit'], remove_duplicate_substructs=o['remdup'])
            order = rng.choice([['F', 'D', 'F', 'T'], ['T', 'F', 'D'], ['D', 'F', 'T', 'F'], ['F', 'T']])
            hist = []
            for step in order:
                ex = {'F': False, 'T': True, 'D': True}[step]
                try:
                    f = Fingerprinter(bits=bits, level=o['level'], radius_multiplier=o['mult'], stereo=o['stereo'], counts=counts, include_disconnected=o['incl'],
                                      rdkit_invariants=o['rdkit'], exclude_floating=ex, remove_duplicate_substructs=o['remdup'])
                    f.run(0, Chem.Mol(mm))
                    want = canon([f.get_fingerprint_at_level()])
                except Exception as e:  # noqa
                    want = 'raises %s' % type(e).__name__
                try:
                    d = fprints_dict_from_mol(mm, **(kw if step == 'D' else dict(kw, exclude_floating=ex)))
                    got = canon(d[max(d)]) if d else 'empty'
                except Exception as e:  # noqa
                    got = 'raises %s' % type(e).__name__
                if isinstance(want, str):
                    want = 'empty'          # the entry point logs the error and returns {}
                hist.append((step, got == want))
                self.bump('entry_sequence_calls')
                self.ctx.count(('entryseq', name, cid, str(o), bits, counts, tuple(order), len(hist)), True)
                if got != want:
                    self.fail('fprints_dict_from_mol call %d of the sequence %s (F: exclude_floating=False, T: True, D: default) differs from a fresh Fingerprinter with that setting'
                              % (len(hist), '-'.join(order)), payload('entry_sequence', name, mm, 0, o, bits, counts, extra={'order': order, 'agreement_so_far': hist}), 'C18:entry-sequence')
                    break

    # ---- stream 6: the public helper functions -----------------------------------------------------------------------------------
    def helpers(self, pool):
        rng = self.rng
        from e3fp.fingerprint import fprinter as fpr
        for (name, m, cid) in pool:
            heavy, bonded, fl, hs = classes(m)
            if not bonded:
                continue
            exfloat = rng.random() < 0.6
            ret = retained(m, exfloat)
            move = hs + ([i for i in heavy if i not in set(ret)])
            if not move:
                continue
            m2 = displaced(m, cid, rng, move, rng.choice(STYLES))
            md, olds = deleted(m, 'with_hydrogens') if exfloat and fl else (None, None)
            o2n = {old: new for new, old in enumerate(olds)} if olds else None
            kinds = {'ndarray': np.array(ret), 'list': list(ret), 'tuple': tuple(ret), 'int32 array': np.array(ret, dtype=np.int32)}
            pl = lambda what: payload('helpers', name, m, cid, None, None, None, variant=m2, extra={'function': what, 'atoms': ret, 'moved': move})  # noqa
            try:
                for kn, atoms in kinds.items():
                    ca, cb = fpr.coords_from_atoms(atoms, m.GetConformer(cid)), fpr.coords_from_atoms(atoms, m2.GetConformer(cid))
                    self.bump('helper:coords_from_atoms')
                    self.ctx.count(('coords', name, cid, kn, exfloat), True)
                    if sorted(int(k) for k in ca) != sorted(ret) or any(tuple(float(x).hex() for x in ca[k]) != tuple(float(x).hex() for x in cb[k]) for k in ca):
                        self.fail('coords_from_atoms(%s of retained atoms): the coordinates handed out depend on atoms that are not retained' % kn, pl('coords_from_atoms'), 'C18:helper-coords')
                        break
                    if md is not None:
                        cd = fpr.coords_from_atoms([o2n[i] for i in ret], md.GetConformer(cid))
                        if any(tuple(float(x).hex() for x in ca[i]) != tuple(float(x).hex() for x in cd[o2n[i]]) for i in ret):
                            self.fail('coords_from_atoms: coordinates differ after deleting the unbonded atoms', pl('coords_from_atoms/deleted'), 'C18:helper-coords')
                            break
                    ba, bb = fpr.bound_atoms_from_mol(m, atoms), fpr.bound_atoms_from_mol(m2, atoms)
                    norm = lambda d: {int(k): sorted(int(x) for x in v) for k, v in d.items()}  # noqa
                    exp = {}
                    for b in m.GetBonds():
                        x, y = b.GetBeginAtomIdx(), b.GetEndAtomIdx()
                        if x in ret and y in ret:
                            exp.setdefault(x, []).append(y)
                            exp.setdefault(y, []).append(x)
                    exp = {k: sorted(v) for k, v in exp.items()}
                    self.bump('helper:bound_atoms_from_mol')
                    if norm(ba) != exp or norm(bb) != exp:
                        self.fail('bound_atoms_from_mol(%s of retained atoms): bonds to atoms outside `atoms` (hydrogens, excluded atoms) are not ignored' % kn, pl('bound_atoms_from_mol'), 'C18:helper-bound')
                        break
                    if md is not None:
                        bd = norm(fpr.bound_atoms_from_mol(md, [o2n[i] for i in ret]))
                        if {olds[k]: sorted(olds[x] for x in v) for k, v in bd.items()} != exp:
                            self.fail('bound_atoms_from_mol: differs after deleting the unbonded atoms', pl('bound_atoms_from_mol/deleted'), 'C18:helper-bound')
                            break
                # the shell generator driven directly with its defaults (coordinates and bonds collected by itself)
                for incl in (True, False):
                    mult = rng.choice([1.0, 1.5, 1.718, 2.5])

                    def shells(mol, atoms, rel=None):
                        g = fpr.ShellsGenerator(mol.GetConformer(cid), atoms, radius_multiplier=mult, include_disconnected=incl)
                        out = []
                        for _ in range(4):
                            d = next(g)
                            out.append(sorted((int(a) if rel is None else rel[int(a)], tuple(sorted((int(x) if rel is None else rel[int(x)]) for x in s.substruct.atoms))) for a, s in d.items()))
                        return out
                    sa = shells(m, list(ret))
                    self.bump('helper:ShellsGenerator')
                    self.ctx.count(('shellsgen', name, cid, incl, mult, exfloat), True)
                    if sa != shells(m2, np.array(ret)) or (md is not None and sa != shells(md, [o2n[i] for i in ret], rel=olds)):
                        self.fail('ShellsGenerator(conf, retained atoms) with its default coordinates/bonds: the shells depend on atoms that are not retained', pl('ShellsGenerator incl=%s mult=%s' % (incl, mult)), 'C18:helper-shells')
                        break
            except Exception as e:  # noqa
                self.fail('helper functions raised %s: %s' % (type(e).__name__, str(e)[:100]), pl('?'), 'C18:helper')


def run_streams(ctx, base_smiles):
    """Run every stream; returns True when a failing input was found."""
    _quiet()
    rng = ctx.rng
    pool = build_pool(ctx, ctx.n(420, 2500), base_smiles)
    s = Streams(ctx)
    s.displace(pool[:ctx.n(320, 2000)], reps=ctx.n(3, 7))
    s.delete(pool)
    s.included_pool(pool)
    s.lattice(ctx.n(100, 600), reps=ctx.n(4, 7))
    grid = []
    for smi in GRID_MOLS[:ctx.n(5, len(GRID_MOLS))] if ctx.quick else GRID_MOLS:
        m = molgen.embedded(smi, nconf=2, seed=rng.choice([3, 11]), keep_hs=rng.random() < 0.8)
        if m is None:
            continue
        how = rng.choice(['random', 'h_first', 'floating_first', 'interleaved'])
        grid.append((smi + ' (atom order: %s)' % how, reorder(m, rng, how), rng.randrange(m.GetNumConformers())))
    s.option_grid(grid, levels=(0, 2, None) if ctx.quick else (0, 1, 2, 3, 5, -1, None), count_values=(False, True))
    s.sequences(pool[:ctx.n(150, 800)])
    s.conformers(pool[ctx.n(150, 800):ctx.n(280, 1500)])
    s.entry_sequences(pool[ctx.n(100, 500):ctx.n(420, 2500)])
    s.helpers(pool[ctx.n(220, 1500):ctx.n(420, 2500)])
    ctx.coverage['input_distribution']['cov_streams'] = dict(sorted(s.st.items()))
    return s.found


def replay(ctx, c):
    """Replay of a payload written by this module: re-run the recorded molecule and its variant and compare the identifier
    multisets of every level (numbering-free)."""
    import json
    from rdkit import Chem
    from rdkit.Geometry import Point3D
    _quiet()

    def load(block, hexes):
        m = Chem.MolFromMolBlock(block, removeHs=False, sanitize=False)
        m.UpdatePropertyCache(strict=False)
        Chem.GetSymmSSSR(m)
        conf = m.GetConformer()
        for i, xyz in enumerate(hexes):
            conf.SetAtomPosition(i, Point3D(*[float.fromhex(v) for v in xyz]))
        return m
    print(json.dumps({k: v for k, v in c.items() if 'molblock' not in k and 'coords_hex' not in k}, default=str)[:3000])
    if c.get('opts_') is None or 'variant_molblock' not in c:
        print('(no single pair of runs to repeat for this stream: the recorded input is shown above)')
        return 0
    o = c['opts_']
    a, b = load(c['molblock_'], c['exact_coords_hex_']), load(c['variant_molblock'], c['variant_exact_coords_hex'])
    out = []
    for m in (a, b):
        try:
            f, obs, k = run_fp(m, 0, o, c.get('bits') or 2 ** 32, bool(c.get('counts')))
            out.append((k, {l: sorted(s[0] for s in v) for l, v in obs.items()}))
        except Exception as e:  # noqa
            out.append(('raised', type(e).__name__, str(e)[:100]))
    print('original: %s\nvariant : %s' % (str(out[0])[:1500], str(out[1])[:1500]))
    if c['cov_stream'] in ('included_far',):
        print('(for this stream the two results are expected to differ by the unbonded atoms\' own identifiers only)')
        return 0
    if out[0] == out[1]:
        print('the two runs AGREE now (note: mol blocks do not carry every atom property; the stream itself is authoritative)')
        return 0
    print('VIOLATION property=%s replay=(see above)' % ctx.pid)
    return 1
