"""C19 - conformer (SD) and SMILES files round-trip (model M8 = Model/Files.v, theorems in Properties/C19.v).

Theorem-backed: SMILES table write/read on UTF-8 byte strings (incl. the non-ASCII white space str.split() knows), the
4-decimal energy codec, the conformer-limit loops and the save / clear / restore of the property map in mol_to_sdf /
mol_from_sdf (for every molecule, limits and property map without line feeds in its string values).
Tested only: what RDKit's SDWriter / ForwardSDMolSupplier and smart_open do (molecule identity, coordinates at 4 decimals,
properties as strings, compression) - exercised here on real files.

Every case is built from a JSON-able parameter dict by a `make_<stream>` function; `run` draws the parameters, `replay` re-runs
the recorded ones on the implementation and on the model."""
import base64
import bz2
import glob
import gzip
import json
import os
import shutil

import numpy as np

import core
import conf_gen as cg
from props import c19_cov as cov

IMPORTS = ['From Coq Require Import QArith.', 'From E3FP Require Import Base.Prelude Model.Files.']
TOL = '(Qmake 1 1000000000)'
EXTS = ['.sdf', '.sdf.gz', '.sdf.bz2']
ERR = {'ValueError': 'EValue', 'AttributeError': 'EOther', 'UnboundLocalError': 'EOther', 'StopIteration': 'EOther',
       'KeyError': 'EKey', 'IndexError': 'EIndex', 'TypeError': 'EType'}
ZEROISH = [0.0, -0.0, 3e-5, -4e-5, 4.9e-5, -1e-9]      # energies that are, or format to, 0.0000 (a truthiness test drops them)
# white space of Unicode beyond ASCII that str.split() splits at, and two non-spaces sharing their UTF-8 lead bytes
UWS = ['\x85', '\xa0', '\u1680', '\u2000', '\u2009', '\u2028', '\u2029', '\u202f', '\u205f', '\u3000']
LEAD_NOT_WS = ['\u20ac', '\xa9', '\u200b']
ODD_NAMES = ['  padded  ', '', 'y' * 100, ' lead', 'trail ', 'a  b', '$$$$', 'M  END', '> <x>', '2,4-di(R)-[x];y', "N'-z", 'caf\xe9\u4e2d', '0', '-1.5']


def _settle():
    """An SDWriter whose file was closed under it (mol_to_sdf raised inside its `with`) complains from its destructor and leaves
    a pending error behind that surfaces in the next C call: collect now and swallow that."""
    import gc
    for _ in range(3):
        try:
            gc.collect()
            return
        except Exception:
            pass


def _attempt(f):
    try:
        return ('ok', f())
    except Exception as e:           # unknown classes are not `err` constructors: the comparison fails loudly
        tag = ERR.get(type(e).__name__, 'EUnexpected_' + type(e).__name__)
        del e
        _settle()
        return ('err', tag)


def _raw(path):
    op = bz2.open if path.endswith('.bz2') else gzip.open if path.endswith('.gz') else open
    with op(path, 'rb') as f:
        return f.read()


def _optz(x):
    return 'None' if x is None else '(Some %s)' % core.zlit(x)


def good_token(s):
    """Python twin of Model/Files.v good_token_b (cross-checked in Coq on every table case)."""
    b = s.encode('utf-8')
    return len(b) > 0 and all(not (c == 32 or 9 <= c <= 13 or 28 <= c <= 31 or c in (194, 225, 226, 227)) for c in b)


class Made(object):
    def __init__(self, payload):
        self.payload = payload
        self.cases = []
        self.fails = []
        self.skips = []
        self.stats = {}
        self.nontrivial = False

    def case(self, sub, expr, model):
        self.cases.append((sub, expr, model))

    def fail(self, what, key, **extra):
        self.fails.append((what, key, extra))


# --------------------------------------------------------------------------- molecules for the SD stream
def mol_to_b64(m):
    from rdkit import Chem
    return base64.b64encode(m.ToBinary(int(Chem.PropertyPickleOptions.AllProps) | int(Chem.PropertyPickleOptions.CoordsAsDouble))).decode()


def mol_from_b64(s):
    from rdkit import Chem
    return Chem.Mol(base64.b64decode(s))


def base_molecules(ctx, skipped):
    from rdkit import Chem
    import glob
    mols = []
    repo = core.REPO
    for p in sorted(glob.glob(os.path.join(repo, 'tests/data/*.sdf*'))) + sorted(glob.glob(os.path.join(repo, 'tests/data/rand_sdf_files/*.sdf*'))):
        full = cg.read_first_confs(p, 12)
        # the shipped files of molecules with unspecified stereocentres hold conformers that are different stereoisomers in 3D; the SD
        # reader perceives stereo from the first record, so only conformers that agree with conformer 0 make "the same molecule"

        def from3d(cid):
            cp = Chem.Mol(full)
            Chem.AssignStereochemistryFrom3D(cp, confId=cid, replaceExistingTags=True)
            return Chem.MolToSmiles(cp, isomericSmiles=True)
        ids = [c.GetId() for c in full.GetConformers()]
        same = [i for i in ids if from3d(i) == from3d(ids[0])]
        for k in (1, 3, 5):
            if len(same) < k:
                key = 'sdf: shipped file has fewer than %d conformers that are the same stereoisomer in 3D' % k
                skipped[key] = skipped.get(key, 0) + 1
                continue
            m = Chem.Mol(full)
            for i in ids:
                if i not in same[:k]:
                    m.RemoveConformer(i)
            for j, c in enumerate(m.GetConformers()):
                c.SetId(j)
            mols.append(('shipped:%s:%d' % (os.path.basename(p), k), m))
    for name, smi in cg.MOLS[:ctx.n(8, len(cg.MOLS))]:
        for k, keep_h in ((2, False), (4, False), (6, True)):
            m = cg.embed_pool(smi, k, seed=11)
            if not keep_h:
                m = Chem.RemoveHs(m)
            m.SetProp('_Name', name)
            mols.append(('embedded:%s:%d%s' % (name, k, 'H' if keep_h else ''), m))
    # coverage extension: charges, salts, isotopes, radical, one heavy atom, 2-D depiction, one-conformer embedded molecules
    mols += cov.extra_bases(ctx, skipped)
    return mols


def vary(rng, mol, ci):
    """One variation of a base molecule: ids, energies, name, extra properties.  Returns (mol, description)."""
    from rdkit import Chem
    from e3fp.conformer.util import add_conformer_energies_to_mol
    m = Chem.Mol(mol)
    d = {}
    n = m.GetNumConformers()
    d['ids'] = rng.choice(['contiguous', 'contiguous', 'removed', 'renumbered']) if n >= 3 else 'contiguous'
    if d['ids'] == 'removed':
        m.RemoveConformer(rng.randrange(0, n - 1))
    elif d['ids'] == 'renumbered':
        confs = list(m.GetConformers())
        new_ids = sorted(rng.sample(range(0, 3 * n), n))
        if rng.random() < 0.3:
            rng.shuffle(new_ids)
        for c, i in zip(confs, new_ids):
            c.SetId(i + 1000)
        for c in m.GetConformers():
            c.SetId(c.GetId() - 1000)
    n = m.GetNumConformers()
    d['energies'] = rng.choice(['none', 'none', 'none', 'formatted', 'formatted', 'formatted', 'formatted', 'formatted', 'raw', 'fewer', 'more',
                                'own-Energy', 'empty'])
    vals = [rng.choice([rng.uniform(-50, 200), rng.choice([0.03125, 0.09375, 2.00005, 7, 123456.78905] + ZEROISH)]) for _ in range(n + 2)]
    # zero, negative zero and |e| < 5e-5 are in every other energy list by construction (relative energies start at 0)
    if ci % 2 == 0:
        vals[rng.randrange(n)] = ZEROISH[(ci // 2) % len(ZEROISH)]
    if ci % 6 == 0:
        vals = [ZEROISH[(ci // 6 + j) % len(ZEROISH)] for j in range(n + 2)]       # nothing but zeros
    d['zeroish'] = sum(1 for v in vals[:n] if abs(v) < 5e-5)
    if d['energies'] == 'formatted':
        add_conformer_energies_to_mol(m, vals[:n])
    elif d['energies'] == 'raw':
        m.SetProp('_ConfEnergies', '|'.join(rng.choice([repr(v), '%.2f' % v, '%g' % v, '%.6f' % v]) for v in vals[:n]))
    elif d['energies'] == 'fewer' and n > 1:
        add_conformer_energies_to_mol(m, vals[:n - 1])
    elif d['energies'] == 'more':
        add_conformer_energies_to_mol(m, vals[:n + 2])
    elif d['energies'] == 'own-Energy':
        m.SetProp('Energy', rng.choice(['12.5', '3.0000', 'high', '0.0000']))
    elif d['energies'] == 'empty':
        m.SetProp('_ConfEnergies', rng.choice(['', 'abc', '1.0|x']))
    else:
        d['energies'] = 'none'
    d['name'] = rng.choice(['keep', 'keep', 'none', 'unicode', 'odd', 'line-feed' if ci % 5 == 0 else 'keep'])
    if d['name'] == 'none':
        m.ClearProp('_Name')
    elif d['name'] == 'odd':              # legal titles that a careless reader / writer would edit: padding, empty, over 80 characters, SD keywords, punctuation
        m.SetProp('_Name', ODD_NAMES[ci % len(ODD_NAMES)])
    elif d['name'] == 'unicode':
        m.SetProp('_Name', rng.choice(['mol_\xe9\xdf', 'CHEMBL1-2_3', 'x' * 70, 'a\xa0b', 'tab\there']))
    elif d['name'] == 'line-feed':
        m.SetProp('_Name', rng.choice(['a\nb', 'first\nsecond line']))       # the record becomes unreadable
    d['value'] = 'plain'
    if rng.random() < 0.5:
        m.SetProp('assay', rng.choice(['IC50=3nM', '42', 'a b c', 'x\ry', '\u2028 sep', '']))
    if ci % 7 == 3:
        d['value'] = 'line-feed'                                               # outside the SD codec's domain (RDKit edits or drops the value)
        m.SetProp('note', rng.choice(['x\n\ny', 'x\n', 'two\nlines', '\nlead']))
    if rng.random() < 0.3:
        m.SetProp('_hidden', 'h1')
    d['coords'] = ['as-is', 'as-is', 'dyadic', 'as-is', 'shifted-far', 'as-is', 'as-is'][ci % 7]
    if d['coords'] != 'as-is':
        from rdkit.Geometry import Point3D
        for c in m.GetConformers():
            for ai in range(m.GetNumAtoms()):
                q = c.GetAtomPosition(ai)
                if d['coords'] == 'dyadic':      # multiples of 1/32 A: five decimals, every odd multiple an exact tie of the 4-decimal rounding
                    c.SetAtomPosition(ai, Point3D(round(q.x * 32) / 32.0, round(q.y * 32) / 32.0, round(q.z * 32) / 32.0))
                else:                            # far from the origin, all three signs, close to the width of the SD column
                    c.SetAtomPosition(ai, Point3D(q.x + 1234.56789, q.y - 2345.678915, q.z * 1.0 - 0.00004))
    if ci % 4 == 1:                       # typed properties (they travel as their string form), padded values, a key with a blank
        m.SetIntProp('count', rng.randrange(-5, 99))
        m.SetDoubleProp('score', rng.choice([0.5, 0.1, -2.75, 1e-7]))
        m.SetBoolProp('flag', rng.random() < 0.5)
        m.SetProp('padded key' if rng.random() < 0.5 else 'pad', '  v  ')
        d['typed_props'] = True
    return m, d


def sd_safe(props):
    return all('\n' not in v for v in props.values())


def draw_sd(rng, bases, ci):
    bname, base = bases[ci % len(bases)] if ci < len(bases) else rng.choice(bases)
    mol, d = vary(rng, base, ci)
    n = mol.GetNumConformers()
    ext = EXTS[(ci + ci // max(1, len(bases))) % 3]          # a base meets another compression on every pass over the pool
    wl = rng.choice([None, None, -1, 1, 2, 2, n, n + 3, max(1, n - 1)] if ci % 11 else [0, 1, -3])
    lw = n if wl in (None, -1) else wl
    rl = rng.choice([None, None, -1, 1, 2, n + 1, n, max(1, n - 1), max(1, lw - 1), lw, lw + 1] if ci % 13 else [0, 1, -3])
    if ci % 29 == 7:
        for cid in [c.GetId() for c in mol.GetConformers()]:
            mol.RemoveConformer(cid)                          # no conformer at all: outside the quantifier, model = code only
    return {'base': bname, 'variation': d, 'mol_b64': mol_to_b64(mol), 'ext': ext, 'write_limit': wl, 'read_limit': rl,
            'file': rng.choice(['conf', 'CHEMBL12_3', 'a.b', 'x.sdf.old']) + ext,
            # how the functions are called (the property is about the functions, not about one spelling of the call)
            'call_write': rng.choice(['kw', 'pos', 'allkw', 'default' if wl is None else 'kw']),
            'call_read': rng.choice(['kw', 'pos', 'allkw', 'default' if rl is None else 'pos']),
            'limit_type': ['int', 'int64', 'int', 'int32'][ci % 4], 'mol_class': ['Mol', 'Mol', 'PropertyMol', 'RWMol'][(ci // 2) % 4],
            'path_kind': ['new-dir', 'new-dir', 'existing-dir', 'nested-new-dirs', 'relative'][ci % 5]}


def make_sd(p, workdir):
    from rdkit import Chem
    from e3fp.conformer import util as U
    md = Made(dict(p, stream='sdf'))
    mol = cov.as_class(mol_from_b64(p['mol_b64']), p.get('mol_class', 'Mol'))
    d, wl, rl = p['variation'], p['write_limit'], p['read_limit']
    n = mol.GetNumConformers()
    pk = p.get('path_kind', 'new-dir')
    top = os.path.join(workdir, 'sd_%d' % len(os.listdir(workdir)))
    if pk in ('existing-dir', 'relative'):
        os.makedirs(top)
    path = os.path.join(top, 'deeper', 'still') if pk == 'nested-new-dirs' else top
    path = os.path.join(path, p['file'])
    arg_path = p['file'] if pk == 'relative' else path       # a bare file name: written to / read from the current directory
    before = cg.mol_obs(mol)
    before_sig = cg.mol_signature(mol)
    src = cov.describe(mol)
    md.payload.update(props_before=before['props'], conf_ids=[i for i, _ in before['confs']])
    lt = p.get('limit_type', 'int')
    cwd = os.getcwd()
    try:
        if pk == 'relative':
            os.chdir(top)
        with cov.quiet_logging():
            w = _attempt(lambda: cov._write(U, mol, arg_path, cov.as_limit(wl, lt), p.get('call_write', 'kw')))
        try:
            after = cg.mol_obs(mol)
        except SystemError:              # see _settle
            after = cg.mol_obs(mol)
        md.payload['props_after_write'] = after['props']
        r = ('err', w[1]) if w[0] == 'err' else _attempt(lambda: cov._read(U, arg_path, cov.as_limit(rl, lt), p.get('call_read', 'kw')))
    finally:
        os.chdir(cwd)
    fb = os.path.basename(path).split('.sdf')[0]
    safe = sd_safe(before['props'])
    value_unsafe = any('\n' in v for k, v in before['props'].items() if k != '_Name')
    md.stats = {'error': r[0] == 'err', 'safe': safe}
    if value_unsafe:
        # a property value with a line feed: what comes back is RDKit's business (value dropped or edited) - outside the `codec`
        # hypothesis.  Only the write half (the in-memory molecule) is compared with the model.
        md.skips.append('read-back not compared: property value with a line feed (outside the SD codec hypothesis)')
        model = 'mol_to_sdf Z (list Q) %s %s' % (cg.mol_lit(before), _optz(wl))
        exp = 'match %s with Ok mr => mol_close 0 (fst mr) %s | Raises _ => false end' % (model, cg.mol_lit(after)) if w[0] == 'ok' else \
              'match %s with Ok _ => false | Raises e => err_eqb e %s end' % (model, w[1])
        md.payload['impl'] = {'write': w[0] if w[0] == 'ok' else w[1], 'read': r[1] if r[0] == 'err' else cg.mol_obs(r[1])['props']}
        if w[0] == 'err' and w[1].startswith('EUnexpected_'):
            md.fail('mol_to_sdf raised %s, which no modelled path raises' % w[1][12:], 'sdf:unexpected-exception')
        else:
            md.case('', exp, model)
    else:
        model = 'write_read %s %s %s %s' % (cg.mol_lit(before), _optz(wl), _optz(rl), cg.text_lit(fb))
        if r[0] == 'err' and r[1].startswith('EUnexpected_'):
            # an exception class the model has no constructor for: reported as such (a Coq shard with an unknown constructor would take
            # a hundred unrelated cases down with it)
            md.payload['impl'] = r[1]
            md.fail('write/read raised %s, which no modelled path raises' % r[1][12:], 'sdf:unexpected-exception')
        elif r[0] == 'err':
            md.payload['impl'] = r[1]
            md.case('', 'result_eqb (wr_close %s) (%s) (Raises %s)' % (TOL, model, r[1]), model)
        else:
            back = cg.mol_obs(r[1])
            md.payload['impl'] = {'props_read': back['props'], 'nconf_read': len(back['confs']), 'conf_ids_read': [i for i, _ in back['confs']]}
            md.case('', 'result_eqb (wr_close %s) (%s) (Ok (%s, %s))' % (TOL, model, cg.mol_lit(after), cg.mol_lit(back)), model)
    md.nontrivial = n > 1 and r[0] == 'ok'
    # ---- the property itself, directly on the implementation, inside its stated domain
    in_domain = n >= 1 and d['energies'] in ('none', 'formatted') and safe and (wl is None or wl == -1 or wl >= 1) and (rl is None or rl == -1 or rl >= 1)
    md.stats['in_domain'] = in_domain
    if not in_domain:
        return md
    if w[0] == 'err' or r[0] == 'err':
        md.fail('write/read raised inside the domain: %s' % (r[1],), 'sdf:raises')
        return md
    problems = []
    if cg.mol_signature(mol) != before_sig:
        problems.append('in-memory molecule changed by mol_to_sdf')
    rd = r[1]
    lim = lambda x: n if x in (None, -1) else x
    want = min(n, lim(wl), lim(rl))
    md.stats['limit_hit_write'] = lim(wl) < n
    md.stats['limit_hit_read'] = lim(rl) < min(n, lim(wl))
    problems += cov.rt_problems(src, rd, want)
    if not isinstance(rd, Chem.Mol):
        problems.append('mol_from_sdf returned a %s' % type(rd).__name__)
    # the file itself, read with gzip / bz2 / RDKit only: really compressed, one record per written conformer, Energy tag per record
    problems += cov.file_problems(path, src, min(n, lim(wl)))
    if problems:
        md.fail('SD round trip violates the property: ' + '; '.join(problems[:3]), 'sdf:' + problems[0].split(' ')[0])
    return md


# --------------------------------------------------------------------------- energy codec
def draw_codec(rng, i):
    if i < 2 * len(ZEROISH):
        v = ZEROISH[i % len(ZEROISH)] * (1 if i < len(ZEROISH) else -1)
    else:
        v = rng.choice([rng.uniform(-1000, 1000), rng.randrange(-10 ** 6, 10 ** 6) / 10 ** 4, rng.randrange(-10 ** 5, 10 ** 5) / 32.0,
                        rng.randrange(-10 ** 4, 10 ** 4) / 10 ** 4 + 5e-5, rng.uniform(-1, 1) * 1e-4])
    return {'value_hex': float(v).hex()}


def make_codec(p, workdir=None):
    from rdkit import Chem
    import e3fp.conformer.util as UU
    v = float.fromhex(p['value_hex'])
    md = Made(dict(p, stream='codec', value=repr(v)))
    m = Chem.MolFromSmiles('C')
    UU.add_conformer_energies_to_mol(m, [v])
    s = m.GetProp('_ConfEnergies')
    t = cg.classify_token(s)
    got = UU.get_conformer_energies_from_mol(m)
    md.payload['impl'] = s
    if got is None or len(got) != 1:
        md.fail('one energy stored, %r read' % (got,), 'codec:lost')
        return md
    UU.add_conformer_energies_to_mol(m, [got[0]])
    if m.GetProp('_ConfEnergies') != s:
        md.fail('energy codec not idempotent on %r: %s then %s' % (v, s, m.GetProp('_ConfEnergies')), 'codec:idempotent')
    md.case('', '(fmt4 %s =? %s) && (fmt4 (parse4 %s) =? %s)' % (cg.qlit(v), core.zlit(t[1]), core.zlit(t[1]), core.zlit(t[1])), 'fmt4 %s' % cg.qlit(v))
    md.nontrivial = abs(v * 1e4 - round(v * 1e4)) > 0.4
    md.stats = {'zeroish': abs(v) < 5e-5}
    return md


# --------------------------------------------------------------------------- SMILES tables
ALPHA = 'ABCXYZabcxyz0123456789_-.'
# every printable ASCII character that is not white space may appear in a name (chemical names: 2,4-dinitrophenol, (R)-x, a;b, N'-y)
PUNCT = ',;:|/\\()[]{}\'"#%&*+=<>?!@^~`$'
UNI = ['\xe9', '\xdf', '\u4e2d', '\u03b1']
SMI_POOL = ['CCO', 'c1ccccc1', 'C[C@H](N)C(=O)O', '[Na+].[Cl-]', 'C/C=C\\C', 'CC(=O)Oc1ccccc1C(=O)O', '[13CH4]', 'N#N', 'C%12CC%12', 'O=C=O', 'F/C=C/F']


def _pairs_lit(entries):
    return core.listlit(['(%s, %s)' % (cg.text_lit(a), cg.text_lit(b)) for a, b in entries])


def draw_table(rng, i):
    def rname():
        s = ''.join(rng.choice(ALPHA) for _ in range(rng.randrange(1, 9)))
        if rng.random() < 0.3:
            s += rng.choice(UNI)
        if rng.random() < 0.4:
            j = rng.randrange(0, len(s) + 1)
            s = s[:j] + rng.choice(PUNCT) + s[j:]
        if i % 4 == 1 and rng.random() < 0.5:        # names that are NOT good tokens: white space of Unicode or ASCII inside, or a look-alike lead byte
            s = s[:1] + rng.choice(UWS + LEAD_NOT_WS + ['\t', '\x0c', ' ']) + s[1:] + 'z'
        return s
    k = rng.choice([0, 1, 2, 3, 5, 8])
    names = []
    while len(names) < k:
        nm = rname()
        if nm not in names:
            names.append(nm)
    entries = [[nm, rng.choice(SMI_POOL)] for nm in names]
    use_iter = rng.random() < 0.4
    if use_iter:
        rng.shuffle(entries)
        if rng.random() < 0.3 and entries:
            entries.append([entries[0][0], rng.choice(SMI_POOL)])        # a duplicate name: the last one wins on reading
    return {'entries': entries, 'via': 'iter_to_smiles' if use_iter else 'dict_to_smiles', 'ext': ['.smi', '.smi.gz', '.smi.bz2'][i % 3],
            'unique': rng.random() < 0.3, 'has_header': rng.random() < 0.2}


def make_table(p, workdir):
    from e3fp.conformer import util as U
    md = Made(dict(p, stream='smiles-table'))
    entries = [tuple(e) for e in p['entries']]
    path = os.path.join(workdir, 'smi_%d%s' % (len(os.listdir(workdir)), p['ext']))
    if p['via'] == 'iter_to_smiles':
        U.iter_to_smiles(path, entries)
        wmodel = 'iter_to_smiles %s' % _pairs_lit(entries)
    else:
        U.dict_to_smiles(path, dict(entries))
        wmodel = 'dict_to_smiles %s' % _pairs_lit(entries)
    raw = _raw(path)
    r = _attempt(lambda: list(U.smiles_to_dict(path, unique=p['unique'], has_header=p['has_header']).items()))
    exp = '(Raises %s)' % r[1] if r[0] == 'err' else '(Ok %s)' % _pairs_lit(r[1])
    md.payload.update(file_bytes=raw.decode('utf-8'), impl=r[1])
    all_good = all(good_token(a) and good_token(b) for a, b in entries)
    good_lit = core.blit(all_good)
    good_model = 'forallb (fun e => good_token_b (fst e) && good_token_b (snd e)) %s' % _pairs_lit(entries)
    md.case('', 'list_eqb Z.eqb (%s) %s && sdict_result_eqb (smiles_to_dict %s %s %s) %s && Bool.eqb (%s) %s'
            % (wmodel, core.zlist(list(raw)), core.zlist(list(raw)), core.blit(p['unique']), core.blit(p['has_header']), exp, good_model, good_lit),
            'smiles_to_dict (%s) %s %s' % (wmodel, core.blit(p['unique']), core.blit(p['has_header'])))
    md.stats = {'all_good': all_good}
    # the property directly, inside the theorem's premises: good tokens, distinct names -> the same table
    names = [a for a, _ in entries]
    if all_good and len(set(names)) == len(names) and not p['has_header'] and not p['unique']:
        md.stats['in_domain'] = True
        if r[0] == 'err' or dict(r[1]) != dict(entries):
            md.fail('SMILES table does not read back as written', 'smiles:roundtrip')
    md.nontrivial = len(entries) > 1
    return md


PIECES = ['CCO a\n', 'CCO\n', '\n', '   \n', 'c1ccccc1\tbenz\n', 'CC  b  extra column\n', 'N#N a\r\n', 'smiles name\n', 'C\x0cd\n', 'CO e', '\r', 'CCO b\n',
          ' O w\n', 'CCN \xe9t\xe9\n', 'CCC x\x1cy\n',
          # names / fields cut by the white space of Unicode, and look-alikes that must NOT cut
          'CCO a\xa0b\n', 'C\u2028x y\n', 'CC n\u3000m\n', 'CN \xe9\x85z\n', 'C\u20ac euro\n', '\xa9c name\n', 'CCS\u2009thin\u200bzero w\n', 'OO p\u1680q\u205fr\n',
          'CF q\u202f\n', '\xa0\n', 'C \u2029\n']


def draw_malformed(rng, i):
    return {'file_text': ''.join(rng.choice(PIECES) for _ in range(rng.randrange(0, 7))), 'ext': ['.smi', '.smi.gz', '.smi.bz2'][i % 3],
            'unique': rng.random() < 0.4, 'has_header': rng.random() < 0.4}


def make_malformed(p, workdir):
    from e3fp.conformer import util as U
    md = Made(dict(p, stream='smiles-malformed'))
    data = p['file_text'].encode('utf-8')
    path = os.path.join(workdir, 'mal_%d%s' % (len(os.listdir(workdir)), p['ext']))
    op = bz2.open if p['ext'].endswith('.bz2') else gzip.open if p['ext'].endswith('.gz') else open
    with op(path, 'wb') as f:
        f.write(data)
    r = _attempt(lambda: list(U.smiles_to_dict(path, unique=p['unique'], has_header=p['has_header']).items()))
    g = _attempt(lambda: [tuple(x) for x in U.smiles_generator(path)])
    exp = '(Raises %s)' % r[1] if r[0] == 'err' else '(Ok %s)' % _pairs_lit(r[1])
    gexp = _pairs_lit(g[1]) if g[0] == 'ok' else '[]'
    md.payload.update(impl=r[1], impl_generator=g[1])
    md.case('', 'sdict_result_eqb (smiles_to_dict %s %s %s) %s && entries_eqb (smiles_generator %s) %s'
            % (core.zlist(list(data)), core.blit(p['unique']), core.blit(p['has_header']), exp, core.zlist(list(data)), gexp),
            'smiles_to_dict %s %s %s' % (core.zlist(list(data)), core.blit(p['unique']), core.blit(p['has_header'])))
    md.stats = {'unicode_ws': any(u in p['file_text'] for u in UWS)}
    md.nontrivial = len(p['file_text']) > 8
    return md


MAKERS = {'sdf': make_sd, 'codec': make_codec, 'smiles-table': make_table, 'smiles-malformed': make_malformed,
          'sdf-seq': cov.make_seq, 'sdf-foreign': cov.make_foreign, 'codec-list': cov.make_codec_list, 'smiles-multi': cov.make_multi}
PARAM_KEYS = {'sdf': ('base', 'variation', 'mol_b64', 'ext', 'write_limit', 'read_limit', 'file', 'call_write', 'call_read', 'limit_type', 'mol_class',
                      'path_kind'),
              'codec': ('value_hex',),
              'smiles-table': ('entries', 'via', 'ext', 'unique', 'has_header'), 'smiles-malformed': ('file_text', 'ext', 'unique', 'has_header'),
              'sdf-seq': ('template', 'bases', 'mols_b64', 'exts', 'ops', 'mol_class', 'call', 'limit_type'),
              'sdf-foreign': ('kind', 'path', 'base', 'mol_b64', 'records', 'ext', 'order', 'pattern', 'names', 'read_limit', 'file', 'call'),
              'codec-list': ('values', 'container', 'preexisting'),
              'smiles-multi': ('files', 'repeat_first', 'flags', 'unique', 'has_header')}
BULKY = ('mol_b64', 'mols_b64')


def run(ctx):
    ok, res = core.proof_step(ctx)
    from rdkit import RDLogger
    RDLogger.DisableLog('rdApp.*')       # the unreadable records and dropped values generated on purpose are noisy
    rng = ctx.rng
    cases, payloads, mexpr = [], {}, {}
    found = [False]
    dist = {'cases_by_stream': {}, 'params_by_stream': {}, 'skipped': {}, 'sd_in_domain': 0, 'by_ext': {}, 'by_ids': {}, 'by_energies': {},
            'sd_with_zeroish_energy': 0, 'sd_title_with_line_feed': 0, 'sd_value_with_line_feed': 0, 'limits_hit_write': 0, 'limits_hit_read': 0,
            'errors_expected': 0, 'codec_zeroish': 0, 'tables_in_theorem_domain': 0, 'tables_with_not_good_token': 0, 'malformed_with_unicode_ws': 0,
            # coverage extension
            'by_base_kind': {}, 'by_call_write': {}, 'by_call_read': {}, 'by_limit_type': {}, 'by_mol_class': {}, 'by_path_kind': {}, 'by_name_kind': {}, 'by_coords': {},
            'sd_typed_props': 0, 'sd_without_conformers': 0, 'sd_one_conformer': 0, 'sd_read_limit_equals_records': 0, 'sd_both_limits_active': 0,
            'seq_by_template': {}, 'seq_reads': 0, 'foreign_by_kind': {}, 'foreign_by_energy_pattern': {}, 'foreign_by_order': {}, 'foreign_errors_expected': 0,
            'codec_list_by_container': {}, 'codec_list_values': 0, 'multi_by_nfiles': {}, 'multi_tables_in_domain': 0}

    def bump(d, k, n=1):
        d[k] = d.get(k, 0) + n

    def take(stream, tag, params, sample=False):
        try:
            md = MAKERS[stream](params, ctx.workdir)
        except BaseException as e:  # noqa   an exception escaping the implementation (also one left pending by a C extension and surfacing later as SystemError)
            if isinstance(e, KeyboardInterrupt):
                raise
            import traceback
            md = Made({'parameters': {k: params.get(k) for k in PARAM_KEYS[stream]}, 'stream': stream})
            md.fail('%s case %s: the implementation raised %s: %s' % (stream, tag, type(e).__name__, str(e)[:200]), '%s:unexpected-exception' % stream, traceback=traceback.format_exc()[-1500:])
        bump(dist['params_by_stream'], stream)
        for why in md.skips:
            bump(dist['skipped'], '%s: %s' % (stream, why))
        for sub, expr, model in md.cases:
            key = '%s/%s%s' % (stream, tag, ('/' + sub) if sub else '')
            cases.append((key, expr))
            payloads[key] = md.payload
            mexpr[key] = model
            bump(dist['cases_by_stream'], stream)
        for what, fk, extra in md.fails:
            found[0] = True
            ctx.fail(what, dict(md.payload, **extra), finding_key=fk)
        ctx.count((stream, json.dumps({k: params.get(k) for k in PARAM_KEYS[stream]}, sort_keys=True, default=str)), md.nontrivial and bool(md.cases))
        if sample and md.cases:
            ctx.sample({'case': '%s/%s' % (stream, tag), 'parameters': {k: params.get(k) for k in PARAM_KEYS[stream] if k not in BULKY},
                        'implementation': md.payload.get('impl'), 'model_check': md.cases[0][1][:300]})
        return md

    bases = base_molecules(ctx, dist['skipped'])
    for ci in range(ctx.n(200, 1200)):
        p = draw_sd(rng, bases, ci)
        md = take('sdf', str(ci), p, sample=ci < 2)
        d = p['variation']
        n0 = len(md.payload.get('conf_ids', []))
        lw = n0 if p['write_limit'] in (None, -1) else p['write_limit']
        bump(dist['by_base_kind'], p['base'].split(':')[0])
        bump(dist['by_call_write'], p['call_write'])
        bump(dist['by_call_read'], p['call_read'])
        bump(dist['by_limit_type'], p['limit_type'])
        bump(dist['by_mol_class'], p['mol_class'])
        bump(dist['by_path_kind'], p['path_kind'])
        bump(dist['by_name_kind'], d['name'])
        bump(dist['by_coords'], d.get('coords', 'as-is'))
        dist['sd_typed_props'] += bool(d.get('typed_props'))
        dist['sd_without_conformers'] += n0 == 0
        dist['sd_one_conformer'] += n0 == 1
        dist['sd_read_limit_equals_records'] += p['read_limit'] is not None and p['read_limit'] == min(n0, lw) and n0 > 0
        dist['sd_both_limits_active'] += p['write_limit'] not in (None, -1) and p['read_limit'] not in (None, -1)
        bump(dist['by_ext'], p['ext'])
        bump(dist['by_ids'], d['ids'])
        bump(dist['by_energies'], d['energies'])
        dist['sd_with_zeroish_energy'] += d['energies'] in ('formatted', 'raw', 'fewer', 'more') and d['zeroish'] > 0
        dist['sd_title_with_line_feed'] += d['name'] == 'line-feed'
        dist['sd_value_with_line_feed'] += d['value'] == 'line-feed'
        dist['errors_expected'] += md.stats['error']
        dist['sd_in_domain'] += md.stats['in_domain']
        dist['limits_hit_write'] += md.stats.get('limit_hit_write', False)
        dist['limits_hit_read'] += md.stats.get('limit_hit_read', False)
    for i in range(ctx.n(300, 3000)):
        md = take('codec', str(i), draw_codec(rng, i))
        dist['codec_zeroish'] += md.stats.get('zeroish', False)
    for i in range(ctx.n(60, 600)):
        md = take('smiles-table', str(i), draw_table(rng, i), sample=i < 2)
        dist['tables_in_theorem_domain'] += md.stats.get('in_domain', False)
        dist['tables_with_not_good_token'] += not md.stats['all_good']
    for i in range(ctx.n(60, 600)):
        md = take('smiles-malformed', str(i), draw_malformed(rng, i))
        dist['malformed_with_unicode_ws'] += md.stats['unicode_ws']
    # ---- coverage extension: sequences on shared objects / paths, files not written by e3fp, the codec on containers, several SMILES files
    seq_bases = [b for b in bases if not b[0].startswith('shipped') or b[1].GetNumAtoms() < 30]
    for i in range(ctx.n(48, 320)):
        md = take('sdf-seq', str(i), cov.draw_seq(rng, seq_bases, i), sample=i < 1)
        bump(dist['seq_by_template'], md.stats.get('template', '?'))
        dist['seq_reads'] += md.stats.get('reads', 0)
    shipped = sorted(os.path.relpath(q, core.REPO) for q in glob.glob(os.path.join(core.REPO, 'tests/data/*.sdf*')) +
                     glob.glob(os.path.join(core.REPO, 'tests/data/rand_sdf_files/*.sdf*')))
    for i in range(ctx.n(72, 480)):
        md = take('sdf-foreign', str(i), cov.draw_foreign(rng, seq_bases, shipped, i), sample=i == 1)
        bump(dist['foreign_by_kind'], md.stats.get('kind', '?'))
        bump(dist['foreign_by_energy_pattern'], str(md.stats.get('pattern')))
        bump(dist['foreign_by_order'], str(md.stats.get('order')))
        dist['foreign_errors_expected'] += md.stats.get('error', False)
    for i in range(ctx.n(70, 700)):
        p = cov.draw_codec_list(rng, i)
        md = take('codec-list', str(i), p)
        bump(dist['codec_list_by_container'], p['container'])
        dist['codec_list_values'] += len(p['values'])
    for i in range(ctx.n(36, 360)):
        md = take('smiles-multi', str(i), cov.draw_multi(rng, i), sample=i < 1)
        bump(dist['multi_by_nfiles'], str(md.stats.get('nfiles')))
        dist['multi_tables_in_domain'] += md.stats.get('in_domain', 0)

    for stream in MAKERS:
        if not dist['cases_by_stream'].get(stream):
            ctx.fail('stream %s produced no comparable case (%d parameter sets drawn)' % (stream, dist['params_by_stream'].get(stream, 0)), {'stream': stream},
                     no_input=True, kind='harness-error')
    for need in ('sd_with_zeroish_energy', 'sd_title_with_line_feed', 'sd_value_with_line_feed', 'tables_with_not_good_token', 'malformed_with_unicode_ws',
                 'tables_in_theorem_domain', 'sd_in_domain', 'sd_typed_props', 'sd_without_conformers', 'sd_one_conformer', 'sd_read_limit_equals_records',
                 'sd_both_limits_active', 'seq_reads', 'foreign_errors_expected', 'codec_list_values', 'multi_tables_in_domain'):
        if not dist[need]:
            ctx.fail('generator did not produce any input of class %s' % need, {'class': need}, no_input=True, kind='harness-error')

    nbad = core.compare_cases(ctx, cases, IMPORTS, 'C19 conformer and SMILES files', payloads, model_expr=mexpr,
                              finding_key_of=lambda k, pl: 'model-vs-code:%s' % pl.get('stream'), shard=100)
    found_input = found[0] or nbad > 0
    ctx.coverage['rule'] = ('sdf: shipped (tests/data, first 1/3/5 stereo-consistent conformers) and freshly embedded molecules x .sdf/.sdf.gz/.sdf.bz2 x write limit x '
                            'read limit x {no energies, formatted, raw spellings, fewer/more energies than conformers, own Energy property, unparsable} (zero, negative '
                            'zero and |e| < 5e-5 forced into every other energy list) x {contiguous, removed, renumbered conformer ids} x names (incl. NBSP, tab, a '
                            'line feed = unreadable record) x property values (incl. line feeds: write half compared only); non-trivial = more than one conformer and no '
                            'exception. codec: the zero-ish values, random and half-way values. smiles-table: random distinct names (digits, _, -, ., Latin-1, Greek, '
                            'CJK; every 4th table with names cut by Unicode/ASCII white space or carrying a look-alike lead byte) through plain/gz/bz2, unique/has_header '
                            'flags; good_token_b of the model cross-checked with the harness classification. smiles-malformed: streams assembled from blank / one-field '
                            '/ tabbed / CRLF / extra-column / form-feed / NBSP / U+2028 / U+3000 / U+0085 pieces; distinct by full input; skipped comparisons are counted '
                            'under input_distribution.skipped.  Coverage extension (props/c19_cov.py): the sdf pool also holds charged / zwitterionic / salt / isotope-labelled / '
                            'radical / one-heavy-atom / 2-D molecules and one-conformer embedded ones; every sdf case also draws the call form (keyword, positional, all '
                            'keywords, defaults), the type of the limits (int, numpy.int64, numpy.int32), the molecule class (Mol, PropertyMol, RWMol), the path (new directory, '
                            'existing directory, nested new directories, bare file name in the current directory), read limits equal to / one off the number of records, both '
                            'limits active, titles with padding / empty / > 80 characters / SD keywords / punctuation, typed properties, and now and then a molecule without '
                            'conformers; inside the domain the FILE is inspected without e3fp (compression magic, record count, Energy tag per record, no _ConfEnergies, '
                            'coordinates).  sdf-seq: 8 templates of write / read sequences on shared molecules and paths (overwrite, twice, alternate, generations, '
                            'limit-then-full, reread, same-name, mutate-read), every read checked directly and against the model.  sdf-foreign: SD files written by RDKit '
                            'under the harness (records in other orders, per-record names and data items, Energy on all / none / a subset / unparsable / raw spellings, empty '
                            'file) and the shipped files read in place, against the model\'s mol_from_sdf.  codec-list: 0-6 energies of mixed python / NumPy types in lists, '
                            'tuples, arrays, generators.  smiles-multi: smiles_generator over 0-3 files of mixed compression (one of them malformed now and then, the first '
                            'repeated), writers fed generators / dict views / lists of lists / ordered dicts, positional flags, read -> write -> read, a 150-row table')
    ctx.coverage['input_distribution'] = dist
    ctx.coverage['trusted_base'] = ['RDKit SDWriter / ForwardSDMolSupplier (molecule identity, "%10.4f" coordinates, properties without line feeds as strings, `_Name` always '
                                    'defined by the reader) and smart_open compression: Section variables / oracles of the model, exercised by the correspondence only (testing)',
                                    'abstractions of the energy codec: the sign of "-0.0000" is dropped; float("d.dddd") is taken as exactly n/10^4',
                                    'files are valid UTF-8 (a decoding error is not modelled)']
    ctx.assumptions += ['PARTIAL: identity of the molecule, coordinate precision (<= 5e-5) and property strings through the SD format are RDKit\'s: tested on %d files, not proved'
                        % dist['params_by_stream'].get('sdf', 0),
                        'premises of the theorems: names and SMILES are good tokens (no ASCII white space, none of the UTF-8 lead bytes C2/E1/E2/E3 under which the non-ASCII '
                        'white space of Unicode lives) and names are distinct; string property values and the title contain no line feed (sd_safe)',
                        'all conformers of a molecule are the same stereoisomer in 3D (the shipped files of molecules with unspecified centres mix stereoisomers; '
                        'the SD reader perceives stereo from the first record): conformers disagreeing with conformer 0 are left out',
                        'explicit hydrogens are dropped by RDKit\'s reader (removeHs=True): identity and coordinates are compared on heavy atoms',
                        'domain of the direct round-trip assertions: >= 1 conformer, no energies or one formatted energy per conformer, no own `Energy` property, no line feed in '
                        'name/values, limits None/-1/>= 1; outside it only model = code is checked (see findings/repro_conf.py for what happens there)']
    if not ok:
        core.report_broken_proof(ctx, res, found_input)


def replay(ctx, path):
    """Re-run a recorded case: the implementation from the recorded parameters, the model in Coq; exit 1 if they still disagree
    or the property is still violated directly."""
    d = json.load(open(path))
    c = d.get('case', {})
    print(json.dumps({k: v for k, v in d.items() if k != 'case'}, indent=1))
    stream = c.get('stream')
    if stream not in MAKERS:
        print(json.dumps(c, indent=1, default=str)[:6000])
        print('no re-runnable case in this replay file (kind=%s)' % d.get('kind'))
        shutil.rmtree(ctx.workdir, ignore_errors=True)
        return 1
    params = {k: c[k] for k in PARAM_KEYS[stream] if k in c}
    print('stream %s, parameters: %s' % (stream, json.dumps({k: v for k, v in params.items() if k not in BULKY}, default=str)[:3000]))
    if stream == 'sdf':
        print('molecule: props %s, conformer ids %s' % (c.get('props_before'), c.get('conf_ids')))
    md = MAKERS[stream](params, ctx.workdir)
    print('implementation now:', json.dumps(md.payload.get('impl'), default=str)[:3000])
    bad = 0
    for what, fk, extra in md.fails:
        print('DIRECT VIOLATION (%s): %s' % (fk, what))
        bad += 1
    for why in md.skips:
        print('comparison skipped:', why)
    if md.cases:
        results, logs = core.coq_eval_bools([(sub or 'case', expr) for sub, expr, _ in md.cases], IMPORTS, ctx.workdir + '/replay', shard=50)
        for sub, expr, model in md.cases:
            r = results.get(sub or 'case')
            print('model = implementation on %s: %s' % (sub or 'case', r))
            if r is not True:
                bad += 1
                print('model output:', core.coq_eval_raw(model, IMPORTS, ctx.workdir + '/raw')[-3000:])
    print('REPLAY %s' % ('FAILS' if bad else 'passes'))
    shutil.rmtree(ctx.workdir, ignore_errors=True)
    return 1 if bad else 0
