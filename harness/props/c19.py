"""C19 - conformer (SD) and SMILES files round-trip (model M8 = Model/Files.v, theorems in Properties/C19.v).

Theorem-backed: SMILES table write/read on byte strings, the 4-decimal energy codec, the conformer-limit loops and the
save / clear / restore of the property map in mol_to_sdf / mol_from_sdf (for every molecule, limits and property map).
Tested only: what RDKit's SDWriter / ForwardSDMolSupplier and smart_open do (molecule identity, coordinates at 4 decimals,
properties as strings, compression) - exercised here on real files."""
import bz2
import gzip
import json
import os

import numpy as np

import core
import conf_gen as cg

IMPORTS = ['From Coq Require Import QArith.', 'From E3FP Require Import Base.Prelude Model.Files.']
TOL = '(Qmake 1 1000000000)'
EXTS = ['.sdf', '.sdf.gz', '.sdf.bz2']
ERR = {'ValueError': 'EValue', 'AttributeError': 'EOther', 'UnboundLocalError': 'EOther', 'StopIteration': 'EOther',
       'KeyError': 'EKey', 'IndexError': 'EIndex', 'TypeError': 'EType'}


def _attempt(f):
    try:
        return ('ok', f())
    except Exception as e:           # mapped to the model's small enum; unknown ones become EOther and will disagree loudly
        return ('err', ERR.get(type(e).__name__, 'EOther:' + type(e).__name__))


def _raw(path):
    op = bz2.open if path.endswith('.bz2') else gzip.open if path.endswith('.gz') else open
    with op(path, 'rb') as f:
        return f.read()


def _optz(x):
    return 'None' if x is None else '(Some %s)' % core.zlit(x)


# --------------------------------------------------------------------------- molecules for the SD stream
def base_molecules(ctx):
    from rdkit import Chem
    import glob
    mols = []
    repo = core.REPO
    for p in sorted(glob.glob(os.path.join(repo, 'tests/data/*.sdf*'))) + sorted(glob.glob(os.path.join(repo, 'tests/data/rand_sdf_files/*.sdf*'))):
        full = cg.read_first_confs(p, 12)
        # the shipped files of molecules with unspecified stereocentres hold conformers that are different stereoisomers in 3D; the SD
        # reader perceives stereo from the first record, so only conformers that agree with conformer 0 make "the same molecule"
        def from3d(cid):
            cp = Chem.Mol(full)
            Chem.AssignStereochemistryFrom3D(cp, confId=cid, replaceExistingTags=True)
            return Chem.MolToSmiles(cp, isomericSmiles=True)
        ids = [c.GetId() for c in full.GetConformers()]
        same = [i for i in ids if from3d(i) == from3d(ids[0])]
        for k in (1, 3, 5):
            if len(same) < k:
                continue
            m = Chem.Mol(full)
            for i in ids:
                if i not in same[:k]:
                    m.RemoveConformer(i)
            for j, c in enumerate(m.GetConformers()):
                c.SetId(j)
            mols.append(('shipped:%s:%d' % (os.path.basename(p), k), m))
    for name, smi in cg.MOLS[:ctx.n(8, len(cg.MOLS))]:
        for k, keep_h in ((2, False), (4, False), (6, True)):
            m = cg.embed_pool(smi, k, seed=11)
            if not keep_h:
                m = Chem.RemoveHs(m)
            m.SetProp('_Name', name)
            mols.append(('embedded:%s:%d%s' % (name, k, 'H' if keep_h else ''), m))
    return mols


def vary(rng, mol):
    """One variation of a base molecule: ids, energies, name, extra properties.  Returns (mol, description)."""
    from rdkit import Chem
    from e3fp.conformer.util import add_conformer_energies_to_mol
    m = Chem.Mol(mol)
    d = {}
    n = m.GetNumConformers()
    # conformer ids
    d['ids'] = rng.choice(['contiguous', 'contiguous', 'removed', 'renumbered']) if n >= 3 else 'contiguous'
    if d['ids'] == 'removed':
        m.RemoveConformer(rng.randrange(0, n - 1))
    elif d['ids'] == 'renumbered':
        confs = list(m.GetConformers())
        new_ids = sorted(rng.sample(range(0, 3 * n), n))
        if rng.random() < 0.3:
            rng.shuffle(new_ids)
        for c, i in reversed(list(zip(confs, new_ids))):
            c.SetId(i + 1000)
        for c in m.GetConformers():
            c.SetId(c.GetId() - 1000)
    n = m.GetNumConformers()
    # energies
    d['energies'] = rng.choice(['none', 'none', 'none', 'formatted', 'formatted', 'formatted', 'formatted', 'formatted', 'raw', 'fewer', 'more', 'own-Energy', 'empty'])
    vals = [rng.choice([rng.uniform(-50, 200), rng.choice([0.03125, 0.09375, 2.00005, -0.00001, 7, 1e-5, 123456.78905])]) for _ in range(n + 2)]
    if d['energies'] == 'formatted':
        add_conformer_energies_to_mol(m, vals[:n])
    elif d['energies'] == 'raw':
        m.SetProp('_ConfEnergies', '|'.join(rng.choice([repr(v), '%.2f' % v, '%g' % v, '%.6f' % v]) for v in vals[:n]))
    elif d['energies'] == 'fewer' and n > 1:
        add_conformer_energies_to_mol(m, vals[:n - 1])
    elif d['energies'] == 'more':
        add_conformer_energies_to_mol(m, vals[:n + 2])
    elif d['energies'] == 'own-Energy':
        m.SetProp('Energy', rng.choice(['12.5', '3.0000', 'high']))
    elif d['energies'] == 'empty':
        m.SetProp('_ConfEnergies', rng.choice(['', 'abc', '1.0|x']))
    else:
        d['energies'] = 'none'
    # name and other properties
    d['name'] = rng.choice(['keep', 'keep', 'keep', 'none', 'unicode'])
    if d['name'] == 'none':
        m.ClearProp('_Name')
    elif d['name'] == 'unicode':
        m.SetProp('_Name', rng.choice(['mol_éß', 'CHEMBL1-2_3', 'x' * 70]))
    if rng.random() < 0.5:
        m.SetProp('assay', rng.choice(['IC50=3nM', '42', 'a b c']))
    if rng.random() < 0.3:
        m.SetProp('_hidden', 'h1')
    return m, d


def in_domain(d, wl, rl):
    """The domain of the property statement: consistent molecule, limits that allow at least one conformer."""
    return d['energies'] in ('none', 'formatted') and (wl is None or wl == -1 or wl >= 1) and (rl is None or rl == -1 or rl >= 1)


def run(ctx):
    ok, res = core.proof_step(ctx)
    from rdkit import Chem
    from e3fp.conformer import util as U
    rng = ctx.rng
    cases, payloads, mexpr = [], {}, {}
    found_input = False
    dist = {'sd_cases': 0, 'sd_in_domain': 0, 'by_ext': {}, 'by_ids': {}, 'by_energies': {}, 'limits_hit_write': 0, 'limits_hit_read': 0,
            'errors_expected': 0, 'smiles_tables': 0, 'smiles_malformed': 0, 'codec_values': 0}

    def add_case(key, expr, payload, model):
        cases.append((key, expr))
        payloads[key] = payload
        mexpr[key] = model

    def bump(d, k):
        d[k] = d.get(k, 0) + 1

    # ---------------------------------------------------------------- SD files
    bases = base_molecules(ctx)
    n_sd = ctx.n(90, 900)
    for ci in range(n_sd):
        bname, base = bases[ci % len(bases)] if ci < len(bases) else rng.choice(bases)
        mol, d = vary(rng, base)
        n = mol.GetNumConformers()
        ext = EXTS[ci % 3]
        wl = rng.choice([None, None, -1, 1, 2, 2, n, n + 3] if ci % 11 else [0, 1, -3])
        rl = rng.choice([None, None, -1, 1, 2, n + 1] if ci % 13 else [0, 1, -3])
        fname = rng.choice(['conf', 'CHEMBL12_3', 'a.b']) + ext
        path = os.path.join(ctx.workdir, 'sd_%d' % ci, fname)
        before = cg.mol_obs(mol)
        before_sig = cg.mol_signature(mol)
        pl = {'stream': 'sdf', 'base': bname, 'variation': d, 'ext': ext, 'write_limit': wl, 'read_limit': rl, 'file': fname,
              'props_before': before['props'], 'conf_ids': [i for i, _ in before['confs']]}
        w = _attempt(lambda: U.mol_to_sdf(mol, path, conf_num=wl))
        after = cg.mol_obs(mol)
        pl['props_after_write'] = after['props']
        r = ('err', w[1]) if w[0] == 'err' else _attempt(lambda: U.mol_from_sdf(path, conf_num=rl))
        fb = os.path.basename(path).split('.sdf')[0]
        model = 'write_read %s %s %s %s' % (cg.mol_lit(before), _optz(wl), _optz(rl), cg.text_lit(fb))
        key = 'sd/%d' % ci
        if r[0] == 'err':
            dist['errors_expected'] += 1
            pl['impl'] = r[1]
            add_case(key, 'result_eqb (wr_close %s) (%s) (Raises %s)' % (TOL, model, r[1]), pl, model)
        else:
            back = cg.mol_obs(r[1])
            pl['impl'] = {'props_read': back['props'], 'nconf_read': len(back['confs']), 'conf_ids_read': [i for i, _ in back['confs']]}
            add_case(key, 'result_eqb (wr_close %s) (%s) (Ok (%s, %s))' % (TOL, model, cg.mol_lit(after), cg.mol_lit(back)), pl, model)
        dist['sd_cases'] += 1
        bump(dist['by_ext'], ext)
        bump(dist['by_ids'], d['ids'])
        bump(dist['by_energies'], d['energies'])
        ctx.count(('sd', bname, json.dumps(d, sort_keys=True), ext, wl, rl), n > 1 and r[0] == 'ok')
        if ci < 3:
            ctx.sample({'case': key, 'input': {k: pl[k] for k in ('base', 'variation', 'ext', 'write_limit', 'read_limit', 'props_before')},
                        'implementation': pl['impl']})
        # ---- the property itself, directly on the implementation, inside its stated domain
        if not in_domain(d, wl, rl):
            continue
        dist['sd_in_domain'] += 1
        if w[0] == 'err' or r[0] == 'err':
            found_input = True
            ctx.fail('write/read raised inside the domain: %s' % (r[1],), pl, finding_key='sdf:raises')
            continue
        problems = []
        if cg.mol_signature(mol) != before_sig:
            problems.append('in-memory molecule changed by mol_to_sdf')
        rd = r[1]
        lim = lambda x: n if x in (None, -1) else x
        want = min(n, lim(wl), lim(rl))
        dist['limits_hit_write'] += lim(wl) < n
        dist['limits_hit_read'] += lim(rl) < min(n, lim(wl))
        if rd.GetNumConformers() != want:
            problems.append('conformer count %d, expected %d' % (rd.GetNumConformers(), want))
        heavy = [a.GetIdx() for a in mol.GetAtoms() if a.GetAtomicNum() > 1]
        if Chem.MolToSmiles(rd, isomericSmiles=True) != Chem.MolToSmiles(Chem.RemoveHs(Chem.Mol(mol)), isomericSmiles=True):
            problems.append('molecule identity changed')
        if [a.GetAtomicNum() for a in rd.GetAtoms()] != [mol.GetAtomWithIdx(i).GetAtomicNum() for i in heavy]:
            problems.append('atom order changed')
        name0 = before['props'].get('_Name', '')
        if rd.GetProp('_Name') != name0:
            problems.append('name %r read as %r' % (name0, rd.GetProp('_Name')))
        src_confs = list(mol.GetConformers())
        for j, c in enumerate(rd.GetConformers()):
            if j < len(src_confs):
                dev = float(np.abs(np.array(c.GetPositions()) - np.array(src_confs[j].GetPositions())[heavy]).max())
                if dev > 5e-5 + 1e-12:
                    problems.append('conformer %d deviates by %.2e (order or precision)' % (j, dev))
                    break
        if [c.GetId() for c in rd.GetConformers()] != list(range(rd.GetNumConformers())):
            problems.append('ids of the conformers read are not 0..n-1')
        if d['energies'] == 'formatted':
            e0 = before['props']['_ConfEnergies'].split('|')
            got = rd.GetProp('_ConfEnergies').split('|') if rd.HasProp('_ConfEnergies') else None
            if got != e0[:want]:
                problems.append('energies %s read as %s' % (e0[:want], got))
        elif rd.HasProp('_ConfEnergies') or rd.HasProp('Energy'):
            problems.append('energies appear from nowhere')
        for k, v in before['props'].items():
            if k not in ('_ConfEnergies',) and (not rd.HasProp(k) or rd.GetProp(k) != v):
                problems.append('property %s=%r read as %r' % (k, v, rd.GetProp(k) if rd.HasProp(k) else None))
        if problems:
            found_input = True
            ctx.fail('SD round trip violates the property: ' + '; '.join(problems[:3]), pl, finding_key='sdf:' + problems[0].split(' ')[0])

    # ---------------------------------------------------------------- energy codec on its own
    import e3fp.conformer.util as UU
    for i in range(ctx.n(300, 3000)):
        v = rng.choice([rng.uniform(-1000, 1000), rng.randrange(-10 ** 6, 10 ** 6) / 10 ** 4, rng.randrange(-10 ** 5, 10 ** 5) / 32.0,
                        rng.randrange(-10 ** 4, 10 ** 4) / 10 ** 4 + 5e-5, rng.uniform(-1, 1) * 1e-4])
        m = Chem.MolFromSmiles('C')
        UU.add_conformer_energies_to_mol(m, [v])
        s = m.GetProp('_ConfEnergies')
        t = cg.classify_token(s)
        back = UU.get_conformer_energies_from_mol(m)[0]
        UU.add_conformer_energies_to_mol(m, [back])
        if m.GetProp('_ConfEnergies') != s:
            found_input = True
            ctx.fail('energy codec not idempotent on %r: %s then %s' % (v, s, m.GetProp('_ConfEnergies')), {'value': repr(v)}, finding_key='codec:idempotent')
        add_case('codec/%d' % i, '(fmt4 %s =? %s) && (fmt4 (parse4 %s) =? %s)' % (cg.qlit(v), core.zlit(t[1]), core.zlit(t[1]), core.zlit(t[1])),
                 {'stream': 'codec', 'value': repr(v), 'impl': s}, 'fmt4 %s' % cg.qlit(v))
        dist['codec_values'] += 1
        ctx.count(('codec', repr(v)), abs(v * 1e4 - round(v * 1e4)) > 0.4)

    # ---------------------------------------------------------------- SMILES tables
    alpha_names = 'ABCXYZabcxyz0123456789_-.'
    uni = ['é', 'ß', '中', 'α']
    smi_pool = ['CCO', 'c1ccccc1', 'C[C@H](N)C(=O)O', '[Na+].[Cl-]', 'C/C=C\\C', 'CC(=O)Oc1ccccc1C(=O)O', '[13CH4]', 'N#N', 'C%12CC%12', 'O=C=O', 'F/C=C/F']

    def rname():
        s = ''.join(rng.choice(alpha_names) for _ in range(rng.randrange(1, 9)))
        if rng.random() < 0.3:
            s += rng.choice(uni)
        return s

    for i in range(ctx.n(60, 600)):
        ext = ['.smi', '.smi.gz', '.smi.bz2'][i % 3]
        k = rng.choice([0, 1, 2, 3, 5, 8])
        names = []
        while len(names) < k:
            nm = rname()
            if nm not in names:
                names.append(nm)
        table = {nm: rng.choice(smi_pool) for nm in names}
        path = os.path.join(ctx.workdir, 'smi_%d%s' % (i, ext))
        use_iter = rng.random() < 0.4
        entries = list(table.items())
        if use_iter:
            rng.shuffle(entries)
            if rng.random() < 0.3 and entries:
                entries.append((entries[0][0], rng.choice(smi_pool)))        # a duplicate name: the last one wins on reading
            U.iter_to_smiles(path, entries)
            wmodel = 'iter_to_smiles %s' % core.listlit(['(%s, %s)' % (cg.text_lit(a), cg.text_lit(b)) for a, b in entries])
        else:
            U.dict_to_smiles(path, table)
            wmodel = 'dict_to_smiles %s' % core.listlit(['(%s, %s)' % (cg.text_lit(a), cg.text_lit(b)) for a, b in entries])
        raw = _raw(path)
        unique = rng.random() < 0.3
        header = rng.random() < 0.2
        r = _attempt(lambda: list(U.smiles_to_dict(path, unique=unique, has_header=header).items()))
        exp = '(Raises %s)' % r[1] if r[0] == 'err' else '(Ok %s)' % core.listlit(['(%s, %s)' % (cg.text_lit(a), cg.text_lit(b)) for a, b in r[1]])
        pl = {'stream': 'smiles-table', 'ext': ext, 'entries': entries, 'via': 'iter_to_smiles' if use_iter else 'dict_to_smiles', 'unique': unique,
              'has_header': header, 'file_bytes': raw.decode('utf-8'), 'impl': r[1]}
        add_case('smi/%d' % i, 'list_eqb Z.eqb (%s) %s && sdict_result_eqb (smiles_to_dict %s %s %s) %s'
                 % (wmodel, core.zlist(list(raw)), core.zlist(list(raw)), core.blit(unique), core.blit(header), exp), pl,
                 'smiles_to_dict (%s) %s %s' % (wmodel, core.blit(unique), core.blit(header)))
        # the property directly: a table with distinct names reads back as the same table
        if not use_iter and not header and not unique:
            if r[0] == 'err' or dict(r[1]) != table:
                found_input = True
                ctx.fail('SMILES table does not read back as written', pl, finding_key='smiles:roundtrip')
        dist['smiles_tables'] += 1
        ctx.count(('smi', json.dumps(entries), ext, unique, header), k > 1)
        if i < 2:
            ctx.sample({'case': 'smi/%d' % i, 'input': {k2: pl[k2] for k2 in ('entries', 'via', 'ext', 'unique', 'has_header')}, 'implementation': r[1]})

    # malformed / foreign streams: blank lines, one field, tabs, CRLF, extra columns, header, duplicates
    pieces = ['CCO a\n', 'CCO\n', '\n', '   \n', 'c1ccccc1\tbenz\n', 'CC  b  extra column\n', 'N#N a\r\n', 'smiles name\n', 'C\x0cd\n', 'CO e', '\r', 'CCO b\n',
              ' O w\n', 'CCN été\n', 'CCC x\x1cy\n']
    for i in range(ctx.n(60, 600)):
        body = ''.join(rng.choice(pieces) for _ in range(rng.randrange(0, 7)))
        ext = ['.smi', '.smi.gz', '.smi.bz2'][i % 3]
        path = os.path.join(ctx.workdir, 'mal_%d%s' % (i, ext))
        data = body.encode('utf-8')
        op = bz2.open if ext.endswith('.bz2') else gzip.open if ext.endswith('.gz') else open
        with op(path, 'wb') as f:
            f.write(data)
        unique = rng.random() < 0.4
        header = rng.random() < 0.4
        r = _attempt(lambda: list(U.smiles_to_dict(path, unique=unique, has_header=header).items()))
        g = _attempt(lambda: [tuple(x) for x in U.smiles_generator(path)])
        exp = '(Raises %s)' % r[1] if r[0] == 'err' else '(Ok %s)' % core.listlit(['(%s, %s)' % (cg.text_lit(a), cg.text_lit(b)) for a, b in r[1]])
        gexp = core.listlit(['(%s, %s)' % (cg.text_lit(a), cg.text_lit(b)) for a, b in g[1]]) if g[0] == 'ok' else '[]'
        pl = {'stream': 'smiles-malformed', 'ext': ext, 'file_text': body, 'unique': unique, 'has_header': header, 'impl': r[1], 'impl_generator': g[1]}
        add_case('mal/%d' % i, 'sdict_result_eqb (smiles_to_dict %s %s %s) %s && entries_eqb (smiles_generator %s) %s'
                 % (core.zlist(list(data)), core.blit(unique), core.blit(header), exp, core.zlist(list(data)), gexp), pl,
                 'smiles_to_dict %s %s %s' % (core.zlist(list(data)), core.blit(unique), core.blit(header)))
        dist['smiles_malformed'] += 1
        ctx.count(('mal', body, unique, header), len(body) > 8)

    def fkey(k, pl):
        return 'model-vs-code:%s' % pl.get('stream')
    nbad = core.compare_cases(ctx, cases, IMPORTS, 'C19 conformer and SMILES files', payloads, model_expr=mexpr, finding_key_of=fkey, shard=100)
    found_input = found_input or nbad > 0
    ctx.coverage['rule'] = ('SD: shipped (tests/data, first 1/3/5 conformers) and freshly embedded molecules x .sdf/.sdf.gz/.sdf.bz2 x write limit x read limit x '
                            '{no energies, formatted, raw spellings, fewer/more energies than conformers, own Energy property, unparsable} x {contiguous, removed, '
                            'renumbered conformer ids} x name/extra properties; non-trivial = more than one conformer and no exception. Energy codec: random and '
                            'half-way values. SMILES tables: random distinct names (digits, _, -, ., unicode) through plain/gz/bz2, unique/has_header flags; '
                            'malformed streams assembled from blank / one-field / tabbed / CRLF / extra-column / form-feed pieces; distinct by full input')
    ctx.coverage['input_distribution'] = dist
    ctx.coverage['trusted_base'] = ['RDKit SDWriter / ForwardSDMolSupplier (molecule identity, "%10.4f" coordinates, properties as strings, `_Name` always defined by the '
                                    'reader) and smart_open compression: Section variables / oracles of the model, exercised by the correspondence only (testing)',
                                    'abstractions of the energy codec: the sign of "-0.0000" is dropped; float("d.dddd") is taken as exactly n/10^4']
    ctx.assumptions += ['PARTIAL: identity of the molecule, coordinate precision (<= 5e-5) and property strings through the SD format are RDKit\'s: tested on %d files, not proved'
                        % dist['sd_cases'],
                        'names and SMILES contain no Unicode-only white space (U+0085, U+00A0, U+2000..): the byte-level model does not split there, str.split() does',
                        'all conformers of a molecule are the same stereoisomer in 3D (the shipped files of molecules with unspecified centres mix stereoisomers; '
                        'the SD reader perceives stereo from the first record): conformers disagreeing with conformer 0 are left out',
                        'explicit hydrogens are dropped by RDKit\'s reader (removeHs=True): identity and coordinates are compared on heavy atoms',
                        'domain of the direct round-trip assertions: >= 1 conformer, no energies or one formatted energy per conformer, no own `Energy` property, limits None/-1/>= 1; '
                        'outside it only model = code is checked (see findings/repro_conf.py for what happens there)']
    if not ok:
        core.report_broken_proof(ctx, res, found_input)


def replay(ctx, path):
    d = json.load(open(path))
    print(json.dumps(d, indent=1)[:6000])
    c = d.get('case', {})
    if c.get('stream') == 'smiles-malformed':
        from e3fp.conformer import util as U
        p = os.path.join(ctx.workdir, 'replay.smi')
        open(p, 'wb').write(c['file_text'].encode('utf-8'))
        print('implementation now:', _attempt(lambda: list(U.smiles_to_dict(p, unique=c['unique'], has_header=c['has_header']).items())))
    return 0
