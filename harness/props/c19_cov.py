"""C19 coverage extension (part module of c19.py): input classes and call sequences the first generators did not draw.

* `extra_bases`      - molecules the SD stream lacked: charges, zwitterion, salts (disconnected fragments), heavy-atom isotopes, aromatic
                       N-H, sulfoxide stereo, a radical, one-heavy-atom molecules, a 2-D conformer, one-conformer embedded molecules.
* `describe` / `rt_problems` / `file_problems`
                     - the property itself on the implementation: what a molecule read back must look like, and what the FILE must hold
                       (really compressed, one record per written conformer, `Energy` tag per record, no `_ConfEnergies`, coordinates),
                       read with gzip / bz2 / RDKit only.
* stream `sdf-seq`   - call sequences on shared objects and paths: overwrite a path, the same molecule twice, alternating molecules,
                       second generation (read -> write -> read), limited write then full write, re-reading with other limits, a returned
                       molecule mutated and the file re-read, two molecules under one name.  Every read is also compared with the model.
* stream `sdf-foreign` - files NOT written by e3fp (RDKit's writer driven by the harness, and the shipped files in place): records with
                       their own names / data items, `Energy` on a subset, unparsable, in raw spellings; empty file; model = mol_from_sdf.
* stream `codec-list` - add_conformer_energies_to_mol / get_conformer_energies_from_mol on lists, tuples, arrays and generators of python
                       ints, floats and NumPy scalars, several values, empty, overwriting; return values.
* stream `smiles-multi` - smiles_generator over several files of mixed compression, positional flags, iterables other than lists,
                       read -> write -> read, a long table.

Everything random comes from the `rng` handed in; every case is rebuilt from a JSON-able parameter dict (replay)."""
import bz2
import gzip
import io
import logging
import os

import numpy as np

import core
import conf_gen as cg


def _b():
    from props import c19
    return c19


# --------------------------------------------------------------------------- molecules
EXTRA_SMILES = [
    ('zwitterion', '[NH3+]CC([O-])=O'), ('na_acetate', '[Na+].[O-]C(C)=O'), ('tma_chloride', 'C[N+](C)(C)C.[Cl-]'),
    ('c13_o18', '[13CH3]C[18OH]'), ('n15_amine', '[15NH2]CCC'), ('indole', 'c1ccc2[nH]ccc2c1'), ('sulfoxide', 'C[S@](=O)CC'),
    ('nitrobenzene', 'O=[N+]([O-])c1ccccc1'), ('methyl_radical', '[CH3]'), ('water', 'O'), ('methane', 'C'),
    ('butylphenol', 'CC(C)(C)c1ccc(O)cc1'), ('butynol', 'CC#CCO'), ('phosphate', 'COP(O)(O)=O'), ('halide', 'BrCCI'),
    ('e_alkene', 'F/C=C/Cl'), ('two_waters', 'O.O'),
    # a hydrogen the reader keeps (it defines the configuration of the C=N bond)
    ('nh_imine', '[H]/N=C/CC'), ('nh_ketimine', '[H]/N=C(\\C)CC'), ('nh_imine_h', '[H]/N=C/CCO'),
]


def extra_bases(ctx, skipped):
    """[(label, mol)] - conformer ids 0..k-1, every conformer the stereoisomer the graph says (the SD reader perceives stereo in 3-D)."""
    from rdkit import Chem
    from rdkit.Chem import AllChem
    out = []
    for idx, (name, smi) in enumerate(EXTRA_SMILES):
        k, keep_h = ((1, False), (2, False), (3, True), (3, False))[idx % 4]
        m = cg.embed_pool(smi, k, seed=5, minimise=False)
        if m.GetNumConformers() < k:
            key = 'sdf: extra molecule could not be embedded'
            skipped[key] = skipped.get(key, 0) + 1
            continue
        if not keep_h:
            m = Chem.RemoveHs(m)
        target = Chem.MolToSmiles(Chem.RemoveHs(Chem.Mol(m)), isomericSmiles=True)
        ok = True
        for c in m.GetConformers():
            cp = Chem.RemoveHs(Chem.Mol(m))
            Chem.AssignStereochemistryFrom3D(cp, confId=c.GetId(), replaceExistingTags=True)
            ok = ok and Chem.MolToSmiles(cp, isomericSmiles=True) == target
        if not ok:
            key = 'sdf: extra molecule whose 3-D stereo differs from its graph'
            skipped[key] = skipped.get(key, 0) + 1
            continue
        m.SetProp('_Name', name)
        out.append(('extra:%s:%d%s' % (name, k, 'H' if keep_h else ''), m))
    flat = Chem.MolFromSmiles('CC(=O)Oc1ccccc1')
    AllChem.Compute2DCoords(flat)
    flat.SetProp('_Name', 'flat2d')
    out.append(('extra:2d-depiction:1', flat))
    return out


def as_class(mol, cls):
    from rdkit import Chem
    if cls == 'PropertyMol':
        from rdkit.Chem.PropertyMol import PropertyMol
        return PropertyMol(mol)
    if cls == 'RWMol':
        return Chem.RWMol(mol)
    return mol


def as_limit(v, typ):
    if v is None or typ in (None, 'int'):
        return v
    return getattr(np, typ)(v)


# --------------------------------------------------------------------------- the property, directly
def describe(mol):
    """What of a molecule has to survive: name, graph, heavy atoms, coordinates per position, energy spellings, other properties."""
    from rdkit import Chem
    # the atoms RDKit's reader keeps (removeHs=True): the heavy atoms and the hydrogens RemoveHs never removes, e.g. the one that
    # defines the configuration of an N-H imine
    cp = Chem.Mol(mol)
    for a in cp.GetAtoms():
        a.SetIntProp('_c19_idx', a.GetIdx())
    heavy = [a.GetIntProp('_c19_idx') for a in Chem.RemoveHs(cp).GetAtoms()]
    props = cg.props_of(mol)
    e = props.get('_ConfEnergies')
    return {'name': props.get('_Name', ''), 'smiles': Chem.MolToSmiles(Chem.RemoveHs(Chem.Mol(mol)), isomericSmiles=True),
            'nums': [mol.GetAtomWithIdx(i).GetAtomicNum() for i in heavy],
            'isotopes': [mol.GetAtomWithIdx(i).GetIsotope() for i in heavy], 'charges': [mol.GetAtomWithIdx(i).GetFormalCharge() for i in heavy],
            'confs': [np.array(c.GetPositions()).reshape(-1, 3)[heavy] for c in mol.GetConformers()],
            'energies': None if e is None else e.split('|'),
            'props': {k: v for k, v in props.items() if k not in ('_ConfEnergies', '_Name')}}


def rt_problems(src, rd, want, tol=5e-5 + 1e-12, first=0):
    """`rd` (molecule read back) against `src` = describe(source): the first `want` conformers (starting at position `first`)."""
    from rdkit import Chem
    problems = []
    if rd.GetNumConformers() != want:
        problems.append('conformer count %d, expected %d' % (rd.GetNumConformers(), want))
    if Chem.MolToSmiles(rd, isomericSmiles=True) != src['smiles']:
        problems.append('molecule identity changed: %s read as %s' % (src['smiles'], Chem.MolToSmiles(rd, isomericSmiles=True)))
    if [a.GetAtomicNum() for a in rd.GetAtoms()] != src['nums']:
        problems.append('atom order changed')
    elif [a.GetIsotope() for a in rd.GetAtoms()] != src['isotopes'] or [a.GetFormalCharge() for a in rd.GetAtoms()] != src['charges']:
        problems.append('isotopes or charges changed')
    got_name = rd.GetProp('_Name') if rd.HasProp('_Name') else None
    if got_name != src['name']:
        problems.append('name %r read as %r' % (src['name'], got_name))
    for j, c in enumerate(rd.GetConformers()):
        if first + j < len(src['confs']) and len(src['nums']) == rd.GetNumAtoms():
            dev = float(np.abs(np.array(c.GetPositions()).reshape(-1, 3) - src['confs'][first + j]).max()) if rd.GetNumAtoms() else 0.0
            if dev > tol:
                problems.append('conformer %d deviates by %.2e (order or precision)' % (j, dev))
                break
    if [c.GetId() for c in rd.GetConformers()] != list(range(rd.GetNumConformers())):
        problems.append('ids of the conformers read are not 0..n-1')
    got = rd.GetProp('_ConfEnergies').split('|') if rd.HasProp('_ConfEnergies') else None
    if src['energies'] is not None:
        if got != src['energies'][first:first + want]:
            problems.append('energies %s read as %s' % (src['energies'][first:first + want], got))
    elif got is not None or rd.HasProp('Energy'):
        problems.append('energies appear from nowhere')
    if rd.HasProp('Energy'):
        problems.append('temporary Energy property left on the molecule read')
    for k, v in src['props'].items():
        if not rd.HasProp(k) or rd.GetProp(k) != v:
            problems.append('property %s=%r read as %r' % (k, v, rd.GetProp(k) if rd.HasProp(k) else None))
    return problems


def raw_text(path):
    op = bz2.open if path.endswith('.bz2') else gzip.open if path.endswith('.gz') else open
    with op(path, 'rb') as f:
        return f.read()


def parse_records(text):
    from rdkit import Chem
    return list(Chem.ForwardSDMolSupplier(io.BytesIO(text)))


def file_problems(path, src, nwritten, tol=5e-5 + 1e-12):
    """The file itself, read without e3fp and without smart_open."""
    problems = []
    with open(path, 'rb') as f:
        head = f.read(3)
    want_magic = b'BZh' if path.endswith('.bz2') else b'\x1f\x8b' if path.endswith('.gz') else None
    if want_magic is not None and not head.startswith(want_magic):
        problems.append('file %s is not compressed as its extension says' % os.path.basename(path))
        return problems
    if want_magic is None and (head.startswith(b'BZh') or head.startswith(b'\x1f\x8b')):
        problems.append('plain file %s is compressed' % os.path.basename(path))
        return problems
    text = raw_text(path)
    recs = parse_records(text)
    if len(recs) != nwritten:
        problems.append('file holds %d records, expected %d' % (len(recs), nwritten))
    if b'_ConfEnergies' in text:
        problems.append('file holds the private _ConfEnergies property')
    for k, r in enumerate(recs[:nwritten]):
        if r is None:
            problems.append('file record %d unreadable' % k)
            break
        e = r.GetProp('Energy') if r.HasProp('Energy') else None
        ewant = src['energies'][k] if src['energies'] is not None and k < len(src['energies']) else None
        if e != ewant:
            problems.append('file record %d carries Energy %r, expected %r' % (k, e, ewant))
            break
        if r.GetProp('_Name') != src['name']:
            problems.append('file record %d has title %r, expected %r' % (k, r.GetProp('_Name'), src['name']))
            break
        if r.GetNumAtoms() == len(src['nums']) and k < len(src['confs']) and r.GetNumAtoms():
            dev = float(np.abs(np.array(r.GetConformer().GetPositions()).reshape(-1, 3) - src['confs'][k]).max())
            if dev > tol:
                problems.append('file record %d deviates by %.2e from conformer %d' % (k, dev, k))
                break
    return problems


class quiet_logging(object):
    """touch_dir('') (a bare file name) logs an ERROR with a traceback and carries on: keep the noise out of the check's output."""

    def __enter__(self):
        self.prev = logging.root.manager.disable
        logging.disable(logging.CRITICAL)

    def __exit__(self, *a):
        logging.disable(self.prev)


def lim(x, n):
    return n if x in (None, -1) else x


# --------------------------------------------------------------------------- stream sdf-seq
TEMPLATES = ['overwrite', 'twice', 'alternate', 'generations', 'limit-then-full', 'reread', 'same-name', 'mutate-read']
SEQ_EXTS = ['.sdf', '.sdf.gz', '.sdf.bz2']
SEQ_ENERGIES = [0.0, -0.0, 3e-5, 1.5, 2.25, -7.125, 0.03125, 123456.78905, 12.00005, -3.0, 8.5, 0.75]


def _variant(rng, mol, name, energies, drop=None, shift=0):
    from rdkit import Chem
    from e3fp.conformer.util import add_conformer_energies_to_mol
    m = Chem.Mol(mol)
    if drop is not None and m.GetNumConformers() > 1:
        m.RemoveConformer([c.GetId() for c in m.GetConformers()][drop % m.GetNumConformers()])
    m.ClearProp('_ConfEnergies')
    m.SetProp('_Name', name)
    if energies:
        n = m.GetNumConformers()
        add_conformer_energies_to_mol(m, [SEQ_ENERGIES[(shift + 5 * j) % len(SEQ_ENERGIES)] + (0 if j % 2 else shift) for j in range(n)])
    return m


def draw_seq(rng, bases, i):
    multi = [b for b in bases if b[1].GetNumConformers() >= 2] or bases
    bname, base = multi[(5 * i + 1) % len(multi)]
    oname, other = bases[(3 * i + 2) % len(bases)]
    template = TEMPLATES[i % len(TEMPLATES)]
    n = base.GetNumConformers()
    name = rng.choice(['seqmol', 'CHEMBL1-2_3', 'lig;(R)-2,4'])
    en = i % 5 != 4                                          # four sequences in five carry energies
    b = _b()
    A = _variant(rng, base, name, en, shift=i)
    B = _variant(rng, base, name, en, drop=i, shift=i + 3)   # same compound and name, one conformer fewer, other energies
    Cm = _variant(rng, other, name, en, shift=i + 7)         # another compound under the same name
    exts = [SEQ_EXTS[(i + j) % 3] for j in range(3)]
    k = max(1, n - 1)
    W = lambda m, f, l=None: {'op': 'write', 'mol': m, 'file': f, 'limit': l}
    R = lambda f, l=None: {'op': 'read', 'file': f, 'limit': l}
    if template == 'overwrite':          # a longer file replaced by a shorter one on the same path
        ops = [W(0, 0), R(0), W(1, 0, rng.choice([1, None])), R(0), R(0, 2), W(2, 0), R(0)]
    elif template == 'twice':
        ops = [W(0, 0), W(0, 1), R(0), R(1), {'op': 'same_text', 'files': [0, 1]}, W(0, 0, k), R(0), R(1)]
    elif template == 'alternate':
        ops = [W(0, 0), W(1, 1), W(0, 2, k), R(2), R(1), R(0), R(0, 1), R(0), W(1, 2), R(2)]
    elif template == 'generations':      # what was read is written again and read again: a fixed point
        # (the first file may hold explicit hydrogens, which the reader drops: the texts compared are those of generations 2 and 3)
        ops = [W(0, 0, rng.choice([None, n, k])), R(0), {'op': 'write_back', 'read': 1, 'file': 1, 'limit': None}, R(1),
               {'op': 'write_back', 'read': 3, 'file': 2, 'limit': None}, R(2), {'op': 'same_text', 'files': [1, 2]},
               {'op': 'write_back', 'read': 5, 'file': 0, 'limit': 1}, R(0)]
    elif template == 'limit-then-full':
        ops = [W(0, 0, k), W(0, 1), R(1), R(0), W(0, 2, 1), W(0, 0, -1), R(0), R(2)]
    elif template == 'reread':
        ops = [W(0, 0), R(0, 1), R(0), R(0, 2), R(0, 1), R(0, n), R(0, n + 2), R(0, -1)]
    elif template == 'same-name':
        ops = [W(0, 0), W(2, 1), R(0), R(1), W(2, 0), R(0), W(0, 1), R(1)]
    else:                                # 'mutate-read': the molecule handed out is the caller's; the file is read afresh afterwards
        ops = [W(0, 0), R(0), {'op': 'mutate', 'read': 1}, R(0), R(0, 1), {'op': 'mutate', 'read': 3}, W(0, 1), R(1)]
    return {'template': template, 'bases': [bname, oname], 'mols_b64': [b.mol_to_b64(A), b.mol_to_b64(B), b.mol_to_b64(Cm)], 'exts': exts,
            'ops': ops, 'mol_class': ['Mol', 'PropertyMol', 'RWMol'][(i // len(TEMPLATES)) % 3],
            'call': ['kw', 'pos'][(i // 3) % 2], 'limit_type': ['int', 'int64', 'int32'][(i // 2) % 3]}


def _write(U, mol, path, wl, call):
    if call == 'pos':
        return U.mol_to_sdf(mol, path, wl)
    if call == 'default' and wl is None:
        return U.mol_to_sdf(mol, path)
    if call == 'allkw':
        return U.mol_to_sdf(mol=mol, out_file=path, conf_num=wl)
    return U.mol_to_sdf(mol, path, conf_num=wl)


def _read(U, path, rl, call):
    if call == 'pos':
        return U.mol_from_sdf(path, rl)
    if call == 'default' and rl is None:
        return U.mol_from_sdf(path)
    if call == 'allkw':
        return U.mol_from_sdf(sdf_file=path, conf_num=rl, standardise=False, mode='rb')
    return U.mol_from_sdf(path, conf_num=rl)


def make_seq(p, workdir):
    from e3fp.conformer import util as U
    b = _b()
    md = b.Made(dict(p, stream='sdf-seq'))
    mols = [as_class(b.mol_from_b64(s), p['mol_class']) for s in p['mols_b64']]
    d = os.path.join(workdir, 'seq_%d' % len(os.listdir(workdir)))
    paths = [os.path.join(d, 'f%d%s' % (j, e)) for j, e in enumerate(p['exts'])]
    state = {}                     # file -> what the latest write put there
    reads = {}                     # op index -> molecule returned
    log = []
    md.payload['impl'] = log
    nreads = 0
    for oi, op in enumerate(p['ops']):
        kind = op['op']
        if kind in ('write', 'write_back'):
            mol = mols[op['mol']] if kind == 'write' else reads.get(op['read'])
            if mol is None:
                continue
            wl = op['limit']
            src = describe(mol)
            before, sig = cg.mol_obs(mol), cg.mol_signature(mol)
            w = b._attempt(lambda: _write(U, mol, paths[op['file']], as_limit(wl, p['limit_type']), p['call']))
            if w[0] == 'err':
                md.fail('step %d (%s): mol_to_sdf raised %s inside the domain' % (oi, kind, w[1]), 'sdf-seq:raises', step=oi)
                return md
            after = cg.mol_obs(mol)
            n = len(src['confs'])
            state[op['file']] = {'src': src, 'n': min(n, lim(wl, n)), 'before': before, 'after': after, 'wl': wl, 'step': oi}
            log.append({'step': oi, 'op': kind, 'props_after': after['props']})
            if cg.mol_signature(mol) != sig:
                md.fail('step %d (%s of template %s): in-memory molecule changed by mol_to_sdf' % (oi, kind, p['template']), 'sdf-seq:in-memory', step=oi)
            fp = file_problems(paths[op['file']], src, state[op['file']]['n'])
            if fp:
                md.fail('step %d (%s of template %s): %s' % (oi, kind, p['template'], '; '.join(fp[:3])), 'sdf-seq:file', step=oi)
        elif kind == 'read':
            st = state.get(op['file'])
            if st is None:
                continue
            rl = op['limit']
            r = b._attempt(lambda: _read(U, paths[op['file']], as_limit(rl, p['limit_type']), p['call']))
            if r[0] == 'err':
                md.fail('step %d: mol_from_sdf raised %s inside the domain' % (oi, r[1]), 'sdf-seq:raises', step=oi)
                return md
            rd = r[1]
            reads[oi] = rd
            want = min(st['n'], lim(rl, st['n']))
            back = cg.mol_obs(rd)
            log.append({'step': oi, 'op': 'read', 'file': op['file'], 'limit': rl, 'nconf': rd.GetNumConformers(), 'props': back['props']})
            # a second-generation file holds 4-decimal coordinates already: they come back exactly
            problems = rt_problems(st['src'], rd, want)
            if problems:
                md.fail('step %d (read after write at step %d, template %s): %s' % (oi, st['step'], p['template'], '; '.join(problems[:3])),
                        'sdf-seq:' + problems[0].split(' ')[0], step=oi)
            fb = os.path.basename(paths[op['file']]).split('.sdf')[0]
            model = 'write_read %s %s %s %s' % (cg.mol_lit(st['before']), b._optz(st['wl']), b._optz(rl), cg.text_lit(fb))
            md.case('r%d' % oi, 'result_eqb (wr_close %s) (%s) (Ok (%s, %s))' % (b.TOL, model, cg.mol_lit(st['after']), cg.mol_lit(back)), model)
            nreads += 1
        elif kind == 'same_text':
            a, c = op['files']
            try:
                same = raw_text(paths[a]) == raw_text(paths[c])
            except (OSError, EOFError):        # not compressed as the extension says: reported by file_problems
                same = True
            if a in state and c in state and not same:
                md.fail('step %d (template %s): the same conformers written to %s and %s give different SD text'
                        % (oi, p['template'], p['exts'][a], p['exts'][c]), 'sdf-seq:same-text', step=oi)
        elif kind == 'mutate':
            m = reads.get(op['read'])
            if m is not None:
                m.RemoveAllConformers()
                m.SetProp('_Name', 'mutated by the caller')
                m.SetProp('_ConfEnergies', '9.9999')
    md.nontrivial = nreads > 1
    md.stats = {'reads': nreads, 'template': p['template']}
    return md


# --------------------------------------------------------------------------- stream sdf-foreign
ENERGY_PATTERNS = ['all', 'none', 'subset', 'first-only', 'last-only', 'bad-one', 'raw-spellings', 'all', 'zero-first']
RAW_SPELLINGS = ['1.5', '2', '-0.00001', '1e1', '0', '-0.0', '3.14159265', '  4.25', '+7.5', '12.00005', '1_0.5']


def draw_foreign(rng, bases, shipped, i):
    if i % 4 == 0 and shipped:
        path = shipped[(i // 4) % len(shipped)]
        return {'kind': 'shipped', 'path': path, 'read_limit': [1, 2, 3, 5, 8, None, 0, -1][(i // 4 // len(shipped)) % 8], 'call': ['kw', 'pos', 'allkw'][(i // 4) % 3]}
    b = _b()
    bname, base = bases[(7 * i + 2) % len(bases)]
    n = base.GetNumConformers()
    order = rng.choice(['file-order', 'file-order', 'reversed', 'repeated', 'shuffled']) if n > 1 else 'file-order'
    pos = list(range(n))
    if order == 'reversed':
        pos.reverse()
    elif order == 'repeated':
        pos = pos + pos[:2]
    elif order == 'shuffled':
        rng.shuffle(pos)
    pat = ENERGY_PATTERNS[i % len(ENERGY_PATTERNS)]
    names = rng.choice(['same', 'same', 'per-record', 'first-empty', 'absent'])
    recs = []
    for j, q in enumerate(pos):
        props = {}
        e = '%.4f' % rng.choice([rng.uniform(-20, 90), 0.0, 2.5, 1e-5])
        if pat == 'all' or (pat == 'subset' and j % 2 == 0) or (pat == 'first-only' and j == 0) or (pat == 'last-only' and j == len(pos) - 1):
            props['Energy'] = e
        elif pat == 'bad-one':
            props['Energy'] = 'n/a' if j == len(pos) // 2 else e
        elif pat == 'raw-spellings':
            props['Energy'] = rng.choice(RAW_SPELLINGS)
        elif pat == 'zero-first':
            props['Energy'] = '0.0000' if j == 0 else e
        if rng.random() < 0.5:
            props['tag'] = 't%d' % j if rng.random() < 0.5 else 'shared'
        if j > 0 and rng.random() < 0.2:
            props['late'] = 'only in record %d' % j
        nm = {'same': 'foreign', 'per-record': 'rec%d' % j, 'first-empty': '' if j == 0 else 'later', 'absent': None}[names]
        recs.append({'conf': q, 'name': nm, 'props': props})
    if i % 17 == 5:
        recs = []                                            # an empty file
    return {'kind': 'handmade', 'base': bname, 'mol_b64': b.mol_to_b64(base), 'records': recs, 'ext': SEQ_EXTS[i % 3], 'order': order, 'pattern': pat,
            'names': names, 'read_limit': rng.choice([None, None, -1, 1, 2, len(pos), max(1, len(pos) - 1), len(pos) + 2, 0]),
            'file': rng.choice(['frgn', 'a.b', 'x.sdf.old']), 'call': rng.choice(['kw', 'pos', 'default', 'allkw'])}


def _rec_lit(g, props, xyz):
    return '(mkrec Z (list Q) %s %s %s)' % (core.zlit(g), cg.props_lit(props), core.listlit([cg.qlit(x) for x in xyz]))


def make_foreign(p, workdir):
    from rdkit import Chem
    from e3fp.conformer import util as U
    b = _b()
    md = b.Made(dict(p, stream='sdf-foreign'))
    rl = p['read_limit']
    if p['kind'] == 'shipped':
        path = os.path.join(core.REPO, p['path'])
        text = raw_text(path)
    else:
        base = b.mol_from_b64(p['mol_b64'])
        ids = [c.GetId() for c in base.GetConformers()]
        sio = io.StringIO()
        w = Chem.SDWriter(sio)
        for rec in p['records']:
            m = Chem.Mol(base)
            for k in list(m.GetPropNames(includePrivate=True)):
                m.ClearProp(k)
            if rec['name'] is not None:
                m.SetProp('_Name', rec['name'])
            for k, v in rec['props'].items():
                m.SetProp(k, v)
            w.write(m, confId=ids[rec['conf']])
        w.close()
        text = sio.getvalue().encode('utf-8')
        d = os.path.join(workdir, 'frgn_%d' % len(os.listdir(workdir)))
        os.makedirs(d)
        path = os.path.join(d, p['file'] + p['ext'])
        op = bz2.open if path.endswith('.bz2') else gzip.open if path.endswith('.gz') else open
        with op(path, 'wb') as f:
            f.write(text)
    # the records as RDKit alone reads them (no e3fp, no smart_open); only as many as the comparison can need
    need = None if rl in (None, -1) or rl < 0 else rl + 2
    recs = []
    for k, r in enumerate(Chem.ForwardSDMolSupplier(io.BytesIO(text))):
        if need is not None and k >= need:
            break
        recs.append(r)
    nrec_seen = len(recs)
    r = b._attempt(lambda: _read(U, path, rl, p['call']))
    md.stats = {'kind': p['kind'], 'error': r[0] == 'err', 'pattern': p.get('pattern'), 'order': p.get('order')}
    if any(x is None for x in recs):
        md.skips.append('foreign file with a record RDKit cannot read: not compared')
        return md
    if r[0] == 'ok' and r[1].GetNumConformers() > 40:
        want = nrec_seen if rl in (None, -1) or rl < 0 else min(rl, nrec_seen)
        if r[1].GetNumConformers() != want:
            md.fail('shipped file %s read with limit %r: %d conformers, expected %d' % (p.get('path'), rl, r[1].GetNumConformers(), want), 'sdf-foreign:count')
        md.skips.append('foreign file with more than 40 records read in full: conformer count checked directly, no model literal')
        return md
    g = cg.graph_id(recs[0]) if recs else 0
    lits = []
    for x in recs:
        o = cg.mol_obs(x)
        lits.append(_rec_lit(g, o['props'], o['confs'][0][1]))
    fb = os.path.basename(path).split('.sdf')[0]
    model = 'mol_from_sdf Z (list Q) rt4c (fun p => p) %s %s %s' % (core.listlit(lits), b._optz(rl), cg.text_lit(fb))
    if r[0] == 'err' and r[1].startswith('EUnexpected_'):
        md.payload['impl'] = r[1]
        md.fail('mol_from_sdf raised %s on a foreign file' % r[1][12:], 'sdf-foreign:raises')
    elif r[0] == 'err':
        md.payload['impl'] = r[1]
        md.case('', 'result_eqb (mol_close %s) (%s) (Raises %s)' % (b.TOL, model, r[1]), model)
    else:
        back = cg.mol_obs(r[1])
        md.payload['impl'] = {'props_read': back['props'], 'nconf_read': len(back['confs']), 'conf_ids_read': [i for i, _ in back['confs']]}
        md.case('', 'result_eqb (mol_close %s) (%s) (Ok %s)' % (b.TOL, model, cg.mol_lit(back)), model)
        # directly: count, order, energies of a well-formed foreign file
        want = nrec_seen if rl in (None, -1) or rl < 0 else min(rl, nrec_seen)
        problems = []
        if r[1].GetNumConformers() != want:
            problems.append('conformer count %d, expected %d' % (r[1].GetNumConformers(), want))
        for j, c in enumerate(r[1].GetConformers()):
            if j < len(recs) and recs[j].GetNumAtoms() == r[1].GetNumAtoms() and r[1].GetNumAtoms():
                dev = float(np.abs(np.array(c.GetPositions()).reshape(-1, 3) - np.array(recs[j].GetConformer().GetPositions()).reshape(-1, 3)).max())
                if dev > 1e-9:
                    problems.append('conformer %d is not record %d of the file' % (j, j))
                    break
        es = [x.GetProp('Energy') for x in recs[:want] if x.HasProp('Energy')]
        got = r[1].GetProp('_ConfEnergies').split('|') if r[1].HasProp('_ConfEnergies') else []
        if got != ['%.4f' % float(e) for e in es]:
            problems.append('energies %s read as %s' % (es, got))
        if want and r[1].GetProp('_Name') != recs[0].GetProp('_Name'):
            problems.append('name %r read as %r' % (recs[0].GetProp('_Name'), r[1].GetProp('_Name')))
        if problems:
            md.fail('foreign SD file read wrongly: ' + '; '.join(problems[:3]), 'sdf-foreign:' + problems[0].split(' ')[0])
    md.nontrivial = nrec_seen > 1 and r[0] == 'ok'
    return md


# --------------------------------------------------------------------------- stream codec-list
def draw_codec_list(rng, i):
    k = [0, 1, 2, 3, 6, 1, 4][i % 7]
    vals = []
    for _ in range(k):
        t = rng.choice(['float', 'float', 'int', 'float32', 'float64', 'int64', 'half-way', 'zeroish'])
        if t == 'int' or t == 'int64':
            v = rng.randrange(-500, 500)
        elif t == 'float32':
            v = float(np.float32(rng.uniform(-100, 100)))
        elif t == 'half-way':
            v = rng.randrange(-10 ** 4, 10 ** 4) / 32.0 / 1000.0 + rng.choice([0.00005, 0.00015, 0.03125])
        elif t == 'zeroish':
            v = rng.choice(_b().ZEROISH)
        else:
            v = rng.uniform(-1000, 1000)
        vals.append([t, float(v).hex()])
    return {'values': vals, 'container': ['list', 'tuple', 'ndarray', 'generator', 'list'][i % 5], 'preexisting': i % 3 == 0}


def make_codec_list(p, workdir=None):
    from rdkit import Chem
    import e3fp.conformer.util as UU
    b = _b()
    md = b.Made(dict(p, stream='codec-list'))
    conv = {'int': int, 'int64': lambda v: np.int64(int(v)), 'float32': np.float32, 'float64': np.float64}
    exact = [float.fromhex(h) for _, h in p['values']]
    vals = [conv.get(t, float)(v) for (t, _), v in zip(p['values'], exact)]
    m = Chem.MolFromSmiles('CC')
    if UU.get_conformer_energies_from_mol(m) is not None:
        md.fail('a molecule without stored energies does not answer None', 'codec-list:none')
    if p['preexisting']:
        m.SetProp('_ConfEnergies', '1.0000|2.0000|3.0000|4.0000|5.0000|6.0000|7.0000')
    m.SetProp('keep', 'me')
    if p['container'] == 'ndarray' and not all(t in ('float', 'float64', 'half-way', 'zeroish', 'float32') for t, _ in p['values']):
        arg = np.array([float(v) for v in vals])           # a mixed array is a float array
    else:
        arg = {'list': list, 'tuple': tuple, 'ndarray': lambda x: np.array(x, dtype=float), 'generator': lambda x: (y for y in x)}[p['container']](vals)
    a = b._attempt(lambda: UU.add_conformer_energies_to_mol(m, arg))
    if a[0] == 'err':
        md.fail('add_conformer_energies_to_mol raised %s on a %s of %d values' % (a[1], p['container'], len(vals)), 'codec-list:raises')
        return md
    ret = a[1]
    s = m.GetProp('_ConfEnergies') if m.HasProp('_ConfEnergies') else None
    md.payload['impl'] = s
    if ret is not m:
        md.fail('add_conformer_energies_to_mol does not hand the molecule back', 'codec-list:return')
    if s is None or m.GetProp('keep') != 'me':
        md.fail('energies not stored, or another property touched', 'codec-list:stored')
        return md
    toks = [] if s == '' else s.split('|')
    cl = [cg.classify_token(t) for t in toks]
    if len(toks) != len(vals) or any(c[0] != 'canon' for c in cl):
        md.fail('%d energies stored as %r' % (len(vals), s), 'codec-list:spelling')
        return md
    g = b._attempt(lambda: UU.get_conformer_energies_from_mol(m))
    if not vals:
        # "".split("|") = [""]: the empty list cannot be read back (model: PEn [] -> ValueError)
        md.case('', 'result_eqb (option_eqb (list_eqb Qeq_bool)) (get_conformer_energies [(K_CE, PEn [])]) (%s)'
                % ('Raises %s' % g[1] if g[0] == 'err' else 'Ok None'), 'get_conformer_energies [(K_CE, PEn [])]')
        return md
    if g[0] == 'err' or g[1] != [float(t) for t in toks] or not all(type(x) is float for x in g[1]):
        md.fail('energies %r read as %r' % (s, g[1]), 'codec-list:read')
    md.case('', 'list_eqb Z.eqb (map fmt4 %s) %s' % (core.listlit([cg.qlit(v) for v in exact]), core.zlist([c[1] for c in cl])),
            'map fmt4 %s' % core.listlit([cg.qlit(v) for v in exact]))
    md.nontrivial = len(vals) > 1
    md.stats = {'n': len(vals)}
    return md


# --------------------------------------------------------------------------- stream smiles-multi
SMI_EXTS = ['.smi', '.smi.gz', '.smi.bz2']


def draw_multi(rng, i):
    b = _b()
    nfiles = [2, 3, 1, 2, 0, 3][i % 6]
    files = []
    used = set()
    for j in range(nfiles):
        if i % 5 == 3 and j == 1:
            files.append({'text': ''.join(rng.choice(b.PIECES) for _ in range(rng.randrange(0, 5))), 'ext': SMI_EXTS[(i + j) % 3]})
            continue
        k = rng.choice([0, 1, 2, 4, 6])
        entries = []
        while len(entries) < k:
            nm = ''.join(rng.choice(b.ALPHA) for _ in range(rng.randrange(1, 8)))
            if rng.random() < 0.4:
                q = rng.randrange(0, len(nm) + 1)
                nm = nm[:q] + rng.choice(b.PUNCT) + nm[q:]
            if rng.random() < 0.2:
                nm += rng.choice(b.UNI)
            if nm in used and rng.random() < 0.7:      # mostly fresh names; now and then one name in two files (the later file wins)
                continue
            used.add(nm)
            entries.append([nm, rng.choice(b.SMI_POOL)])
        files.append({'entries': entries, 'ext': SMI_EXTS[(i + j) % 3],
                      'via': rng.choice(['iter:list', 'iter:generator', 'iter:dict-items', 'iter:lists', 'dict', 'dict:ordered'])})
    if i % 9 == 4 and files and 'entries' in files[0]:
        files[0]['entries'] = [['n%04d-%s' % (q, rng.choice(b.PUNCT)), rng.choice(b.SMI_POOL)] for q in range(150)]       # a long table
        files[0]['via'] = 'dict'
    return {'files': files, 'repeat_first': i % 4 == 1, 'flags': rng.choice(['kw', 'pos', 'default']), 'unique': rng.random() < 0.3,
            'has_header': rng.random() < 0.2}


def make_multi(p, workdir):
    try:
        return _make_multi(p, workdir)
    except (OSError, EOFError) as e:          # a file that is not compressed as its extension says
        md = _b().Made(dict(p, stream='smiles-multi'))
        md.fail('SMILES file unreadable with gzip / bz2 / open: %s' % type(e).__name__, 'smiles-multi:file-unreadable')
        return md


def _make_multi(p, workdir):
    import collections
    from e3fp.conformer import util as U
    b = _b()
    md = b.Made(dict(p, stream='smiles-multi'))
    d = os.path.join(workdir, 'multi_%d' % len(os.listdir(workdir)))
    os.makedirs(d)
    paths, texts = [], []
    for j, f in enumerate(p['files']):
        path = os.path.join(d, 't%d%s' % (j, f['ext']))
        if 'text' in f:
            op = bz2.open if path.endswith('.bz2') else gzip.open if path.endswith('.gz') else open
            with op(path, 'wb') as fh:
                fh.write(f['text'].encode('utf-8'))
        else:
            ent = [tuple(e) for e in f['entries']]
            via = f['via']

            def write_it():
                if via == 'dict':
                    U.dict_to_smiles(path, dict(ent))
                elif via == 'dict:ordered':
                    U.dict_to_smiles(path, collections.OrderedDict(reversed(ent)))
                elif via == 'iter:generator':
                    U.iter_to_smiles(path, (e for e in ent))
                elif via == 'iter:dict-items':
                    U.iter_to_smiles(path, dict(ent).items())
                elif via == 'iter:lists':
                    U.iter_to_smiles(path, [list(e) for e in ent])
                else:
                    U.iter_to_smiles(path, ent)
            wr = b._attempt(write_it)
            if wr[0] == 'err' or not os.path.exists(path):
                md.fail('writing a SMILES table of %d rows through %s raised %s' % (len(ent), via, wr[1]), 'smiles-multi:write-raises', file=j)
                return md
            names = [a for a, _ in ent]
            wmodel = ('dict_to_smiles %s' if via.startswith('dict') else 'iter_to_smiles %s') % b._pairs_lit(list(dict(ent).items()) if via in ('dict', 'dict:ordered', 'iter:dict-items') else ent)
            md.case('w%d' % j, 'list_eqb Z.eqb (%s) %s' % (wmodel, core.zlist(list(raw_text(path)))), wmodel)
            # the table clause, directly: good tokens, distinct names -> the same table back, and writing that again gives the same bytes
            if all(b.good_token(a) and b.good_token(s) for a, s in ent) and len(set(names)) == len(names):
                back = b._attempt(lambda: U.smiles_to_dict(path))
                if back[0] == 'err' or back[1] != dict(ent):
                    md.fail('SMILES table of %d rows (%s) does not read back as written' % (len(ent), via), 'smiles-multi:roundtrip', file=j)
                else:
                    p2 = os.path.join(d, 'again%d%s' % (j, SMI_EXTS[(j + 1) % 3]))
                    U.dict_to_smiles(p2, back[1])
                    U.dict_to_smiles(path + '.ref' + f['ext'], dict(ent))
                    if raw_text(p2) != raw_text(path + '.ref' + f['ext']):
                        md.fail('read -> write does not reproduce the SMILES file', 'smiles-multi:second-generation', file=j)
                md.stats['in_domain'] = md.stats.get('in_domain', 0) + 1
        paths.append(path)
        texts.append(raw_text(path))
    args = paths + (paths[:1] if p['repeat_first'] else [])
    targs = texts + (texts[:1] if p['repeat_first'] else [])
    g = b._attempt(lambda: [tuple(x) for x in U.smiles_generator(*args)])
    md.payload['impl'] = g[1]
    tl = core.listlit([core.zlist(list(t)) for t in targs])
    if g[0] == 'err':
        md.fail('smiles_generator over %d files raised %s' % (len(args), g[1]), 'smiles-multi:raises')
    else:
        md.case('gen', 'entries_eqb (flat_map smiles_generator %s) %s' % (tl, b._pairs_lit(g[1])), 'flat_map smiles_generator %s' % tl)
    if paths:
        if p['flags'] == 'pos':
            r = b._attempt(lambda: list(U.smiles_to_dict(paths[-1], p['unique'], p['has_header']).items()))
        elif p['flags'] == 'default' and not p['unique'] and not p['has_header']:
            r = b._attempt(lambda: list(U.smiles_to_dict(paths[-1]).items()))
        else:
            r = b._attempt(lambda: list(U.smiles_to_dict(smiles_file=paths[-1], has_header=p['has_header'], unique=p['unique']).items()))
        exp = '(Raises %s)' % r[1] if r[0] == 'err' else '(Ok %s)' % b._pairs_lit(r[1])
        mdl = 'smiles_to_dict %s %s %s' % (core.zlist(list(texts[-1])), core.blit(p['unique']), core.blit(p['has_header']))
        md.case('dict', 'sdict_result_eqb (%s) %s' % (mdl, exp), mdl)
    md.nontrivial = len(args) > 1
    md.stats['nfiles'] = len(args)
    return md
