"""C20 - configuration values round-trip and the three sets of defaults are coherent
(model M9 = Model/Config.v, Properties/C20.v, tables regenerated into Gen/Defaults.v by facts_defaults.py).

Correspondence streams
  cfg    random option dictionaries over the three sections -> update_params -> write_params -> read_params ->
         params_to_sections_dict / params_to_dicts / get_value typed getters, each stage against the model
  prop   the property itself on the implementation: every supported value reads back as the same typed value;
         absent options fall back to the packaged defaults exactly when defaults are requested
  lit    every generated value string and a grammar fuzz: real ast.literal_eval against the model's classifier
  ini    hand-written INI texts (':' delimiters, comments, continuation lines, errors) against the model's parser
  e2e    fingerprints computed via a parameter file equal those from the same options passed directly
  dflt   Python twin of the theorem defaults_coherent (gives the concrete mismatch when the theorem breaks)
  cov    c20_cov.py (coverage audit): read_params / update_params call forms on user files and parser objects, typed
         getters and their fallback, get_default_value, numpy scalars, params_to_sections_dict(auto=False), sections
         outside the packaged three, unusual option names, multi-conformer / fingerprint.generate.run(params=) /
         conformer-option end-to-end comparisons
"""
import ast
import itertools
import math
import re
import os
import struct
import sys
from fractions import Fraction

import core
import config_gen as G
from props import c20_cov as COV

IMPORTS = ['From Coq Require Import QArith.', 'From E3FP Require Import Base.Prelude Model.Config Gen.Defaults.', COV.PRELUDE]
S = G.coq_string
SECTIONS = G.SECTIONS

FK_STR_LITERAL = 'C20:str-literal'
FK_KEY_CASE = 'C20:key-case'
FK_NONFINITE = 'C20:nonfinite-float'
FK_PERCENT = 'C20:percent-interpolation'
FK_WHITESPACE = 'C20:str-whitespace'
FK_PROTONATE = 'C20:protonate-unusable'


# --------------------------------------------------------------------------- literals
def zlit(n):
    """Z literal; hexadecimal beyond 2^60 (Coq parses long decimal numerals in quadratic time)."""
    n = int(n)
    if abs(n) < 2 ** 60:
        return core.zlit(n)
    return '(- 0x%x)%%Z' % -n if n < 0 else '0x%x%%Z' % n


def qlit(fr):
    fr = Fraction(fr)
    d = fr.denominator
    return '(Qmake %s %s)' % (zlit(fr.numerator), '%d' % d if d < 2 ** 60 else '0x%x' % d)


def value_lit(v):
    if v is None:
        return 'VNone'
    if type(v) is bool:
        return 'VBool %s' % core.blit(v)
    if type(v) is int:
        return 'VInt %s' % zlit(v)
    if type(v) is float:
        return 'VFloat %s' % S(repr(v))
    return 'VStr %s' % S(v)


def fval_lit(x):
    if math.isnan(x):
        return 'FNaN'
    if math.isinf(x):
        return 'FPInf' if x > 0 else 'FNInf'
    return '(FFin %s)' % qlit(Fraction(x))


def obs_lit(x):
    if x is None:
        return 'ONone'
    if type(x) is bool:
        return '(OBool %s)' % core.blit(x)
    if type(x) is int:
        return '(OInt %s)' % zlit(x)
    if type(x) is float:
        return '(OFloat %s)' % fval_lit(x)
    if type(x) is str and G.modelled(x):
        return '(OStr %s)' % S(x)
    return 'OOther'


def err_of(e):
    import configparser
    if isinstance(e, (configparser.NoOptionError, configparser.NoSectionError)):
        return 'EKey'
    if isinstance(e, configparser.Error):
        return 'EOther'
    if isinstance(e, ValueError):
        return 'EValue'
    if isinstance(e, TypeError):
        return 'EType'
    if isinstance(e, KeyError):
        return 'EKey'
    return 'EOther'


def attempt(f):
    try:
        return ('ok', f())
    except Exception as e:  # noqa
        return ('err', err_of(e), '%s: %s' % (type(e).__name__, str(e)[:120]))


def res_lit(r, f):
    return '(Ok %s)' % f(r[1]) if r[0] == 'ok' else '(Raises %s)' % r[1]


def dict_lit(d, f):
    return core.listlit(['(%s, %s)' % (S(k), f(v)) for k, v in d])


def cfg_lit(c):
    return core.listlit(['(%s, %s)' % (S(s), dict_lit(kv, S)) for s, kv in c])


def same_value(a, b):
    """type-exact equality; floats bit-exact (NaN equals NaN)"""
    if type(a) is not type(b):
        return False
    if type(a) is float:
        return struct.pack('<d', a) == struct.pack('<d', b) or (math.isnan(a) and math.isnan(b))
    return a == b


NOT_LITERAL = (ValueError, SyntaxError, TypeError, MemoryError, RecursionError)   # get_value(auto=True) keeps the string


def is_literal(s):
    try:
        ast.literal_eval(s)
        return True
    except NOT_LITERAL:
        return False


# --------------------------------------------------------------------------- generators
PLAIN_FIRST = 'abcdefghijklmnopqrstuvwxyzABCDEFGHIJKLMNOPQRSTUVWXYZ/.'
PLAIN_CHARS = 'abcdefghijklmnopqrstuvwxyzABCDEFGHIJKLMNOPQRSTUVWXYZ0123456789_./-'


def py_plain_word(s):
    """Python twin of Config.plain_word (cross-checked against the Coq predicate in the lit stream)."""
    if not s or any(c not in PLAIN_CHARS for c in s):
        return False
    c = s[0]
    if not (c.isalpha() or c == '/' or (c == '.' and not s[1:2].isdigit() and not s.startswith('...'))):
        return False
    return s not in ('True', 'False', 'None')


def gen_plain_word(rng):
    while True:
        r = rng.random()
        if r < 0.3:
            s = rng.choice(['uff', 'mmff94', 'mmff94s', 'conformers', 'out/dir-1', './x.sdf.bz2', '/tmp/a_b', '../c', 'Nonesuch',
                            'True1', 'none', 'true', 'inf', 'nan', 'e5', 'x1e5', 'j', 'l', 'set', 'lambda', 'not', 'None-1',
                            'True.x', '.hidden', './-', 'a-1j', 'in', 'is', 'None/x', 'False-', 'set-1', '.e5', './5',
                            'yes', 'no', 'on', 'off', 'Yes', 'NO', 'On', 'OFF', 'TRUE', 'FALSE', 'tRuE', 'fAlse', 'infinity', 'Infinity',
                            'NAN', 'Inf', 'INF', 'NaN', 'y', 'n', 't', 'f', 'yes1', 'on-', 'UFF', 'Uff'])
        else:
            s = rng.choice(PLAIN_FIRST) + ''.join(rng.choice(PLAIN_CHARS) for _ in range(rng.randint(0, 9)))
        if py_plain_word(s):
            return s


def gen_int(rng):
    r = rng.random()
    if r < 0.5:
        return rng.randint(-10, 4096)
    if r < 0.8:
        return rng.choice([-1, 1]) * rng.getrandbits(rng.choice([8, 31, 32, 33, 63, 64, 65, 128]))
    if r < 0.97:
        return rng.choice([-1, 1]) * rng.randrange(10 ** rng.randint(20, 60))
    return rng.choice([-1, 1]) * rng.randrange(10 ** 299, 10 ** 300)


LONG_FLOATS = [0.1 + 0.2, 1 / 3.0, 2 / 3.0, math.pi, math.e - 1, 1.7182818284590453, 123456.78901234567, 0.30000000000000004,
               1.0000000000000002, 0.9999999999999999, 5.551115123125783e-17, 6.02214076e+23 / 7, 1.718000000000001, 1.7179999999999997]


def sig_digits(x):
    """significant decimal digits of repr(x)"""
    m = G.FTOK_RE.match(repr(x))
    return len((m.group(2) + (m.group(3) or '')).strip('0')) if m else 0


def gen_float(rng, nonfinite=True):
    r = rng.random()
    if r < 0.15:
        return round(rng.uniform(-10, 10), rng.randint(0, 6))
    if r < 0.4:
        # 15-17 significant digits: every formatting shortcut ('{:g}', '%f', round) loses these
        return rng.choice(LONG_FLOATS) if rng.random() < 0.4 else rng.uniform(-10, 10) * rng.choice([1, 1, 1e-3, 1e3, 1e9])
    if r < 0.6:
        return struct.unpack('<d', struct.pack('<Q', rng.getrandbits(64)))[0] if nonfinite else rng.uniform(-1e6, 1e6)
    if r < 0.8:
        return rng.choice([0.0, -0.0, 1.0, -1.0, 0.5, 1.718, 1e16, 1e22, 1e-5, 1e-7, 123456789012345678.0, 5e-324, -5e-324,
                           2.2250738585072014e-308, 1.7976931348623157e+308, -1.7976931348623157e+308, 0.1, 1 / 3.0, 1e15,
                           9999999999999998.0, 1e100, 1.5e-300])
    if r < 0.9 or not nonfinite:
        return rng.uniform(-1, 1) * 10.0 ** rng.randint(-300, 300)
    return rng.choice([float('inf'), float('-inf'), float('nan')])


TRICKY = ['None', 'True', 'False', '1e5', '5', '-3', '0.5', ' padded ', '\ttab', 'trail ', 'a=b', 'a:b', 'x;y', '#c', ';c', '%(nosuch)s',
          '50%', '%%', 'a%%b', '%', 'UPPER', 'Mixed Case', 'hello world', 'two  spaces', '', '1_000', '0x10', '(1)', "'quoted'",
          '"dq"', '1+2j', '[1, 2]', '(1, 2)', "{'a': 1}", '{}', '()', '[]', '1,2', '...', '.5', '1.', '1e400', '-inf', 'inf', 'nan',
          'NaN', '- 5', '+5', '--5', '00', '01', '1j', "b'x'", "r'x'", 'set()', 'None,', '5 #c', '[section]', '[', '= x', ': y',
          'key = value', '1.2.3', '2017-01-01', '1e', 'e5', '~5', 'not', '{[]:1}', '{[]}', 'a\nb', 'a\n b', 'a\n\nb', 'a\n#b', 'a\n',
          'a\n[x]', 'a\nk = v', '0b101', '0o17', '1__0', '٣', 'naïve', 'λ',
          # spellings the typed getters accept / refuse (int(), float(), BOOLEAN_STATES)
          '1', '0', '+7', '-0', '007', '1_0', '1e3', '5.', '-2.5e-3', '-Infinity', '+inf', '-nan', '1_000.5', '1 000', '1,5', ' 7', '0x1F',
          '1.0', '2', '-1', '1e-400', '0.1e1', '1E5', '1_0e1_0', 'yes ', ' on', '0 ', 'True ', ' None', '١٢', '１']


def gen_value(rng, kind=None):
    kind = kind or rng.choice(['int', 'int', 'float', 'float', 'bool', 'none', 'word', 'word'])
    if kind == 'int':
        return gen_int(rng)
    if kind == 'float':
        return gen_float(rng)
    if kind == 'bool':
        return rng.random() < 0.5
    if kind == 'none':
        return None
    return gen_plain_word(rng)


ODD_KEYS = ['9k', '0', '5', 'a.b', 'x-y', 'two words', 'k[0]', '1e5', 'none', 'a/b', 'x y z', '-k', '.k', 'k.', 'a,b', '(k)', 'k*', "k'", 'a+b', '@k', '!k', '~', '_']
EXTRA_SECTIONS = ['other', 'Fingerprinting', 'my section', 'conformer_generation2', 'PREPROCESSING', 'fingerprinting.x', 'x', 'section-1']


def gen_key(rng, sec, upper=False, odd=False):
    r = rng.random()
    if odd and r < 0.25:
        return rng.choice(ODD_KEYS)
    if r < 0.75:
        k = rng.choice(G.EXPECTED_OPTIONS[sec])
    elif r < 0.9:
        k = rng.choice(['extra', 'x', 'my_option', 'opt2', '_u', 'k9', 'first', 'level', 'bits'])
    else:
        k = rng.choice('abcdefghijklmnopqrstuvwxyz_') + ''.join(rng.choice('abcdefghijklmnopqrstuvwxyz0123456789_') for _ in range(rng.randint(0, 8)))
    if upper:
        k = rng.choice([k.upper(), k.capitalize(), k[:-1] + k[-1].upper()])
    return k


def gen_config(rng, tricky=None, upper=False, extras=False, odd_keys=False):
    """[(section, [(key, value)])] with case-sensitively unique keys per section.
    extras: with probability 0.3 one or two sections that are not in the packaged defaults file (params_to_sections_dict
    ignores them, everything else keeps them); odd_keys: option names with digits first / punctuation / inner blanks."""
    secs = [s for s in SECTIONS if rng.random() < 0.75] or [rng.choice(SECTIONS)]
    if extras and rng.random() < 0.3:
        secs += rng.sample(EXTRA_SECTIONS, rng.randint(1, 2))
    rng.shuffle(secs)
    out = []
    for s in secs:
        d = {}
        for _ in range(rng.randint(0, 6)):
            d[gen_key(rng, s if s in SECTIONS else rng.choice(SECTIONS), upper and rng.random() < 0.5, odd=odd_keys)] = gen_value(rng)
        out.append((s, list(d.items())))
    if tricky is not None:
        i = rng.randrange(len(out))
        s, kv = out[i]
        k = gen_key(rng, s if s in SECTIONS else rng.choice(SECTIONS))
        kv = [(a, b) for a, b in kv if a != k]
        kv.insert(rng.randint(0, len(kv)), (k, tricky))
        out[i] = (s, kv)
    return out


# --------------------------------------------------------------------------- the run
def run(ctx):
    ok, res = core.proof_step(ctx)
    rng = ctx.rng
    import configparser
    from e3fp.config import params as P
    from e3fp import pipeline
    cases, payloads, mexpr = [], {}, {}
    found_input = False
    dist = {'update_form': {}, 'configs': 0, 'tricky_configs': 0, 'upper_key_configs': 0, 'values_by_type': {}, 'stage_cases': {},
            'literal_strings': 0, 'literal_unmodelled': 0, 'ini_texts': 0, 'e2e_runs': 0, 'getter_queries': 0,
            'known_class_hits': {}, 'prop_checks': 0, 'fallback_checks': 0, 'requeued_without_percent_option': 0,
            'floats_with_15_to_17_significant_digits': 0, 'configs_with_a_section_outside_the_packaged_three': 0,
            'configs_with_an_unusual_option_name': 0, 'getter_fallback_identity_checks': 0}
    path, dtext, dparsed = G.defaults_file()
    dmap = dict((s, dict(kv)) for s, kv in dparsed)

    def add_case(stage, key, expr, payload, model_out=None):
        cases.append((key, expr))
        payloads[key] = payload
        if model_out:
            mexpr[key] = model_out
        dist['stage_cases'][stage] = dist['stage_cases'].get(stage, 0) + 1

    def known(fk, what, payload):
        dist['known_class_hits'][fk] = dist['known_class_hits'].get(fk, 0) + 1
        ctx.fail(what, payload, finding_key=fk)

    lit_strings = set()

    # ---- dflt: Python twin of defaults_coherent -------------------------------------------------------------
    from e3fp.fingerprint import fprinter
    mism = []
    for name, kind, secs, d in G.entry_point_defaults():
        for sec in secs:
            for opt, raw in dparsed[[s for s, _ in dparsed].index(sec)][1]:
                if opt not in d:
                    continue
                try:
                    want = ast.literal_eval(raw)
                except NOT_LITERAL:
                    want = raw
                if sec == 'fingerprinting' and opt == 'bits':
                    want = fprinter.BITS
                have = d[opt]
                same = same_value(have, want)
                if not same and type(have) is float and type(want) is float and math.isfinite(have) and math.isfinite(want):
                    same = Fraction(repr(have)) == Fraction(raw)   # 1.7180 and 1.718 are the same default
                ctx.count(('dflt', name, sec, opt), True)
                if not same:
                    mism.append({'entry_point': name, 'kind': kind, 'section': sec, 'option': opt, 'defaults_cfg_value': raw,
                                 'typed_file_value': repr(want), 'default_in_code': repr(have)})
    for m in mism:
        found_input = True
        ctx.fail('defaults are not coherent: %(entry_point)s has %(option)s=%(default_in_code)s, defaults.cfg [%(section)s] says %(defaults_cfg_value)s' % m,
                 m, finding_key='C20:default:%s:%s' % (m['entry_point'], m['option']))
    if ok and mism:
        ctx.fail('theorem defaults_coherent checked although the Python twin found mismatches', {'mismatches': mism})
    ctx.sample({'defaults_checked_pairs': len([k for k in ctx.distinct if isinstance(k, tuple) and k[0] == 'dflt'])})

    # ---- cfg + prop -----------------------------------------------------------------------------------------
    ncfg = ctx.n(360, 5000)
    plan = []
    nt = 0
    for i in range(ncfg):
        r = i % 10
        if r < 5:
            plan.append(('plain', None))
        elif r < 9:
            # every entry of TRICKY once (the quick tier has 144 of these slots), then random ones
            plan.append(('tricky', TRICKY[nt] if nt < len(TRICKY) else rng.choice(TRICKY)))
            nt += 1
        else:
            plan.append(('upper', None))
    if nt < len(TRICKY):
        raise RuntimeError('generator self-check: %d tricky slots for %d tricky strings' % (nt, len(TRICKY)))
    # worklist: a configuration that cannot be written / read because of a '%' value whose failure is exactly the known
    # one is re-queued without that option, so that all its other options are still compared
    work = [(ci, '', mode, tricky, None) for ci, (mode, tricky) in enumerate(plan)]
    wi = 0
    while wi < len(work):
        ci, sfx, mode, tricky, given = work[wi]
        wi += 1
        if given is None and tricky is not None and not G.modelled(tricky):
            # outside the modelled alphabet: the property is checked on the implementation alone
            nv0 = len(ctx.violations)
            _direct_nonascii(ctx, P, tricky, known)
            found_input = found_input or len(ctx.violations) > nv0
            continue
        conf = given if given is not None else gen_config(rng, tricky=tricky, upper=(mode == 'upper'), extras=True, odd_keys=(ci % 5 == 0))
        dist['configs_with_a_section_outside_the_packaged_three'] += any(s not in SECTIONS for s, _ in conf)
        dist['configs_with_an_unusual_option_name'] += any(k in ODD_KEYS for _, kv in conf for k, _ in kv)
        if given is not None:
            dist['requeued_without_percent_option'] += 1
        dist['configs'] += 1
        dist['tricky_configs'] += tricky is not None
        dist['upper_key_configs'] += mode == 'upper'
        for _, kv in conf:
            for _, v in kv:
                t = type(v).__name__
                dist['values_by_type'][t] = dist['values_by_type'].get(t, 0) + 1
                if type(v) is float and math.isfinite(v) and sig_digits(v) >= 15:
                    dist['floats_with_15_to_17_significant_digits'] += 1
                if v is None or type(v) in (bool, int, float):
                    lit_strings.add(str(v))
                elif G.modelled(v) and '\n' not in v:
                    lit_strings.add(v.strip())
        fill = rng.random() < 0.5
        tag = 'cfg%d%s' % (ci, sfx)
        conf_json = [[s, [[k, repr(v)] for k, v in kv]] for s, kv in conf]
        conf_lit = core.listlit(['(%s, %s)' % (S(s), dict_lit(kv, value_lit)) for s, kv in conf])
        fn = os.path.join(ctx.workdir, 'p%d%s.cfg' % (ci, sfx))

        # stage 1-2: update_params (single-section calls, or one call in the sections-dict form) and write_params
        form = 'sections_dict' if ci % 2 else 'single_section'
        dist['update_form'][form] = dist['update_form'].get(form, 0) + 1

        def build():
            if form == 'single_section':
                params = None
                for s, kv in conf:
                    params = P.update_params(dict(kv), params=params, section_name=s)
            else:
                params = P.update_params(dict((s, dict(kv)) for s, kv in conf))
            P.write_params(params, fn)
            return open(fn).read()
        r_text = attempt(build)
        mupd = 'update_all []' if form == 'single_section' else 'update_params_sections []'
        add_case('write', tag + '/write',
                 'result_match String.eqb (rbind (%s %s) (fun c => Ok (render c))) %s' % (mupd, conf_lit, res_lit(r_text, S)),
                 {'config': conf_json, 'update_params_form': form, 'impl_file_text_or_error': r_text[1:]},
                 'rbind (%s %s) (fun c => Ok (render c))' % (mupd, conf_lit))
        # sections-dict form on top of an existing file (the packaged defaults)
        if ci % 4 == 1:
            def onfile():
                cp = P.update_params(dict((s, dict(kv)) for s, kv in conf), params=path)
                return [(s, [(k, cp.get(s, k, raw=True)) for k in cp.options(s)]) for s in cp.sections()]
            r_of = attempt(onfile)
            mo = 'rbind (parse_file defaults_cfg_text) (fun b => update_params_sections b %s)' % conf_lit
            add_case('update_on_file', tag + '/onfile', 'result_match cfg_eqb (%s) %s' % (mo, res_lit(r_of, cfg_lit)),
                     {'config': conf_json, 'params': 'defaults.cfg', 'impl_raw_items_or_error': r_of[1:]}, mo)
            ctx.count((tag, 'onfile'), True)
        ctx.count((tag, 'write', str(conf_json)), any(kv for _, kv in conf))
        if r_text[0] != 'ok':
            nv0 = len(ctx.violations)
            reduced = _explain_failure(ctx, P, conf, 'set', r_text, known, conf_json, None)
            found_input = found_input or len(ctx.violations) > nv0
            if reduced is not None:
                work.append((ci, sfx + 'r', mode, None, reduced))
            continue
        text = r_text[1]
        text_lit = S(text)
        tlit = 't'              # the file text is bound once per case: let t := <text> in ...
        stages = []             # (stage, bool expr, model output expr, payload part)

        def add_stage(stage, key, expr, payload, model_out):
            stages.append((stage, expr, model_out, payload))
            dist['stage_cases'][stage] = dist['stage_cases'].get(stage, 0) + 1

        # stage 3: read_params with / without the defaults
        def readback():
            cp = P.read_params(fn, fill_defaults=fill)
            return cp, [(s, [(k, cp.get(s, k, raw=True)) for k in cp.options(s)]) for s in cp.sections()]
        r_read = attempt(readback)
        add_stage('read', tag + '/read',
                 'result_match cfg_eqb (read_params defaults_cfg_text %s (Some %s)) %s' % (core.blit(fill), tlit, res_lit(r_read, lambda x: cfg_lit(x[1]))),
                 {'config': conf_json, 'file_text': text, 'fill_defaults': fill, 'impl_raw_items_or_error': r_read[1:] if r_read[0] != 'ok' else r_read[1][1]},
                 'read_params defaults_cfg_text %s (Some %s)' % (core.blit(fill), tlit))
        ctx.count((tag, 'read'), True)

        # stage 4-5: params_to_sections_dict / params_to_dicts
        r_sd = attempt(lambda: [(s, list(d.items())) for s, d in P.params_to_sections_dict(fn).items()])
        sd_lit = res_lit(r_sd, lambda sd: core.listlit(['(%s, %s)' % (S(s), dict_lit(kv, obs_lit)) for s, kv in sd]))
        add_stage('sections_dict', tag + '/sd', 'result_match sdict_matches (params_to_sections_dict defaults_cfg_text %s) %s' % (tlit, sd_lit),
                 {'config': conf_json, 'file_text': text, 'impl_sections_dict_or_error': repr(r_sd[1:])[:1500]},
                 'params_to_sections_dict defaults_cfg_text %s' % tlit)
        r_pd = attempt(lambda: tuple(list(d.items()) for d in pipeline.params_to_dicts(fn)))
        pd_lit = res_lit(r_pd, lambda pd: '(%s, %s)' % (dict_lit(pd[0], obs_lit), dict_lit(pd[1], obs_lit)))
        add_stage('params_to_dicts', tag + '/pd',
                 'result_match (pair_match dict_matches dict_matches) (params_to_dicts defaults_cfg_text %s) %s' % (tlit, pd_lit),
                 {'config': conf_json, 'file_text': text, 'impl_params_to_dicts_or_error': repr(r_pd[1:])[:1500]},
                 'params_to_dicts defaults_cfg_text %s' % tlit)
        ctx.count((tag, 'sd'), True)
        ctx.count((tag, 'pd'), True)
        # params_to_sections_dict(auto=False): the interpolated strings, untyped (keyword and positional call)
        r_sr = attempt(lambda: [(s, list(d.items())) for s, d in (P.params_to_sections_dict(fn, auto=False) if ci % 2 else P.params_to_sections_dict(fn, False)).items()])
        if r_sr[0] != 'ok' or all(type(v) is str and G.modelled(v) for _, kv in r_sr[1] for _, v in kv):
            add_stage('sections_dict_raw', tag + '/sr', 'result_match cfg_eqb (cov_sections_dict_raw defaults_cfg_text %s) %s' % (tlit, res_lit(r_sr, cfg_lit)),
                      {'config': conf_json, 'file_text': text, 'impl_sections_dict_auto_False_or_error': repr(r_sr[1:])[:1500]},
                      'cov_sections_dict_raw defaults_cfg_text %s' % tlit)
        else:
            found_input = True
            ctx.fail('params_to_sections_dict(auto=False) returns a value that is not a string', {'config': conf_json, 'file_text': text, 'got': repr(r_sr[1:])[:1500]})
        ctx.count((tag, 'sr'), True)

        # stage 6: typed getters on the parser read back (present and absent options, every dtype)
        if r_read[0] == 'ok':
            cp = r_read[1][0]
            qs = []
            present = [(s, k) for s, kv in conf for k, _ in kv]
            cand = present + [(rng.choice(SECTIONS), gen_key(rng, rng.choice(SECTIONS))) for _ in range(2)] + [('nosuch', 'x')]
            for s, k in rng.sample(cand, min(len(cand), 5)):
                sent = object()
                for dt, fn_m, cmp_m, lit_f in (('int', 'get_int', 'oZ_eqb', lambda x: core.optlit(x, zlit)), ('float', 'get_float', 'ofval_close', lambda x: core.optlit(x, fval_lit)),
                                               ('bool', 'get_bool', 'obool_eqb', lambda x: core.optlit(x, core.blit)), ('str', 'get_str', 'String.eqb', S)):
                    pyt = {'int': int, 'float': float, 'bool': bool, 'str': str}[dt]
                    rg = attempt(lambda: P.get_value(cp, s, k, dtype=pyt, fallback=sent))
                    dist['getter_fallback_identity_checks'] += 1
                    if rg[0] == 'ok' and rg[1] is not sent and type(rg[1]) is not pyt:
                        found_input = True
                        ctx.fail('get_value(dtype=%s, fallback=<object>) returned %r: neither a %s nor the fallback given' % (dt, rg[1], dt),
                                 {'config': conf_json, 'file_text': text, 'fill_defaults': fill, 'section': s, 'option': k, 'dtype': dt, 'got': repr(rg[1])})
                        continue
                    if rg[0] == 'ok':
                        v = rg[1]
                        if dt == 'str':
                            if v is sent or not G.modelled(v):
                                continue
                            rl = '(Ok %s)' % S(v)
                        else:
                            rl = '(Ok %s)' % lit_f(None if v is sent else v)
                    else:
                        rl = '(Raises %s)' % rg[1]
                    qs.append('result_match %s (%s c %s %s) %s' % (cmp_m, fn_m, S(s), S(k), rl))
                    dist['getter_queries'] += 1
                rg = attempt(lambda: P.get_value(cp, s, k, auto=True, fallback=sent))
                rl = res_lit(rg, obs_lit)
                qs.append('result_match cls_matches (get_auto c %s %s) %s' % (S(s), S(k), rl))
                dist['getter_queries'] += 1
            add_stage('getters', tag + '/get',
                     'match read_params defaults_cfg_text %s (Some %s) with Ok c => forallb (fun b : bool => b) %s | Raises _ => false end' % (core.blit(fill), tlit, core.listlit(qs)),
                     {'config': conf_json, 'file_text': text, 'fill_defaults': fill, 'queries': qs},
                     'match read_params defaults_cfg_text %s (Some %s) with Ok c => %s | Raises _ => [] end' % (core.blit(fill), tlit, core.listlit(qs)))
            ctx.count((tag, 'get'), True)

            # prop (b): fallback / layering on the implementation
            lower_present = {}
            for s, kv in conf:
                for k, v in kv:
                    lower_present[(s, k.lower())] = v
            for s in SECTIONS:
                for k, raw in dmap[s].items():
                    dist['fallback_checks'] += 1
                    if (s, k) in lower_present:
                        v = lower_present[(s, k)]
                        if not (type(v) is str and '\n' in v):
                            has = cp.has_section(s) and cp.has_option(s, k)
                            if not (has and cp.get(s, k, raw=True) == str(v).strip()):
                                found_input = True
                                ctx.fail('the value of the user file does not win over the packaged default',
                                         {'config': conf_json, 'section': s, 'option': k, 'user_value': repr(v), 'fill_defaults': fill,
                                          'got': cp.get(s, k, raw=True) if has else None})
                        continue
                    has = cp.has_section(s) and cp.has_option(s, k)
                    if fill and not (has and cp.get(s, k, raw=True) == raw):
                        found_input = True
                        ctx.fail('option absent from the user file did not fall back to the packaged default',
                                 {'config': conf_json, 'section': s, 'option': k, 'default': raw, 'got': cp.get(s, k, raw=True) if has else None})
                    if not fill and has:
                        found_input = True
                        ctx.fail('option absent from the user file is present although defaults were not requested',
                                 {'config': conf_json, 'section': s, 'option': k})

        pl = {'config': conf_json, 'file_text': text, 'fill_defaults': fill}
        for st, _, _, p_ in stages:
            pl[st] = dict((k_, v_) for k_, v_ in p_.items() if k_ not in pl)
        cases.append((tag + '/pipeline', 'let t := %s in (%s)' % (text_lit, ' && '.join('(%s)' % e for _, e, _, _ in stages))))
        payloads[tag + '/pipeline'] = pl
        mexpr[tag + '/pipeline'] = 'let t := %s in (%s)' % (text_lit, ', '.join('(%s, (%s), (%s))' % (S(st), e, m) for st, e, m, _ in stages))

        # prop (a): every supported value reads back as the same typed value
        nv0 = len(ctx.violations)
        if r_sd[0] != 'ok':
            reduced = _explain_failure(ctx, P, conf, 'read', r_sd, known, conf_json, text)
            if reduced is not None:
                work.append((ci, sfx + 'r', mode, None, reduced))
        else:
            _prop_roundtrip(ctx, conf, r_sd, known, conf_json, text, dist)
        found_input = found_input or len(ctx.violations) > nv0

    if dist['floats_with_15_to_17_significant_digits'] < ncfg // 10:
        raise RuntimeError('generator self-check: only %d floats with 15-17 significant digits in %d configurations'
                           % (dist['floats_with_15_to_17_significant_digits'], ncfg))

    # ---- regression probes of the two repaired defects (25a2190, edaa6d4) ------------------------------------------
    r1 = attempt(lambda: dict(P.update_params({'fingerprinting': {'level': 4}}, params=path)['fingerprinting'])['level'])
    r2 = attempt(lambda: dict(P.update_params({'newsection': {'level': 4}})['newsection'])['level'])
    if r1 != ('ok', '4') or r2 != ('ok', '4'):
        found_input = True
        ctx.fail('update_params(sections_dict) cannot take typed values / creates no section', {'typed_value': r1[1:], 'no_params': r2[1:]})
    fn = os.path.join(ctx.workdir, 'te.cfg')
    P.write_params(P.update_params({'out_dir': '{[]:1}'}, section_name='conformer_generation'), fn)
    r3 = attempt(lambda: P.params_to_sections_dict(fn)['conformer_generation']['out_dir'])
    if r3 != ('ok', '{[]:1}'):
        found_input = True
        ctx.fail("string value '{[]:1}' (literal_eval raises TypeError) does not read back as itself", {'got': repr(r3[1:])})
    # the packaged defaults, through params_to_dicts, as keyword arguments of generate_conformers
    import inspect
    from e3fp.conformer.generate import generate_conformers
    cg, _ = pipeline.params_to_dicts(path)
    extra = sorted(set(cg) - set(inspect.signature(generate_conformers).parameters))
    if extra and extra != ['protonate']:
        found_input = True
        ctx.fail('params_to_dicts(defaults.cfg)[0] carries options generate_conformers does not accept, other than the recorded `protonate`: %s' % extra, {'unaccepted': extra})
    elif extra:
        known(FK_PROTONATE, 'params_to_dicts(defaults.cfg)[0] carries options generate_conformers does not accept: %s' % extra, {'unaccepted': extra})

    # ---- lit: real literal_eval vs the classifier --------------------------------------------------------------
    for s in TRICKY:
        if G.modelled(s) and '\n' not in s:
            lit_strings.add(s.strip())
    NUMCH = list('0123456789') * 2 + list('._eE+-jJxXoObB_ aAfF')
    ALPH = [chr(c) for c in range(32, 127)] + ['\t']
    for _ in range(ctx.n(1500, 25000)):
        r = rng.random()
        if r < 0.2:
            s = ''.join(rng.choice(ALPH) for _ in range(rng.randint(0, 6)))
        elif r < 0.55:
            s = ''.join(rng.choice(NUMCH) for _ in range(rng.randint(1, 8)))
        elif r < 0.75:
            s = ''.join(rng.choice(PLAIN_CHARS) for _ in range(rng.randint(1, 7)))
        elif r < 0.85:
            s = repr(gen_float(rng)) if rng.random() < 0.6 else str(gen_int(rng))
            if rng.random() < 0.3:
                s = rng.choice(['-', '+', '- ', '', '0', '.']) + s + rng.choice(['', 'j', '.', 'e5', '_0', '0'])
        else:
            w = rng.choice(['True', 'False', 'None', 'set', 'inf', 'nan', 'not', 'lambda', 'b', 'r', 'f', 'rb', '...', '..', '.'])
            s = rng.choice(['', '-', '+', '- ', '~']) + w + rng.choice(['', ' ', ',', '()', ' ()', '#x', '.x', '-1', '/x', "'a'", '"a"', ' x', '.5', '..', '[0]', '1', ' ,', ' #', '_', 'x'])
        lit_strings.add(s.strip())
    if not ctx.quick:
        for n in (1, 2, 3, 4):
            for t in itertools.product('01._e-+jx aT', repeat=n):
                lit_strings.add(''.join(t).strip())
    else:
        for n in (1, 2):
            for t in itertools.product('01._e-+jx aT/', repeat=n):
                lit_strings.add(''.join(t).strip())
    lit_strings.add('9' * 4300)
    lit_strings.add('9' * 4301)
    lit_strings.add('-' + '1' + '0' * 4300)
    lit_strings.add('0' * 4400)
    for i, s in enumerate(sorted(lit_strings)):
        try:
            rv = ast.literal_eval(s)
            o = obs_lit(rv)
        except NOT_LITERAL:
            o = obs_lit(s)
        key = 'lit/%d' % i
        add_case('literal', key, 'cls_matches (classify %s) %s && Bool.eqb (plain_word %s) %s' % (S(s), o, S(s), core.blit(py_plain_word(s))),
                 {'string': s[:200], 'literal_eval_observation': o[:200]}, '(classify %s, plain_word %s)' % (S(s), S(s)))
        if py_plain_word(s) and not (o.startswith('(OStr') and o == obs_lit(s)):
            found_input = True
            ctx.fail('a plain word is a Python literal: the predicate plain_word is unsound', {'string': s})
        ctx.count(('lit', s), True)
        dist['literal_strings'] += 1
    # float tokens: repr of every generated finite float has the shape the theorem covers
    ftoks = set()
    for _ in range(ctx.n(300, 5000)):
        x = gen_float(rng)
        if math.isfinite(x):
            ftoks.add(repr(x))
    for i, tok in enumerate(sorted(ftoks)):
        fl = G.ftok_literal(tok)
        if fl is None:
            found_input = True
            ctx.fail('repr(float) token outside the grammar of print_parse_float_token', {'token': tok})
            continue
        add_case('float_token', 'ftok/%d' % i,
                 'ftok_ok %s && String.eqb (render_ftok %s) %s && fval_close (float_value %s) %s' % (fl, fl, S(tok), S(tok), fval_lit(float(tok))),
                 {'token': tok}, '(render_ftok %s, float_value %s)' % (fl, S(tok)))
        ctx.count(('ftok', tok), True)

    # ---- ini: hand-written texts ------------------------------------------------------------------------------
    for i in range(ctx.n(150, 2500)):
        text = _gen_ini(rng)
        fn = os.path.join(ctx.workdir, 'h%d.cfg' % i)
        open(fn, 'w').write(text)

        def rd():
            cp = P.read_params(fn)
            return [(s, [(k, cp.get(s, k, raw=True)) for k in cp.options(s)]) for s in cp.sections()]
        r = attempt(rd)
        add_case('ini', 'ini/%d' % i, 'result_match cfg_eqb (parse_file %s) %s' % (S(text), res_lit(r, cfg_lit)),
                 {'text': text, 'impl': r[1:]}, 'parse_file %s' % S(text))
        if r[0] == 'ok':
            # a hand-written file through the typed readers and on top of the packaged defaults
            def rdfill():
                cp = P.read_params(fn, fill_defaults=True)
                return [(s, [(k, cp.get(s, k, raw=True)) for k in cp.options(s)]) for s in cp.sections()]
            r_f = attempt(rdfill)
            r_sd = attempt(lambda: [(s, list(d.items())) for s, d in P.params_to_sections_dict(fn).items()])
            r_pd = attempt(lambda: tuple(list(d.items()) for d in pipeline.params_to_dicts(fn)))
            sd_lit = res_lit(r_sd, lambda sd: core.listlit(['(%s, %s)' % (S(s), dict_lit(kv, obs_lit)) for s, kv in sd]))
            pd_lit = res_lit(r_pd, lambda pd: '(%s, %s)' % (dict_lit(pd[0], obs_lit), dict_lit(pd[1], obs_lit)))
            add_case('ini_typed', 'ini/%d/typed' % i,
                     'let t := %s in result_match cfg_eqb (read_params defaults_cfg_text true (Some t)) %s && '
                     'result_match sdict_matches (params_to_sections_dict defaults_cfg_text t) %s && '
                     'result_match (pair_match dict_matches dict_matches) (params_to_dicts defaults_cfg_text t) %s'
                     % (S(text), res_lit(r_f, cfg_lit), sd_lit, pd_lit),
                     {'text': text, 'typed': True, 'impl_read_with_defaults': repr(r_f[1:])[:1200], 'impl_sections_dict': repr(r_sd[1:])[:1200], 'impl_params_to_dicts': repr(r_pd[1:])[:1200]},
                     'let t := %s in (read_params defaults_cfg_text true (Some t), params_to_sections_dict defaults_cfg_text t, params_to_dicts defaults_cfg_text t)' % S(text))
        ctx.count(('ini', text), r[0] == 'ok' and len(r[1]) > 0)
        dist['ini_texts'] += 1

    # ---- e2e ------------------------------------------------------------------------------------------------
    nv0 = len(ctx.violations)
    _end_to_end(ctx, P, pipeline, dist, dmap)
    found_input = found_input or len(ctx.violations) > nv0

    # ---- int <-> str limit, on the implementation ---------------------------------------------------------------
    for z, zl in ((10 ** 4300 - 1, '(10 ^ 4300 - 1)%Z'), (10 ** 4300, '(10 ^ 4300)%Z'), (-(10 ** 4300), '(- 10 ^ 4300)%Z')):
        r = attempt(lambda: P.update_params({'seed': z}, section_name='conformer_generation'))
        # printing 4300 digits inside Coq takes ~30 s: the quick tier evaluates the guard of py_str only
        m = 'is_ok (py_str (VInt %s))' % zl if (r[0] != 'ok' or not ctx.quick) else 'negb (int_limit <=? Z.abs %s)' % zl
        add_case('int_limit', 'lim/%d' % len(cases), 'Bool.eqb (%s) %s' % (m, core.blit(r[0] == 'ok')), {'z': zl, 'impl': r[0]})
        ctx.count(('lim', zl), True)

    # ---- cov: the streams of the coverage audit (c20_cov.py) ---------------------------------------------------------
    if COV.run_part(ctx, sys.modules[__name__], P, pipeline,
                    {'add_case': add_case, 'known': known, 'dist': dist, 'defaults_path': path, 'defaults_parsed': dparsed, 'dmap': dmap}):
        found_input = True

    for k in cases[:2] + cases[len(cases) // 3:len(cases) // 3 + 2] + cases[-2:]:
        ctx.sample({'case': k[0], 'input_and_implementation_result': payloads[k[0]], 'model_check': k[1][:500]})
    nbad = core.compare_cases(ctx, cases, IMPORTS, 'C20 configuration', payloads, model_expr=mexpr)
    found_input = found_input or nbad > 0
    unm, _ = core.coq_eval_bools([(i, 'is_unmodelled (classify %s)' % S(x)) for i, x in enumerate(sorted(lit_strings))], IMPORTS,
                                 os.path.join(ctx.workdir, 'unmodelled'))
    dist['literal_unmodelled'] = sum(1 for v in unm.values() if v)
    by_class = {}
    for i, x in enumerate(sorted(lit_strings)):
        if unm.get(i):
            c = unmodelled_class(x)
            e = by_class.setdefault(c, {'strings': 0, 'of_which_python_literals': 0, 'example': x[:40]})
            e['strings'] += 1
            e['of_which_python_literals'] += is_literal(x)
    dist['literal_unmodelled_by_class'] = by_class
    ctx.coverage['rule'] = ('cfg: seeded option dictionaries over the 3 sections (0-6 options each; known option names, new names; 20% carry one value of the '
                            '"tricky strings" list, 10% upper-case keys), every stage (file text, read_params with/without defaults, params_to_sections_dict, '
                            'params_to_dicts, 5x5 typed getter queries) compared with the model inside Coq; prop: the round-trip and fallback statements decided '
                            'on the implementation for every option; lit: every generated value string plus a grammar fuzz and all short strings over '
                            '"01._e-+jx aT" against ast.literal_eval; ini: hand-written INI texts; e2e: 3 molecules x option sets; dflt: every '
                            '(entry point, option) pair. Non-trivial = a non-empty configuration / a text with at least one section; distinct by full input. '
                            'EXCLUDED FROM THE MODEL COMPARISON: strings the three-valued classifier answers CUnmodelled for (quoted strings, bracketed containers, '
                            'number-like and sign-led non-tokens: @UNM@ of @LIT@ literal-stream strings on this run, counted per class in input_distribution.literal_unmodelled_by_class); '
                            'for those only the implementation-side outcome test of the prop stream applies (read back == ast.literal_eval(written) or unkeyed violation). '
                            'cov (coverage audit, c20_cov.py; counters under input_distribution.cov): 30% of the configurations carry sections outside the packaged three, every fifth draws '
                            'unusual option names, every tricky string is used at least once; params_to_sections_dict(auto=False); hand-written INI texts also through the typed readers; '
                            'read_params without a user file / missing file / pathlib / bytes / parser object; update_params in six call forms on a user file or parser object; '
                            'typed getters on hand-picked raw values with identity of the fallback object; get_default_value per packaged option; numpy scalar values; '
                            'multi-conformer molecules, fingerprint.generate.run(params=) vs keywords, conformer options (confs_from_smiles, fprints_from_smiles, save with out_dir/compress, '
                            'conformer.generate.run(params=)) vs keywords, contradicting keywords next to params= must lose.')
    ctx.coverage['rule'] = ctx.coverage['rule'].replace('@UNM@', str(dist['literal_unmodelled'])).replace('@LIT@', str(dist['literal_strings']))
    ctx.coverage['input_distribution'] = dist
    ctx.assumptions += [
        'configparser.ConfigParser (default construction), ast.literal_eval and str()/repr() of int/float/bool/None are modelled, not verified; exercised by the correspondence',
        'TRUSTED, not proved: float(repr(x)) == x (CPython shortest-repr round trip). The theorems typed_rt_float / print_parse_float_token show that the repr TOKEN '
        'passes through the file unchanged and is classified as a float literal; that the token denotes x again is checked only on the implementation '
        '(prop stream: bit-exact comparison of every float read back, %d of them with 15-17 significant digits on this run)' % dist['floats_with_15_to_17_significant_digits'],
        'strings are restricted to the modelled alphabet (printable ASCII, TAB, LF); a few non-ASCII values are checked on the implementation alone (UTF-8 locale)',
        'multi-line string values are outside the scalar domain of the round-trip property; they are compared model-vs-implementation only',
        'the classifier is three-valued: strings it answers CUnmodelled for (%d of %d here; per-class counts in the evidence) are not compared with the model' % (dist['literal_unmodelled'], dist['literal_strings']),
        'interpolation references %(name)s to options that exist are not modelled and not generated',
        'ints with more than sys.get_int_max_str_digits() digits cannot be printed by CPython (ValueError): modelled, boundary checked on the implementation',
        'argparse defaults are read off the parser objects built inside main() (parse_args intercepted); a string default goes through the action type as argparse does',
        'cov/routing: the worker functions of the two batch entry points (fingerprint.generate.fprints_dict_from_sdf, conformer.generate.generate_conformers / mol_from_smiles) are '
        'replaced by recorders in the harness process (module attribute, serial mode; no source hook) to observe the typed option values run(params=file) hands down',
        'cov/e2e_confgen relies on RDKit conformer generation being deterministic for a fixed seed (seed -1 is never drawn there); both call forms run in the same process',
        'a [DEFAULT] section in a user file (configparser propagates it into every section) is neither modelled nor generated',
        'cov_sections_dict_raw (params_to_sections_dict(auto=False)) is a Gallina helper defined in the harness (c20_cov.PRELUDE) on top of Model/Config.v; no theorem is stated about it',
    ]
    if not ok:
        core.report_broken_proof(ctx, res, found_input)


def unmodelled_class(x):
    """Why the three-valued classifier gives no verdict (CUnmodelled) for x -- counted in the evidence."""
    if not G.modelled(x) or '\n' in x:
        return 'character outside printable ASCII/TAB'
    c = x[:1]
    if c in '\'"':
        return 'quoted string literal'
    if c in '([{':
        return 'bracketed: tuple / list / dict / set / parenthesised expression'
    if c.isdigit() or c == '.':
        return 'starts like a number but is not one number token (1+2j, 1,2, 1 #c, 1a, ...x)'
    if c in '+-':
        return 'sign followed by neither a number nor a name'
    if c.isalpha() or c == '_':
        return 'True/False/None followed by , or #; string prefix + quote; set()'
    return 'other'


# --------------------------------------------------------------------------- property on the implementation
# A known-finding key is used only for an input of the class AND exactly the outcome recorded for that class;
# the same input with any other outcome is an unkeyed violation.
PCT_REF = re.compile(r'%\(([^)]+)\)s')


def pct_expected(v, other_names=()):
    """What configparser's BasicInterpolation is known to do with a string containing '%':
    'set-error' (a lone %: ValueError in update_params), 'read-error' (%(name)s with no such option:
    InterpolationMissingOptionError on read), ('value', s) (only %%: read back with % for %%), None (not covered)."""
    if '%' in PCT_REF.sub('', v.replace('%%', '')):
        return 'set-error'
    refs = PCT_REF.findall(v.replace('%%', ''))
    if refs:
        return 'read-error' if all(r.lower() not in other_names for r in refs) else None
    return ('value', v.strip().replace('%%', '%'))


def pct_observed(P, workdir, s, k, v):
    """The option alone in a file: 'set-error' / 'read-error' / ('value', got) / ('other', description)."""
    import configparser
    try:
        cp = P.update_params({k: v}, section_name=s)
    except ValueError as e:
        return 'set-error' if 'invalid interpolation syntax' in str(e) else ('other', 'ValueError: %s' % e)
    except Exception as e:  # noqa
        return ('other', '%s: %s' % (type(e).__name__, e))
    fn = os.path.join(workdir, 'single.cfg')
    P.write_params(cp, fn)
    try:
        return ('value', P.params_to_sections_dict(fn)[s][k.lower()])
    except configparser.InterpolationMissingOptionError:
        return 'read-error'
    except Exception as e:  # noqa
        return ('other', '%s: %s' % (type(e).__name__, e))


def _explain_failure(ctx, P, conf, stage, r, known, conf_json, text):
    """The whole configuration could not be written (stage 'set') or read (stage 'read').  Known only if the
    exception is the one of the class and an option holding a '%' value shows exactly that failure on its own;
    returns the configuration without those options (to be compared normally), or None."""
    want_exc = 'ValueError: invalid interpolation syntax' if stage == 'set' else 'InterpolationMissingOptionError'
    kind = 'set-error' if stage == 'set' else 'read-error'
    culprits = []
    for s, kv in conf:
        names = set(k.lower() for k, _ in kv)
        for k, v in kv:
            if type(v) is str and '%' in v:
                exp, obs = pct_expected(v, names - {k.lower()}), pct_observed(P, ctx.workdir, s, k, v)
                if exp == kind and obs == kind:
                    culprits.append((s, k, v))
    pl = {'config': conf_json, 'stage': stage, 'error': r[2], 'file_text': text}
    if not r[2].startswith(want_exc) or not culprits:
        ctx.fail('a supported option set cannot be %s: %s' % ('written' if stage == 'set' else 'read back', r[2]), pl)
        return None
    for s, k, v in culprits:
        known(FK_PERCENT, 'option %s.%s = %r: %s' % (s, k, v, r[2][:150]), dict(pl, section=s, option=k, value=v))
    gone = set((s, k) for s, k, _ in culprits)
    return [(s, [(k, v) for k, v in kv if (s, k) not in gone]) for s, kv in conf]


def value_outcome(v, got):
    """[] = read back exactly; [key] = v is of a known class and `got` is exactly that class's known outcome;
    None = anything else (an unkeyed violation)."""
    if same_value(got, v):
        return []
    if type(v) is float and not math.isfinite(v):
        return [FK_NONFINITE] if type(got) is str and got == repr(v) and got in ('inf', '-inf', 'nan') else None
    if type(v) is str:
        if '%' in v:
            exp = pct_expected(v)
            return [FK_PERCENT] if isinstance(exp, tuple) and exp[1] != v and same_value(got, exp[1]) else None
        if is_literal(v):
            return [FK_STR_LITERAL] if same_value(got, ast.literal_eval(v)) else None
        if v != v.strip():
            return [FK_WHITESPACE] if same_value(got, v.strip()) else None
    return None


def _prop_roundtrip(ctx, conf, r_sd, known, conf_json, text, dist):
    sd = dict((s, dict(kv)) for s, kv in r_sd[1])
    for s in sd:
        if s not in SECTIONS:
            ctx.fail('params_to_sections_dict returned the section %r, which the packaged defaults file does not have' % s,
                     {'section': s, 'config': conf_json, 'file_text': text})
    for s, kv in conf:
        if s not in SECTIONS:
            continue                     # the property speaks about the three packaged sections; others are compared with the model only
        got_d = sd.get(s, {})
        last = {}
        for k, v in kv:
            last[k.lower()] = (k, v)                 # configparser keeps one option per lower-cased name: the last set
        if sorted(got_d) != sorted(last):
            ctx.fail('section %s read back with the options %s, written %s' % (s, sorted(got_d), sorted(last)),
                     {'section': s, 'config': conf_json, 'file_text': text})
            continue
        for k, v in kv:
            dist['prop_checks'] += 1
            if type(v) is str and '\n' in v:
                continue
            lk = k.lower()
            wk, wv = last[lk]
            got = got_d[lk]
            pl = {'section': s, 'option': k, 'value': repr(v), 'read_back_under': lk, 'read_back': repr(got), 'config': conf_json, 'file_text': text}
            what = 'option %s.%s = %r read back as %s = %r' % (s, k, v, lk, got)
            if wk != k:
                # overwritten by a later option whose name differs in case only; the winner's value is checked at the winner
                known(FK_KEY_CASE, what + ' (overwritten by %r)' % wk, pl)
                continue
            keys = value_outcome(v, got) if not (type(v) is str and '\n' in v) else []
            if keys is None:
                ctx.fail(what, pl)
                continue
            if k != lk:
                keys = [FK_KEY_CASE] + keys          # the value under the lower-cased key is (up to its own class) the one written
            for fk in keys:
                known(fk, what, pl)


def _direct_nonascii(ctx, P, v, known):
    fn = os.path.join(ctx.workdir, 'na.cfg')
    r = attempt(lambda: (P.write_params(P.update_params({'out_dir': v}, section_name='conformer_generation'), fn),
                         P.params_to_sections_dict(fn)['conformer_generation']['out_dir'])[1])
    ctx.count(('nonascii', v), True)
    keys = value_outcome(v, r[1]) if r[0] == 'ok' else None
    pl = {'value': v, 'got': repr(r[1:])}
    if keys is None:
        ctx.fail('non-ASCII string value %r read back as %r' % (v, r[1:]), pl)
    for fk in keys or []:
        known(fk, 'non-ASCII string value %r read back as %r' % (v, r[1]), pl)


# --------------------------------------------------------------------------- hand-written INI texts
def _gen_ini(rng):
    lines = []
    nsec = rng.randint(0, 3)
    names = rng.sample(['fingerprinting', 'conformer_generation', 'preprocessing', 'other', 'A B', 'x]y', 'fingerprinting'], nsec) if nsec else []
    if rng.random() < 0.12:
        lines.append(rng.choice(['stray = 1', 'no header', '  indented = 2']))
    for n in names:
        if rng.random() < 0.3:
            lines.append(rng.choice(['# comment', '; comment', '', '   ', '  # indented comment']))
        lines.append(rng.choice(['[%s]', '[%s]', '[%s]  ', '  [%s]', '[%s] trailing']) % n)
        keys = rng.sample(['level', 'bits', 'first', 'Stereo', 'out_dir', 'k', 'two words', 'a.b', 'x-y', 'level'], rng.randint(0, 4))
        for k in keys:
            v = rng.choice(['5', '1.718', 'True', 'None', 'uff', 'a b', 'x = y', 'p:q', '', '  sp  ', '#notcomment', 'v ; w', '[v]', '%%', 'q%(z)s',
                            '-1', '2.5e-3', 'False', 'yes', '0x10', '1_000', 'None  ', '1.7182818284590453', 'true', '1e16', '-0.0', '2  ; two'])
            d = rng.choice([' = ', '=', ' : ', ':', ' =', '= ', '\t=\t'])
            lines.append(rng.choice(['', '', '', ' ']) + k + d + v)
            r = rng.random()
            if r < 0.15:
                lines.append(rng.choice(['  cont', '\tcont2', '   more = stuff', '  # c in value', '  [notsection]']))
                if rng.random() < 0.4:
                    lines.append(rng.choice(['', '  again', ' ; c']))
                    lines.append(rng.choice(['   deeper', 'next = 1', '']))
            elif r < 0.22:
                lines.append(rng.choice(['no delimiter here', '= novalue', '[broken', '[]']))
            elif r < 0.3:
                lines.append('')
    text = '\n'.join(lines)
    if rng.random() < 0.8:
        text += '\n'
    return text


# --------------------------------------------------------------------------- end to end
def _fp_obs(fps):
    out = []
    for f in fps:
        cnt = sorted((int(k), int(v)) for k, v in f.counts.items()) if hasattr(f, 'counts') else None
        out.append((type(f).__name__, int(f.bits), f.level, f.name, [int(i) for i in f.indices], cnt))
    return out


def _end_to_end(ctx, P, pipeline, dist, dmap):
    import glob
    from e3fp.conformer.util import mol_from_sdf
    rng = ctx.rng
    files = sorted(glob.glob(os.path.join(core.REPO, 'tests', 'data', '*.sdf.bz2')))
    if len(files) < 2:
        raise RuntimeError('test molecules not found under %s/tests/data' % core.REPO)
    files = files[:3] if ctx.quick else files
    typed_defaults = dict((k, ast.literal_eval(v) if is_literal(v) else v) for k, v in dmap['fingerprinting'].items())
    for fi, f in enumerate(files):
        mol = mol_from_sdf(f)
        for j in range(ctx.n(3, 12)):
            opts = {}
            pool = {'bits': [1024, 4096, 2 ** 32, 32], 'level': [0, 1, 2, 5, -1], 'first': [1, 2, -1], 'radius_multiplier': [1.718, 1.5, 2.0, 0.9, 1.7182818284590453, 1.718000000000001, 1.0 / 0.6],
                    'stereo': [True, False], 'counts': [True, False], 'include_disconnected': [True, False], 'rdkit_invariants': [True, False],
                    'remove_duplicate_substructs': [True, False], 'exclude_floating': [True, False]}
            for k in rng.sample(sorted(pool), rng.randint(1, 6)):
                opts[k] = rng.choice(pool[k])
            if opts.get('level') == -1 and opts.get('remove_duplicate_substructs') is False:
                opts['remove_duplicate_substructs'] = True    # the fingerprinter refuses "no termination condition" on both paths
            fn = os.path.join(ctx.workdir, 'e2e_%d_%d.cfg' % (fi, j))
            P.write_params(P.update_params(opts, section_name='fingerprinting'), fn)
            via_file = attempt(lambda: _fp_obs(pipeline.fprints_from_mol(mol, fprint_params=pipeline.params_to_dicts(fn)[1])))
            direct = attempt(lambda: _fp_obs(pipeline.fprints_from_mol(mol, fprint_params=dict(opts))))
            dist['e2e_runs'] += 1
            ctx.count(('e2e', os.path.basename(f), str(sorted(opts.items()))), True)
            if via_file != direct or via_file[0] != 'ok' or not via_file[1]:
                ctx.fail('fingerprints via a parameter file differ from those with the same options passed directly',
                         {'molecule': os.path.basename(f), 'options': repr(opts), 'via_file': repr(via_file)[:600], 'direct': repr(direct)[:600]})
            # with the packaged defaults filled in: equals passing defaults + options explicitly
            cp = P.read_params(fn, fill_defaults=True)
            via_fill = attempt(lambda: _fp_obs(pipeline.fprints_from_mol(mol, fprint_params=pipeline.params_to_dicts(cp)[1])))
            full = dict(typed_defaults)
            full.update(opts)
            direct_full = attempt(lambda: _fp_obs(pipeline.fprints_from_mol(mol, fprint_params=full)))
            dist['e2e_runs'] += 1
            if via_fill != direct_full or via_fill[0] != 'ok' or not via_fill[1]:
                ctx.fail('fingerprints via a parameter file completed with the packaged defaults differ from those with defaults + options passed directly',
                         {'molecule': os.path.basename(f), 'options': repr(opts), 'via_file': repr(via_fill)[:600], 'direct': repr(direct_full)[:600]})


def _conf_from_json(cj):
    env = {'inf': float('inf'), 'nan': float('nan')}
    return [(s, [(k, eval(r, {'__builtins__': {}}, env)) for k, r in kv]) for s, kv in cj]


def _replay_eval(ctx, label, expr, model_out):
    res, _ = core.coq_eval_bools([(0, expr)], IMPORTS, os.path.join(ctx.workdir, 'rp_%d' % len(os.listdir(ctx.workdir))))
    ok = res.get(0) is True
    print('  [%s] model vs implementation: %s' % (label, 'agree' if ok else 'DISAGREE' if res.get(0) is False else 'MODEL EVALUATION FAILED'))
    if not ok and model_out:
        print('     model: ' + core.coq_eval_raw(model_out, IMPORTS, os.path.join(ctx.workdir, 'rp_raw'))[-1500:].replace('\n', '\n     '))
    return ok


def _replay_config(ctx, P, pipeline, conf, forms, fills):
    bad = 0
    conf_json = [[s, [[k, repr(v)] for k, v in kv]] for s, kv in conf]
    conf_lit = core.listlit(['(%s, %s)' % (S(s), dict_lit(kv, value_lit)) for s, kv in conf])
    print('configuration: %s' % conf_json)
    known_hits, viol0 = [], len(ctx.violations)

    def known(fk, what, payload):
        known_hits.append((fk, what))
    for form in forms:
        fn = os.path.join(ctx.workdir, 'replay_%s.cfg' % form)

        def build():
            if form == 'single_section':
                params = None
                for s, kv in conf:
                    params = P.update_params(dict(kv), params=params, section_name=s)
            else:
                params = P.update_params(dict((s, dict(kv)) for s, kv in conf))
            P.write_params(params, fn)
            return open(fn).read()
        r_text = attempt(build)
        print(' update_params form %s -> %s' % (form, 'file written:\n' + r_text[1] if r_text[0] == 'ok' else 'raises ' + r_text[2]))
        mupd = 'update_all []' if form == 'single_section' else 'update_params_sections []'
        m = 'rbind (%s %s) (fun c => Ok (render c))' % (mupd, conf_lit)
        bad += not _replay_eval(ctx, 'write/' + form, 'result_match String.eqb (%s) %s' % (m, res_lit(r_text, S)), m)
        if r_text[0] != 'ok':
            red = _explain_failure(ctx, P, conf, 'set', r_text, known, conf_json, None)
            if red is not None:
                print(' -> explained by the known %-class; replaying the configuration without that option')
                bad += _replay_config(ctx, P, pipeline, red, [form], fills)
            continue
        text, tl = r_text[1], S(r_text[1])
        for fill in fills:
            def rd():
                cp = P.read_params(fn, fill_defaults=fill)
                return [(s, [(k, cp.get(s, k, raw=True)) for k in cp.options(s)]) for s in cp.sections()]
            r = attempt(rd)
            print(' read_params(fill_defaults=%s) -> %s' % (fill, r[1:]))
            m = 'read_params defaults_cfg_text %s (Some %s)' % (core.blit(fill), tl)
            bad += not _replay_eval(ctx, 'read fill=%s' % fill, 'result_match cfg_eqb (%s) %s' % (m, res_lit(r, cfg_lit)), m)
        r_sd = attempt(lambda: [(s, list(d.items())) for s, d in P.params_to_sections_dict(fn).items()])
        print(' params_to_sections_dict -> %s' % (r_sd[1:],))
        m = 'params_to_sections_dict defaults_cfg_text %s' % tl
        bad += not _replay_eval(ctx, 'sections_dict', 'result_match sdict_matches (%s) %s' % (
            m, res_lit(r_sd, lambda sd: core.listlit(['(%s, %s)' % (S(s), dict_lit(kv, obs_lit)) for s, kv in sd]))), m)
        r_pd = attempt(lambda: tuple(list(d.items()) for d in pipeline.params_to_dicts(fn)))
        print(' params_to_dicts -> %s' % (r_pd[1:],))
        m = 'params_to_dicts defaults_cfg_text %s' % tl
        bad += not _replay_eval(ctx, 'params_to_dicts', 'result_match (pair_match dict_matches dict_matches) (%s) %s' % (
            m, res_lit(r_pd, lambda pd: '(%s, %s)' % (dict_lit(pd[0], obs_lit), dict_lit(pd[1], obs_lit)))), m)
        r_sr = attempt(lambda: [(s, list(d.items())) for s, d in P.params_to_sections_dict(fn, auto=False).items()])
        print(' params_to_sections_dict(auto=False) -> %s' % (r_sr[1:],))
        if r_sr[0] != 'ok' or all(type(v) is str and G.modelled(v) for _, kv in r_sr[1] for _, v in kv):
            m = 'cov_sections_dict_raw defaults_cfg_text %s' % tl
            bad += not _replay_eval(ctx, 'sections_dict(auto=False)', 'result_match cfg_eqb (%s) %s' % (m, res_lit(r_sr, cfg_lit)), m)
        else:
            print('  a value that is not a string')
            bad += 1
        # typed getters: the fallback object comes back, never None
        if r_sd[0] == 'ok':
            cp_ = P.read_params(fn)
            sent_ = object()
            for s_, kv_ in conf:
                for k_, _ in kv_:
                    for pyt in (int, float, bool, str):
                        rg = attempt(lambda: P.get_value(cp_, s_, k_, dtype=pyt, fallback=sent_))
                        if rg[0] == 'ok' and rg[1] is not sent_ and type(rg[1]) is not pyt:
                            print('  get_value(%s.%s, dtype=%s, fallback=<object>) returned %r' % (s_, k_, pyt.__name__, rg[1]))
                            bad += 1
        if r_sd[0] != 'ok':
            red = _explain_failure(ctx, P, conf, 'read', r_sd, known, conf_json, text)
            if red is not None:
                print(' -> explained by the known %-class; replaying the configuration without that option')
                bad += _replay_config(ctx, P, pipeline, red, [form], fills)
        else:
            _prop_roundtrip(ctx, conf, r_sd, known, conf_json, text, {'prop_checks': 0})
    for fk, what in known_hits:
        print('  known class %s: %s' % (fk, what[:200]))
    for v in ctx.violations[viol0:]:
        print('  PROPERTY VIOLATED (no known class): %s' % v['what'][:300])
    del ctx.violations[viol0:]
    return bad


def replay(ctx, path):
    """Re-run the input recorded in a replay file on the implementation and on the model.
    Exit status 1 when the failure reproduces (model/implementation disagreement or an unkeyed property violation)."""
    import json
    import shutil
    d = json.load(open(path))
    case = d.get('case', {}) or {}
    print('replay of %s (%s, seed %s): %s' % (path, d.get('kind'), d.get('seed'), (d.get('what') or '')[:300]))
    try:
        core.coq_make(['theories/Properties/C20.vo'])
    except core.CoqBuildError as e:
        print('the Coq development does not build (a proof obligation is broken):\n' + e.log[-1500:])
        shutil.rmtree(ctx.workdir, ignore_errors=True)
        return 1
    from e3fp.config import params as P
    from e3fp import pipeline
    bad = 0
    nviol = [0]
    try:
        cov = COV.replay_case(ctx, sys.modules[__name__], P, pipeline, case) if isinstance(case, dict) else None
        if cov is not None:
            bad += cov
        elif 'config' in case:
            conf = _conf_from_json(case['config'])
            forms = [case['update_params_form']] if case.get('update_params_form') else ['single_section', 'sections_dict']
            fills = [case['fill_defaults']] if 'fill_defaults' in case else [False, True]
            orig_fail = ctx.fail

            def counting_fail(what, payload, finding_key=None, **kw):
                if finding_key is None:
                    nviol[0] += 1
                return orig_fail(what, payload, finding_key=finding_key, **kw)
            ctx.fail = counting_fail
            bad += _replay_config(ctx, P, pipeline, conf, forms, fills)
            ctx.fail = orig_fail
            bad += nviol[0]
        elif 'string' in case:
            s = case['string']
            try:
                o = obs_lit(ast.literal_eval(s))
            except NOT_LITERAL:
                o = obs_lit(s)
            print('string %r: ast.literal_eval / get_value(auto) observation %s; py_plain_word %s' % (s, o, py_plain_word(s)))
            bad += not _replay_eval(ctx, 'literal', 'cls_matches (classify %s) %s && Bool.eqb (plain_word %s) %s' % (S(s), o, S(s), core.blit(py_plain_word(s))),
                                    '(classify %s, plain_word %s)' % (S(s), S(s)))
        elif 'text' in case:
            fn = os.path.join(ctx.workdir, 'replay.cfg')
            open(fn, 'w').write(case['text'])

            def rd():
                cp = P.read_params(fn)
                return [(s, [(k, cp.get(s, k, raw=True)) for k in cp.options(s)]) for s in cp.sections()]
            r = attempt(rd)
            print('text:\n%s\nConfigParser -> %s' % (case['text'], r[1:]))
            bad += not _replay_eval(ctx, 'ini', 'result_match cfg_eqb (parse_file %s) %s' % (S(case['text']), res_lit(r, cfg_lit)), 'parse_file %s' % S(case['text']))
            if case.get('typed') and r[0] == 'ok':
                def rdfill():
                    cp = P.read_params(fn, fill_defaults=True)
                    return [(s, [(k, cp.get(s, k, raw=True)) for k in cp.options(s)]) for s in cp.sections()]
                r_f = attempt(rdfill)
                r_sd = attempt(lambda: [(s, list(d.items())) for s, d in P.params_to_sections_dict(fn).items()])
                r_pd = attempt(lambda: tuple(list(d.items()) for d in pipeline.params_to_dicts(fn)))
                print('read_params(fill_defaults=True) -> %s\nparams_to_sections_dict -> %s\nparams_to_dicts -> %s' % (r_f[1:], r_sd[1:], r_pd[1:]))
                tl = S(case['text'])
                bad += not _replay_eval(ctx, 'read on top of the defaults', 'result_match cfg_eqb (read_params defaults_cfg_text true (Some %s)) %s' % (tl, res_lit(r_f, cfg_lit)),
                                        'read_params defaults_cfg_text true (Some %s)' % tl)
                bad += not _replay_eval(ctx, 'sections_dict', 'result_match sdict_matches (params_to_sections_dict defaults_cfg_text %s) %s' % (
                    tl, res_lit(r_sd, lambda sd: core.listlit(['(%s, %s)' % (S(s), dict_lit(kv, obs_lit)) for s, kv in sd]))), 'params_to_sections_dict defaults_cfg_text %s' % tl)
                bad += not _replay_eval(ctx, 'params_to_dicts', 'result_match (pair_match dict_matches dict_matches) (params_to_dicts defaults_cfg_text %s) %s' % (
                    tl, res_lit(r_pd, lambda pd: '(%s, %s)' % (dict_lit(pd[0], obs_lit), dict_lit(pd[1], obs_lit)))), 'params_to_dicts defaults_cfg_text %s' % tl)
        elif 'token' in case:
            tok = case['token']
            fl = G.ftok_literal(tok)
            print('float token %r -> %s' % (tok, fl))
            bad += fl is None or not _replay_eval(ctx, 'float token', 'ftok_ok %s && String.eqb (render_ftok %s) %s && fval_close (float_value %s) %s'
                                                  % (fl, fl, S(tok), S(tok), fval_lit(float(tok))), '(render_ftok %s, float_value %s)' % (fl, S(tok)))
        elif 'entry_point' in case:
            eps = dict((n, d_) for n, _, _, d_ in G.entry_point_defaults())
            _, _, parsed = G.defaults_file()
            raw = dict(parsed)[case['section']]
            raw = dict(raw)[case['option']]
            have = eps[case['entry_point']].get(case['option'])
            want = ast.literal_eval(raw) if is_literal(raw) else raw
            if case['section'] == 'fingerprinting' and case['option'] == 'bits':
                from e3fp.fingerprint import fprinter
                want = fprinter.BITS
            same = same_value(have, want)
            print('%s: default of %s in the code = %r; defaults.cfg [%s] %s = %s (typed %r) -> %s'
                  % (case['entry_point'], case['option'], have, case['section'], case['option'], raw, want, 'coherent' if same else 'NOT coherent'))
            bad += not same
        elif 'molecule' in case:
            import glob
            from e3fp.conformer.util import mol_from_sdf
            f = os.path.join(core.REPO, 'tests', 'data', case['molecule'])
            opts = eval(case['options'], {'__builtins__': {}}, {})
            mol = mol_from_sdf(f)
            fn = os.path.join(ctx.workdir, 'replay_e2e.cfg')
            P.write_params(P.update_params(opts, section_name='fingerprinting'), fn)
            a = attempt(lambda: _fp_obs(pipeline.fprints_from_mol(mol, fprint_params=pipeline.params_to_dicts(fn)[1])))
            b = attempt(lambda: _fp_obs(pipeline.fprints_from_mol(mol, fprint_params=dict(opts))))
            print('molecule %s options %r\n via file: %s\n direct  : %s\n -> %s' % (case['molecule'], opts, repr(a)[:400], repr(b)[:400], 'equal' if a == b else 'DIFFERENT'))
            bad += a != b
        else:
            print(json.dumps(d, indent=1)[:6000])
            print('(no re-runnable input in this replay file: %s)' % ('broken proof obligation' if d.get('kind') == 'proof-obligation' else d.get('kind')))
            bad += 1 if d.get('kind') == 'proof-obligation' else 0
    finally:
        shutil.rmtree(ctx.workdir, ignore_errors=True)
    print('replay: %s' % ('the failure REPRODUCES' if bad else 'does not reproduce on this tree'))
    return 1 if bad else 0
