"""C20 - coverage extension (part module of c20.py; see /verif/work/coverage_C20.md for the audit table).

Streams added here (all counted in ctx.coverage['input_distribution']['cov']):
  api_read      read_params(None) / a missing file / pathlib and bytes paths / a ConfigParser object (fill_defaults ignored),
                params_to_sections_dict / params_to_dicts on parser objects and paths, independence of repeated results
  api_update    update_params on top of a USER file or a parser object: sections-dict and single-section forms,
                positional and keyword calls, fill_defaults True/False - raw items and written text against the model
  api_getters   get_value on hand-picked raw values x every dtype: int()/float()/BOOLEAN_STATES oracles and the model;
                the fallback OBJECT is returned (identity), the default fallback is None, positional calls, auto ignores dtype
  dflt_getters  get_default_value for every option of defaults.cfg, typed and auto, against the model
  numpy         numpy integer / float64 / bool_ option values read back as the equal Python value
  e2e_confs     fingerprints of molecules WITH SEVERAL CONFORMERS (so that `first` matters) via a file that also carries
                decoy sections; level/bits None
  e2e_fprun     e3fp.fingerprint.generate.run(params=file) against run(<the same options as keywords>): databases equal;
                contradicting keywords next to params= must lose
  e2e_confgen   conformer options through a file: confs_from_smiles / fprints_from_smiles / generate_conformers(save=True)
                (out_dir, compress) / e3fp.conformer.generate.run(params=file) against the same options passed directly
"""
import ast
import math
import os
import pathlib
import shutil

import core
import config_gen as G

S = G.coq_string

# Gallina helper of the correspondence (no theorem is stated about it): params_to_sections_dict(file, auto=False) keeps the
# interpolated strings; same traversal as Config.sections_dict without the classification.
PRELUDE = '''Fixpoint cov_raw_section (s : section) : result section :=
  match s with
  | [] => Ok []
  | (k, v) :: t => rbind (interpolate v) (fun v' => rbind (cov_raw_section t) (fun r => Ok ((k, v') :: r)))
  end.
Fixpoint cov_raw_sections_dict (known : list string) (c : cfg) : result cfg :=
  match known with
  | [] => Ok []
  | sn :: t => match alookup sn c with
               | Some s => rbind (cov_raw_section s) (fun d => rbind (cov_raw_sections_dict t c) (fun r => Ok ((sn, d) :: r)))
               | None => cov_raw_sections_dict t c
               end
  end.
Definition cov_sections_dict_raw (defaults_text user_text : string) : result cfg :=
  rbind (parse_file defaults_text) (fun dc =>
  rbind (read_params defaults_text false (Some user_text)) (fun c => cov_raw_sections_dict (map fst dc) c)).
Definition cov_id (b : bool) : bool := b.'''

# raw option values for the typed getters: integers with signs / blanks / underscores / leading zeros, float spellings,
# every BOOLEAN_STATES word in several cases, non-values
GETTER_VALUES = ['5', ' 7 ', '+7', '-0', '007', '1_0', '1e3', '1.5', '.5', '5.', '-2.5e-3', 'inf', '-Infinity', 'nan', 'NaN', 'None',
                 'True', 'true', 'yes', 'Yes', 'on', 'ON', 'off', 'Off', 'no', 'No', '0', '1', 'false', 'FALSE', 'tRuE', 'x', '',
                 '0x1F', '1e400', '2', '1.0', '-1', '1 000', '1,5', 'uff', '1_000.5', '٣']

SMILES = [('CCOC(=O)CN', 'gly-et'), ('CC(C)Cc1ccccc1', 'ibu-core'), ('C[C@H](N)C(=O)O', 'ala'), ('OCC(O)CO', 'glycerol'),
          ('CC(=O)Nc1ccc(O)cc1', 'apap')]


def raw_items(cp):
    return [(s, [(k, cp.get(s, k, raw=True)) for k in cp.options(s)]) for s in cp.sections()]


def plain_conf(C, rng):
    """a configuration whose values can always be written (no tricky strings)"""
    return C.gen_config(rng, extras=True)


def run_part(ctx, C, P, pipeline, env):
    rng = ctx.rng
    add_case, known, dist = env['add_case'], env['known'], env['dist']
    dpath, dparsed = env['defaults_path'], env['defaults_parsed']
    cov = dist.setdefault('cov', {})
    nv0 = len(ctx.violations)

    def bump(k, n=1):
        cov[k] = cov.get(k, 0) + n

    import time
    t_start = time.time()
    conf_lit_of = lambda conf: core.listlit(['(%s, %s)' % (S(s), C.dict_lit(kv, C.value_lit)) for s, kv in conf])
    conf_json_of = lambda conf: [[s, [[k, repr(v)] for k, v in kv]] for s, kv in conf]

    def write_conf(conf, fn):
        params = P.update_params(dict((s, dict(kv)) for s, kv in conf))
        P.write_params(params, fn)
        return open(fn).read()

    # ---- api_read ---------------------------------------------------------------------------------------------
    missing = os.path.join(ctx.workdir, 'no', 'such', 'file.cfg')
    variants = [('read_params()', lambda: P.read_params(), False), ('read_params(None, True)', lambda: P.read_params(None, True), True),
                ('read_params(params=None, fill_defaults=False)', lambda: P.read_params(params=None, fill_defaults=False), False),
                ('read_params(fill_defaults=True)', lambda: P.read_params(fill_defaults=True), True),
                ('read_params(<missing file>)', lambda: P.read_params(missing), False),
                ('read_params(<missing file>, fill_defaults=True)', lambda: P.read_params(missing, fill_defaults=True), True),
                ('read_params(pathlib <missing file>, True)', lambda: P.read_params(pathlib.Path(missing), True), True)]
    for i, (label, f, fill) in enumerate(variants):
        r = C.attempt(lambda: raw_items(f()))
        add_case('api_read', 'cov/read_none/%d' % i,
                 'result_match cfg_eqb (read_params defaults_cfg_text %s None) %s' % (core.blit(fill), C.res_lit(r, C.cfg_lit)),
                 {'call': label, 'impl_raw_items_or_error': r[1:]}, 'read_params defaults_cfg_text %s None' % core.blit(fill))
        ctx.count(('cov', 'read_none', label), True)
        bump('read_params_without_a_user_file')
    r = C.attempt(lambda: (P.params_to_sections_dict(missing), pipeline.params_to_dicts(missing)))
    if r != ('ok', ({}, ({}, {}))):
        ctx.fail('params_to_sections_dict / params_to_dicts of a missing file are not empty', {'got': repr(r[1:])})
    for i in range(ctx.n(16, 160)):
        conf = C.gen_config(rng, extras=True)
        ctx.count(('cov', 'read', str(conf_json_of(conf))), True)
        _api_read_one(C, P, pipeline, conf, os.path.join(ctx.workdir, 'cov_read_%d.cfg' % i), bump, ctx.fail)

    # ---- api_update: update_params on a user file / parser object ------------------------------------------------
    forms = ['sd_file', 'sd_file_positional', 'single_file', 'sd_obj', 'single_obj', 'single_file_positional']
    for i in range(ctx.n(120, 900)):
        base = C.gen_config(rng, extras=True)
        conf = C.gen_config(rng, extras=True, odd_keys=True)
        fill = rng.random() < 0.5
        form = forms[i % len(forms)]
        bfn = os.path.join(ctx.workdir, 'cov_base_%d.cfg' % i)
        ofn = os.path.join(ctx.workdir, 'cov_upd_%d.cfg' % i)
        r_b = C.attempt(lambda: write_conf(base, bfn))
        if r_b[0] != 'ok':
            ctx.fail('a supported option set cannot be written: %s' % r_b[2], {'config': conf_json_of(base)})
            continue
        sd = dict((s, dict(kv)) for s, kv in conf)

        def upd():
            if form == 'sd_file':
                cp = P.update_params(sd, params=bfn, fill_defaults=fill)
            elif form == 'sd_file_positional':
                cp = P.update_params(sd, bfn, None, fill)
            elif form == 'sd_obj':
                cp = P.update_params(sd, params=P.read_params(bfn, fill_defaults=fill), fill_defaults=not fill)
            else:
                cp = bfn if form != 'single_obj' else P.read_params(bfn, fill_defaults=fill)
                for j, (s, kv) in enumerate(conf):
                    if form == 'single_file_positional':
                        cp = P.update_params(dict(kv), cp, s, fill)
                    else:
                        cp = P.update_params(dict(kv), params=cp, section_name=s, fill_defaults=(fill if j == 0 else not fill))
            items = raw_items(cp)
            P.write_params(cp, ofn)
            return items, open(ofn).read()
        r = C.attempt(upd)
        m = 'rbind (read_params defaults_cfg_text %s (Some bt)) (fun b => rbind (update_all b %s) (fun c => Ok (c, render c)))' % (core.blit(fill), conf_lit_of(conf))
        add_case('api_update', 'cov/update/%d' % i,
                 'let bt := %s in result_match (pair_match cfg_eqb String.eqb) (%s) %s'
                 % (S(r_b[1]), m, C.res_lit(r, lambda x: '(%s, %s)' % (C.cfg_lit(x[0]), S(x[1])))),
                 {'base_config': conf_json_of(base), 'base_file_text': r_b[1], 'config': conf_json_of(conf), 'call_form': form, 'fill_defaults': fill,
                  'impl_items_and_text_or_error': repr(r[1:])[:2500]}, 'let bt := %s in %s' % (S(r_b[1]), m))
        ctx.count(('cov', 'update', form, str(conf_json_of(base)), str(conf_json_of(conf))), True)
        bump('update_on_user_file:' + form)

    # ---- api_getters ------------------------------------------------------------------------------------------------
    _getters(ctx, C, P, add_case, bump)

    # ---- dflt_getters: get_default_value for every option of the packaged file ----------------------------------------------
    qs = []
    for s, kv in dparsed:
        for k, raw in kv:
            for q in _getter_queries(C, lambda **kw: P.get_default_value(s, k, **kw), s, k):
                qs.append(q)
                bump('get_default_value_queries')
            ctx.count(('cov', 'dflt_get', s, k), True)
    add_case('dflt_getters', 'cov/dflt_getters',
             'match parse_file defaults_cfg_text with Ok c => forallb cov_id %s | Raises _ => false end' % core.listlit(qs),
             {'queries': qs}, 'match parse_file defaults_cfg_text with Ok c => %s | Raises _ => [] end' % core.listlit(qs))

    # ---- numpy scalars ----------------------------------------------------------------------------------------------------
    _numpy_values(ctx, C, P, bump)

    # ---- write_params with its default file name (in the current directory), keywords ---------------------------------------
    cwd = os.getcwd()
    sub = os.path.join(ctx.workdir, 'cwd')
    os.makedirs(sub, exist_ok=True)
    try:
        os.chdir(sub)
        cp = P.update_params({'level': 3, 'radius_multiplier': 1.5}, section_name='fingerprinting')
        r = C.attempt(lambda: (P.write_params(cp), P.write_params(params_file='kw.cfg', params=cp),
                               P.params_to_sections_dict('params.cfg'), P.params_to_sections_dict('kw.cfg'))[2:])
    finally:
        os.chdir(cwd)
    bump('write_params_default_file_name')
    want = {'fingerprinting': {'level': 3, 'radius_multiplier': 1.5}}
    if r != ('ok', (want, want)):
        ctx.fail('write_params(params) / write_params(params_file=, params=) did not write params.cfg / the named file', {'got': repr(r[1:])})

    cov['seconds_api_streams'] = round(time.time() - t_start, 1)
    # ---- end to end ---------------------------------------------------------------------------------------------------------
    import time
    for f in (_e2e_routing, _e2e_confs, _e2e_fprun, _e2e_confgen):
        t0 = time.time()
        f(ctx, C, P, pipeline, env, bump)
        cov['seconds' + f.__name__] = round(time.time() - t0, 1)

    # ---- the cached defaults survived the whole history ---------------------------------------------------------------------
    try:
        G.defaults_file()
    except G.FactsError as e:
        ctx.fail('after the run the cached default_params no longer equal a fresh reading of defaults.cfg: %s' % e, {'error': str(e)})
    return len(ctx.violations) > nv0


def _api_read_one(C, P, pipeline, conf, fn, bump, fail):
    """One configuration through every way of handing a parameter source to the readers; `fail(what, payload)`."""
    cj = [[s, [[k, repr(v)] for k, v in kv]] for s, kv in conf]

    def write_conf():
        P.write_params(P.update_params(dict((s, dict(kv)) for s, kv in conf)), fn)
        return open(fn).read()
    r_w = C.attempt(write_conf)
    if r_w[0] != 'ok':
        fail('a supported option set cannot be written: %s' % r_w[2], {'stream': 'api_read', 'config': cj})
        return
    base = {'stream': 'api_read', 'config': cj, 'file_text': r_w[1]}
    for fill in (False, True):
        want = C.attempt(lambda: raw_items(P.read_params(fn, fill_defaults=fill)))
        for label, f in (('pathlib.Path', lambda: P.read_params(pathlib.Path(fn), fill_defaults=fill)),
                         ('bytes path', lambda: P.read_params(os.fsencode(fn), fill)),
                         ('keywords', lambda: P.read_params(fill_defaults=fill, params=fn))):
            got = C.attempt(lambda: raw_items(f()))
            bump('read_params_path_variants')
            if got != want:
                fail('read_params(%s) differs from read_params(str path)' % label,
                     dict(base, fill_defaults=fill, str_path=repr(want[1:])[:800], variant=repr(got[1:])[:800]))
        # a parser object: returned as it is, whatever fill_defaults says
        if want[0] == 'ok':
            obj = P.read_params(fn, fill_defaults=fill)
            for fill2 in (False, True):
                got = C.attempt(lambda: raw_items(P.read_params(obj, fill_defaults=fill2)))
                bump('read_params_parser_object')
                if got != want:
                    fail('read_params(<ConfigParser>, fill_defaults=%s) does not return the options of the parser given' % fill2,
                         dict(base, parser_read_with_fill_defaults=fill, expected=repr(want[1:])[:800], got=repr(got[1:])[:800]))
    # typed dictionaries: path variants and parser objects give what the str path gives; results are independent objects
    want_sd = C.attempt(lambda: P.params_to_sections_dict(fn))
    want_pd = C.attempt(lambda: pipeline.params_to_dicts(fn))
    if want_sd[0] == 'ok':
        obj = P.read_params(fn)
        for label, f in (('params_to_sections_dict(pathlib.Path)', lambda: P.params_to_sections_dict(pathlib.Path(fn))),
                         ('params_to_sections_dict(<ConfigParser>)', lambda: P.params_to_sections_dict(obj)),
                         ('params_to_sections_dict(params=, auto=True)', lambda: P.params_to_sections_dict(params=fn, auto=True)),
                         ('params_to_sections_dict(path, True)', lambda: P.params_to_sections_dict(fn, True))):
            got = C.attempt(f)
            bump('typed_dict_variants')
            if not _same_tree(C, got, want_sd):
                fail('%s differs from params_to_sections_dict(str path)' % label, dict(base, expected=repr(want_sd[1:])[:800], got=repr(got[1:])[:800]))
        for label, f in (('params_to_dicts(<ConfigParser>)', lambda: pipeline.params_to_dicts(obj)),
                         ('params_to_dicts(params=path)', lambda: pipeline.params_to_dicts(params=fn))):
            got = C.attempt(f)
            bump('typed_dict_variants')
            if not _same_tree(C, got, want_pd):
                fail('%s differs from params_to_dicts(str path)' % label, dict(base, expected=repr(want_pd[1:])[:800], got=repr(got[1:])[:800]))
        # mutate the first result, ask again
        if want_pd[0] == 'ok':
            first = pipeline.params_to_dicts(fn)
            snapshot = repr(first)
            first[0].clear()
            first[1]['level'] = 'overwritten by the caller'
            again = pipeline.params_to_dicts(fn)
            bump('repeated_typed_dicts')
            if repr(again) != snapshot:
                fail('params_to_dicts returns something else after the caller modified an earlier result', dict(base, first=snapshot[:800], second=repr(again)[:800]))


def _same_tree(C, a, b):
    """equal outcomes; values compared type-exactly (1 vs True vs 1.0, nan == nan)"""
    if a[0] != b[0]:
        return False
    if a[0] != 'ok':
        return a[1] == b[1]

    def eq(x, y):
        if isinstance(x, dict) and isinstance(y, dict):
            return list(x) == list(y) and all(eq(x[k], y[k]) for k in x)
        if isinstance(x, (tuple, list)) and type(x) is type(y):
            return len(x) == len(y) and all(eq(p, q) for p, q in zip(x, y))
        if type(x) in (int, float, bool, str, type(None)):
            return C.same_value(x, y)
        return type(x) is type(y) and repr(x) == repr(y)
    return eq(a[1], b[1])


# --------------------------------------------------------------------------- getters
def _getter_queries(C, get, s, k):
    """Model queries for one option: the four typed getters and auto, observed through `get(**kwargs)`."""
    out = []
    sent = object()
    for dt, fn_m, cmp_m, lit_f in (('int', 'get_int', 'oZ_eqb', lambda x: core.optlit(x, C.zlit)), ('float', 'get_float', 'ofval_close', lambda x: core.optlit(x, C.fval_lit)),
                                   ('bool', 'get_bool', 'obool_eqb', lambda x: core.optlit(x, core.blit)), ('str', 'get_str', 'String.eqb', S)):
        pyt = {'int': int, 'float': float, 'bool': bool, 'str': str}[dt]
        rg = C.attempt(lambda: get(dtype=pyt, fallback=sent))
        if rg[0] == 'ok':
            v = rg[1]
            if dt == 'str':
                if v is sent or not (type(v) is str and G.modelled(v)):
                    continue
                rl = '(Ok %s)' % S(v)
            else:
                if v is not sent and type(v) is not pyt:
                    rl = '(Raises EType)'      # never what the model says: reported by the comparison
                else:
                    rl = '(Ok %s)' % lit_f(None if v is sent else v)
        else:
            rl = '(Raises %s)' % rg[1]
        out.append('result_match %s (%s c %s %s) %s' % (cmp_m, fn_m, S(s), S(k), rl))
    rg = C.attempt(lambda: get(auto=True, fallback=sent))
    out.append('result_match cls_matches (get_auto c %s %s) %s' % (S(s), S(k), C.res_lit(rg, C.obs_lit)))
    return out


def _getters(ctx, C, P, add_case, bump):
    import configparser
    sec = 'fingerprinting'
    vals = [(('k%d' % i), v) for i, v in enumerate(GETTER_VALUES)]
    cp_mem = P.update_params(dict(vals), section_name=sec)           # raw values kept as given (blanks included)
    fn = os.path.join(ctx.workdir, 'cov_getters.cfg')
    P.write_params(cp_mem, fn)
    cp_file = P.read_params(fn)                                      # values as a file gives them (stripped)
    states = configparser.ConfigParser.BOOLEAN_STATES
    sent = object()

    def oracle(raw, dt):
        try:
            if dt is int:
                return int(raw)
            if dt is float:
                return float(raw)
            if dt is bool:
                return states[raw.lower()] if raw.lower() in states else sent
            return raw
        except ValueError:
            return sent

    for where, cp in (('parser object', cp_mem), ('file', cp_file)):
        qs = []
        for k, v in vals:
            raw = cp.get(sec, k, raw=True)
            for dt in (int, float, bool, str):
                want = oracle(raw, dt)
                calls = [('dtype=, fallback=', lambda: P.get_value(cp, sec, k, dtype=dt, fallback=sent), want),
                         ('positional', lambda: P.get_value(cp, sec, k, dt, False, sent), want),
                         ('no fallback given', lambda: P.get_value(cp, sec, k, dt), None if want is sent else want),
                         ('all keywords', lambda: P.get_value(params=cp, section_name=sec, param_name=k, dtype=dt, auto=False, fallback=sent), want)]
                for label, f, w in calls:
                    r = C.attempt(f)
                    bump('getter_direct_calls')
                    good = r[0] == 'ok' and (r[1] is w if (w is sent or w is None) else C.same_value(r[1], w))
                    if not good:
                        ctx.fail('get_value(%s) of the raw value %r as %s: expected %s' % (label, raw, dt.__name__, 'the fallback object' if w is sent else repr(w)),
                                 {'raw_value': raw, 'dtype': dt.__name__, 'call': label, 'parser_from': where, 'got': repr(r[1:])[:300],
                                  'expected': 'the fallback object given' if w is sent else repr(w)})
            # auto: the dtype is ignored; literal or the string itself
            try:
                want = ast.literal_eval(raw)
            except C.NOT_LITERAL:
                want = raw
            for label, f in (('auto=True', lambda: P.get_value(cp, sec, k, auto=True)), ('dtype=int, auto=True', lambda: P.get_value(cp, sec, k, int, True, sent)),
                             ('dtype=bool, auto=True', lambda: P.get_value(cp, sec, k, dtype=bool, auto=True))):
                r = C.attempt(f)
                bump('getter_direct_calls')
                if not (r[0] == 'ok' and _same_tree(C, ('ok', r[1]), ('ok', want))):
                    ctx.fail('get_value(%s) of the raw value %r: expected %r' % (label, raw, want),
                             {'raw_value': raw, 'call': label, 'parser_from': where, 'got': repr(r[1:])[:300]})
            # default dtype is str
            r = C.attempt(lambda: P.get_value(cp, sec, k))
            if r != ('ok', raw):
                ctx.fail('get_value without dtype does not return the string %r' % raw, {'raw_value': raw, 'got': repr(r[1:])[:300]})
            if G.modelled(raw):
                qs += _getter_queries(C, lambda **kw: P.get_value(cp, sec, k, **kw), sec, k)
            ctx.count(('cov', 'getters', where, k, v), True)
        # absent option / section: the exception, never the fallback
        for s_, k_ in ((sec, 'nosuch'), ('nosuch', 'k0')):
            for kw in ({'dtype': int}, {'dtype': str}, {'auto': True}):
                r = C.attempt(lambda: P.get_value(cp, s_, k_, fallback=sent, **kw))
                bump('getter_direct_calls')
                if not (r[0] == 'err' and r[1] == 'EKey'):
                    ctx.fail('get_value of an absent option does not raise NoOptionError / NoSectionError', {'section': s_, 'option': k_, 'kwargs': repr(kw), 'got': repr(r[1:])[:300]})
        items = [(sec, [(k, cp.get(sec, k, raw=True)) for k, _ in vals if G.modelled(cp.get(sec, k, raw=True))])]
        add_case('api_getters', 'cov/getters/%s' % where.split()[0],
                 'let c := %s in forallb cov_id %s' % (C.cfg_lit(items), core.listlit(qs)),
                 {'parser_from': where, 'raw_values': [v for _, v in items[0][1]], 'queries': qs},
                 'let c := %s in %s' % (C.cfg_lit(items), core.listlit(qs)))


# --------------------------------------------------------------------------- numpy scalars
def _numpy_values(ctx, C, P, bump):
    import numpy as np
    rng = ctx.rng
    fn = os.path.join(ctx.workdir, 'cov_numpy.cfg')
    makers = [('int64', lambda: np.int64(rng.choice([0, 1, -1, 5, 1024, 2 ** 32, -2 ** 63, 2 ** 63 - 1, rng.randint(-10 ** 9, 10 ** 9)]))),
              ('int32', lambda: np.int32(rng.choice([0, -1, 3, 2 ** 31 - 1, rng.randint(-10 ** 6, 10 ** 6)]))),
              ('uint8', lambda: np.uint8(rng.randint(0, 255))), ('int16', lambda: np.int16(rng.randint(-2 ** 15, 2 ** 15 - 1))),
              ('uint64', lambda: np.uint64(rng.choice([2 ** 64 - 1, 2 ** 63, rng.getrandbits(64)]))),
              ('float64', lambda: np.float64(C.gen_float(rng, nonfinite=False))), ('bool_', lambda: np.bool_(rng.random() < 0.5)),
              ('intp', lambda: np.intp(rng.randint(-5, 5)))]
    for i in range(ctx.n(48, 480)):
        tname, mk = makers[i % len(makers)]
        v = mk()
        want = v.item()
        sec, k = rng.choice([('fingerprinting', 'bits'), ('fingerprinting', 'level'), ('fingerprinting', 'radius_multiplier'),
                             ('conformer_generation', 'seed'), ('preprocessing', 'standardise'), ('fingerprinting', 'extra')])
        r = C.attempt(lambda: (P.write_params(P.update_params({k: v}, section_name=sec), fn), P.params_to_sections_dict(fn)[sec][k])[1])
        bump('numpy_scalar_values:' + tname)
        ctx.count(('cov', 'numpy', tname, repr(want)), True)
        if not (r[0] == 'ok' and C.same_value(r[1], want)):
            ctx.fail('numpy scalar option value %r (%s) does not read back as the Python value %r' % (v, tname, want),
                     {'numpy_type': tname, 'value': repr(want), 'file_text': open(fn).read() if os.path.exists(fn) else None, 'got': repr(r[1:])[:300]},
                     finding_key='C20:numpy-scalar:%s' % tname)


# --------------------------------------------------------------------------- end to end
FP_POOL = {'bits': [1024, 4096, 2 ** 32, 32, None, -1], 'level': [0, 1, 2, 5, -1, None], 'first': [1, 2, 3, -1],
           'radius_multiplier': [1.718, 1.5, 2.0, 0.9, 1.7182818284590453, 1.718000000000001, 1.0 / 0.6],
           'stereo': [True, False], 'counts': [True, False], 'include_disconnected': [True, False], 'rdkit_invariants': [True, False],
           'remove_duplicate_substructs': [True, False], 'exclude_floating': [True, False]}
CG_POOL = {'num_conf': [1, 2, 3, 4, -1], 'first': [-1, 1, 2], 'pool_multiplier': [1, 2, 3], 'rmsd_cutoff': [0.5, 0.1, 1.0, 0.30000000000000004, 0.05],
           'max_energy_diff': [None, 5.0, 0.5, 20.0, 1.0000000000000002], 'forcefield': ['uff', 'mmff94', 'mmff94s'],
           'seed': [42, 7, 0, 123456789, 2 ** 31 - 1]}


def _draw_fp_opts(rng, pool, kmin=1, kmax=6, always=()):
    opts = {}
    keys = sorted(set(rng.sample(sorted(pool), rng.randint(kmin, min(kmax, len(pool))))) | set(always))
    rng.shuffle(keys)
    for k in keys:
        opts[k] = rng.choice(pool[k])
    if opts.get('level', 5) in (-1, None) and opts.get('remove_duplicate_substructs') is False:
        opts['remove_duplicate_substructs'] = True    # "no termination condition" is refused on both paths
    return opts


def _multi_conf_mols(ctx, nconf=3):
    import pipe_gen as PG
    out = []
    for tag, m in PG.shipped_mols(8):
        if m.GetNumConformers() >= nconf:
            out.append((tag, PG.make_mol(m, nconf, tag)))
    if not out:
        raise RuntimeError('no shipped molecule with %d conformers under tests/data' % nconf)
    return out


def _e2e_confs(ctx, C, P, pipeline, env, bump):
    rng = ctx.rng
    mols = _multi_conf_mols(ctx)
    mols = mols[:2] if ctx.quick else mols
    for mi, (tag, mol) in enumerate(mols):
        for j in range(ctx.n(4, 12)):
            opts = _draw_fp_opts(rng, FP_POOL, always=('first',) if j % 2 == 0 else ())
            # decoy sections: the same option names with other values must not leak into the fingerprinting dict
            sd = {'conformer_generation': {'first': rng.choice([1, 2, -1]), 'num_conf': 7, 'seed': 5, 'level': 0, 'bits': 64},
                  'fingerprinting': opts, 'preprocessing': {'standardise': True, 'counts': not opts.get('counts', False), 'stereo': not opts.get('stereo', True)}}
            order = sorted(sd)
            rng.shuffle(order)
            fn = os.path.join(ctx.workdir, 'cov_e2e_%d_%d.cfg' % (mi, j))
            P.write_params(P.update_params(dict((s, sd[s]) for s in order)), fn)
            direct = C.attempt(lambda: C._fp_obs(pipeline.fprints_from_mol(mol, fprint_params=dict(opts))))
            for label, f in (('params_to_dicts(path)', lambda: pipeline.params_to_dicts(fn)[1]),
                             ('params_to_dicts(read_params(path))', lambda: pipeline.params_to_dicts(P.read_params(fn))[1]),
                             ('params_to_sections_dict(path)["fingerprinting"]', lambda: P.params_to_sections_dict(fn)['fingerprinting'])):
                via = C.attempt(lambda: C._fp_obs(pipeline.fprints_from_mol(mol, fprint_params=f())))
                bump('e2e_multi_conformer_runs')
                env['dist']['e2e_runs'] += 1
                if via != direct or via[0] != 'ok' or not via[1]:
                    ctx.fail('fingerprints via a parameter file differ from those with the same options passed directly',
                             {'molecule': tag, 'conformers': mol.GetNumConformers(), 'options': repr(opts), 'file_text': open(fn).read(), 'file_route': label,
                              'via_file': repr(via)[:600], 'direct': repr(direct)[:600]})
            want_n = mol.GetNumConformers() if opts.get('first', 3) == -1 else min(opts.get('first', 3), mol.GetNumConformers())
            if direct[0] == 'ok' and len(direct[1]) != want_n:
                ctx.fail('generator self-check: %d fingerprints for first=%r on %d conformers' % (len(direct[1]), opts.get('first'), mol.GetNumConformers()), {'options': repr(opts)})
            ctx.count(('cov', 'e2e_confs', tag, str(sorted(opts.items(), key=str))), True)


def _db_rows(C, fn):
    from e3fp.fingerprint.db import FingerprintDatabase
    if not os.path.exists(fn):
        return None
    db = FingerprintDatabase.load(fn)
    rows = []
    for i in range(len(db)):
        o = C._fp_obs([db[i]])[0]
        rows.append(o[:3] + (None if o[3] is None else str(o[3]),) + o[4:])
    return (db.fp_type.__name__, int(db.level), rows)


def _e2e_fprun(ctx, C, P, pipeline, env, bump):
    """e3fp.fingerprint.generate.run(params=file): every option is fetched with a typed getter after the packaged defaults
    were filled in; must equal run() with (typed defaults + the file's options) as keywords."""
    import glob
    from e3fp.fingerprint import generate as FG
    rng = ctx.rng
    files = sorted(glob.glob(os.path.join(core.REPO, 'tests', 'data', 'rand_sdf_files', '*.sdf.bz2')))
    if len(files) < 2:
        raise RuntimeError('multi-conformer test molecules not found under %s/tests/data/rand_sdf_files' % core.REPO)
    typed_defaults = dict((k, ast.literal_eval(v) if C.is_literal(v) else v) for k, v in env['dmap']['fingerprinting'].items())
    pool = dict(FP_POOL)
    pool['bits'] = [1024, 4096, 2 ** 32, 32]          # None is refused identically by both call forms ("Bits: {:d}")
    pool['level'] = [0, 1, 2, 5, -1]
    pool['first'] = [1, 2, 3]                         # the shipped files hold hundreds of conformers
    keys = sorted(pool)
    for j in range(ctx.n(6, 20)):
        # over the runs every option is set at least once to a value that is not its default
        opts = _draw_fp_opts(rng, pool, kmin=2, kmax=7, always=(keys[(2 * j) % len(keys)], keys[(2 * j + 1) % len(keys)]))
        for k in (keys[(2 * j) % len(keys)], keys[(2 * j + 1) % len(keys)]):
            alt = [v for v in pool[k] if not C.same_value(v, typed_defaults.get(k))]
            opts[k] = rng.choice(alt)
        if opts.get('level', 5) == -1 and opts.get('remove_duplicate_substructs') is False:
            opts['remove_duplicate_substructs'] = True
        sd = {'fingerprinting': opts, 'conformer_generation': {'first': 1 if opts.get('first', 3) != 1 else 2, 'seed': 3}}
        fn = os.path.join(ctx.workdir, 'cov_fprun_%d.cfg' % j)
        P.write_params(P.update_params(sd), fn)
        full = dict(typed_defaults)
        full.update(opts)
        # contradicting keywords next to params=: the file wins
        contra = {'level': 0 if full['level'] != 0 else 1, 'bits': 64, 'first': 1 if full['first'] != 1 else 2, 'counts': not full['counts'],
                  'stereo': not full['stereo'], 'radius_multiplier': 3.0, 'rdkit_invariants': not full['rdkit_invariants']}
        fs = rng.sample(files, 2)
        da, dbb = os.path.join(ctx.workdir, 'cov_fprun_%d_a.fpz' % j), os.path.join(ctx.workdir, 'cov_fprun_%d_b.fpz' % j)
        ra = C.attempt(lambda: (FG.run(fs, params=fn, db_file=da, parallel_mode='serial', **contra), _db_rows(C, da))[1])
        rb = C.attempt(lambda: (FG.run(fs, db_file=dbb, parallel_mode='serial', **full), _db_rows(C, dbb))[1])
        bump('e2e_fingerprint_run_params_file')
        env['dist']['e2e_runs'] += 1
        ctx.count(('cov', 'e2e_fprun', str(sorted(opts.items(), key=str)), tuple(os.path.basename(f) for f in fs)), True)
        if ra != rb or ra[0] != 'ok' or not ra[1] or not ra[1][2]:
            ctx.fail('fingerprint.generate.run(params=file) gives another database than run() with the same options as keywords',
                     {'sdf_files': [os.path.basename(f) for f in fs], 'options_in_file': repr(opts), 'file_text': open(fn).read(),
                      'keywords_of_the_direct_call': repr(full), 'contradicting_keywords_next_to_params': repr(contra),
                      'via_file': repr(ra)[:700], 'direct': repr(rb)[:700]})
        for f in (da, dbb):
            if os.path.exists(f):
                os.remove(f)


def _recorded(targets, call):
    """Run `call` with the module attributes in `targets` [(module, name, return value or None = call through)] replaced by
    recorders; returns [(name, keyword arguments)] in call order.  No source hook: the entry points look these names up in
    their module at call time (serial mode)."""
    rec, saved = [], []
    for mod, name, ret in targets:
        orig = getattr(mod, name)
        saved.append((mod, name, orig))

        def stub(*a, _name=name, _orig=orig, _ret=ret, **kw):
            rec.append((_name, dict(kw)))
            return _orig(*a, **kw) if _ret is None else _ret[0]
        setattr(mod, name, stub)
    try:
        call()
    finally:
        for mod, name, orig in saved:
            setattr(mod, name, orig)
    return rec


BOOL_SPELLINGS = {True: ['True', 'true', 'yes', 'on', '1', 'TRUE', 'Yes', 'ON'], False: ['False', 'false', 'no', 'off', '0', 'FALSE', 'No', 'OFF']}


def _e2e_routing(ctx, C, P, pipeline, env, bump):
    """Which typed value reaches the worker function for which option: run(params=file) against run(<keywords>), for both
    batch entry points, with the worker replaced by a recorder (so hundreds of option sets cost nothing).  Files are partly
    hand-written: booleans in every spelling getboolean accepts, ':' delimiters, comments, options in any order."""
    from e3fp.conformer import generate as CG
    from e3fp.fingerprint import generate as FG
    rng = ctx.rng
    typed_defaults = dict((k, ast.literal_eval(v) if C.is_literal(v) else v) for k, v in env['dmap']['fingerprinting'].items())
    smi_file = os.path.join(ctx.workdir, 'cov_route.smi')
    open(smi_file, 'w').write('CCO m1\nCCN m2\n')
    out_dir = os.path.join(ctx.workdir, 'cov_route_out')

    def render(sd, handwritten):
        lines = []
        secs = list(sd)
        rng.shuffle(secs)
        for s in secs:
            if handwritten and rng.random() < 0.3:
                lines.append(rng.choice(['# a comment', '; another', '']))
            lines.append('[%s]' % s)
            ks = list(sd[s])
            rng.shuffle(ks)
            for k in ks:
                v = sd[s][k]
                txt = rng.choice(BOOL_SPELLINGS[v]) if (handwritten and type(v) is bool) else str(v)
                lines.append(k + (rng.choice([' = ', '=', ': ', ' : ', '  =  ']) if handwritten else ' = ') + txt)
            lines.append('')
        return '\n'.join(lines) + '\n'

    def fval():
        return rng.choice([1.718, 1.5, 0.5, 2.0, 1e-3, 1.7182818284590453, 0.30000000000000004, 1e16, 123456.78901234567, abs(C.gen_float(rng, nonfinite=False)) or 1.0, 3.0, 1e22])

    for j in range(ctx.n(150, 1000)):
        hand = j % 2 == 1
        fn = os.path.join(ctx.workdir, 'cov_route_%d.cfg' % j)
        # ---- fingerprint.generate.run: a subset in the file, the rest from the packaged defaults
        pool = {'bits': lambda: rng.choice([1024, 4096, 2 ** 32, 32, 2048, rng.randint(1, 10 ** 6)]), 'level': lambda: rng.choice([0, 1, 2, 3, 5, -1, 7, 12]),
                'first': lambda: rng.choice([1, 2, 3, -1, 10, 250]), 'radius_multiplier': fval, 'stereo': lambda: rng.random() < 0.5, 'counts': lambda: rng.random() < 0.5,
                'include_disconnected': lambda: rng.random() < 0.5, 'rdkit_invariants': lambda: rng.random() < 0.5,
                'remove_duplicate_substructs': lambda: rng.random() < 0.5, 'exclude_floating': lambda: rng.random() < 0.5}
        keys = sorted(pool)
        chosen = set(rng.sample(keys, rng.randint(0, len(keys)))) | {keys[j % len(keys)]}
        opts = dict((k, pool[k]()) for k in sorted(chosen))
        decoy = {'first': rng.choice([1, 2, -1, 7]), 'seed': rng.randint(0, 99), 'num_conf': rng.randint(1, 9)}
        text = render({'fingerprinting': opts, 'conformer_generation': decoy, 'preprocessing': {'standardise': rng.random() < 0.5}}, hand)
        open(fn, 'w').write(text)
        full = dict(typed_defaults)
        full.update(opts)
        contra = {'level': full['level'] + 1, 'bits': full['bits'] + 1, 'first': full['first'] + 1, 'counts': not full['counts'], 'stereo': not full['stereo'],
                  'radius_multiplier': full['radius_multiplier'] + 1.0, 'rdkit_invariants': not full['rdkit_invariants'], 'include_disconnected': not full['include_disconnected'],
                  'exclude_floating': not full['exclude_floating'], 'remove_duplicate_substructs': not full['remove_duplicate_substructs']}
        tg = [(FG, 'fprints_dict_from_sdf', [False])]
        dbf = os.path.join(ctx.workdir, 'cov_route.fpz')
        a = C.attempt(lambda: _recorded(tg, lambda: FG.run(['a.sdf', 'b.sdf'], params=fn, db_file=dbf, parallel_mode='serial', **contra)))
        b = C.attempt(lambda: _recorded(tg, lambda: FG.run(['a.sdf', 'b.sdf'], db_file=dbf, parallel_mode='serial', **full)))
        bump('routing_fingerprint_run' + ('_handwritten_file' if hand else ''))
        ctx.count(('cov', 'route_fp', text), True)
        if not (_same_tree(C, a, b) and a[0] == 'ok' and len(a[1]) == 2 and all(C.same_value(a[1][0][1].get(k), v) for k, v in full.items())):
            ctx.fail('fingerprint.generate.run(params=file) hands other option values to fprints_dict_from_mol than run() with the same options as keywords',
                     {'routing': 'fingerprint', 'file_text': text, 'keywords_of_the_direct_call': repr(full), 'contradicting_keywords_next_to_params': repr(contra),
                      'via_file': repr(a[1][:1] if a[0] == 'ok' else a[1:])[:900], 'direct': repr(b[1][:1] if b[0] == 'ok' else b[1:])[:900]})
        # ---- conformer.generate.run: the user file alone (no defaults are filled in there), every option present
        cg = {'num_conf': rng.choice([-1, 1, 2, 3, 10, 50, rng.randint(1, 500)]), 'first': rng.choice([-1, 1, 2, 5, 20]), 'pool_multiplier': rng.choice([1, 2, 3, 5, 10]),
              'rmsd_cutoff': fval(), 'max_energy_diff': rng.choice([None, None, 5.0, 0.5, fval()]), 'forcefield': rng.choice(['uff', 'mmff94', 'mmff94s']),
              'seed': rng.choice([-1, 0, 42, 7, 2 ** 31 - 1, rng.randint(0, 10 ** 6)])}
        std = rng.random() < 0.5
        extra = {'out_dir': 'elsewhere', 'compress': rng.choice([0, 1, 2, None])}        # in the packaged file too; run() takes them from its keywords only
        text = render({'conformer_generation': dict(cg, **extra) if rng.random() < 0.5 else cg, 'preprocessing': {'standardise': std, 'protonate': rng.random() < 0.5},
                       'fingerprinting': {'first': rng.choice([1, 2, 3]), 'seed': 1, 'level': 2}}, hand)
        open(fn, 'w').write(text)
        contra = {'standardise': not std, 'num_conf': cg['num_conf'] + 1, 'first': cg['first'] + 1, 'pool_multiplier': cg['pool_multiplier'] + 1, 'rmsd_cutoff': cg['rmsd_cutoff'] + 1.0,
                  'max_energy_diff': 0.25, 'forcefield': 'uff' if cg['forcefield'] != 'uff' else 'mmff94', 'seed': cg['seed'] + 1}
        compress = rng.choice([0, 1, 2, None])
        tg = [(CG, 'generate_conformers', [False]), (CG, 'mol_from_smiles', None)]
        a = C.attempt(lambda: _recorded(tg, lambda: CG.run(smiles=[smi_file], params=fn, out_dir=out_dir, compress=compress, parallel_mode='serial', **contra)))
        b = C.attempt(lambda: _recorded(tg, lambda: CG.run(smiles=[smi_file], out_dir=out_dir, compress=compress, parallel_mode='serial', standardise=std, **cg)))
        bump('routing_conformer_run' + ('_handwritten_file' if hand else ''))
        ctx.count(('cov', 'route_cg', text), True)
        want = dict(cg, out_dir=out_dir, compress=compress)
        if cg['num_conf'] == 0:
            want['num_conf'] = -1
        good = _same_tree(C, a, b) and a[0] == 'ok' and len(a[1]) == 4
        if good:
            gk = [kw for n, kw in a[1] if n == 'generate_conformers']
            mk = [kw for n, kw in a[1] if n == 'mol_from_smiles']
            good = len(gk) == 2 and len(mk) == 2 and all(C.same_value(gk[0].get(k), v) for k, v in want.items()) and all(C.same_value(m.get('standardise'), std) for m in mk)
        if not good:
            ctx.fail('conformer.generate.run(params=file) hands other option values to generate_conformers / mol_from_smiles than run() with the same options as keywords',
                     {'routing': 'conformer', 'file_text': text, 'keywords_of_the_direct_call': repr(dict(cg, standardise=std)), 'contradicting_keywords_next_to_params': repr(contra),
                      'compress': compress, 'via_file': repr(a[1:])[:1200], 'direct': repr(b[1:])[:1200]})
    shutil.rmtree(out_dir, ignore_errors=True)


def _mol_obs(mol):
    import numpy as np
    return (mol.GetNumAtoms(), mol.GetNumConformers(), [np.asarray(c.GetPositions()).tobytes().hex()[:4000] for c in mol.GetConformers()])


def _dir_obs(d):
    """[(file name, observation of the molecule in it)] of an output directory of SD files"""
    from e3fp.conformer.util import mol_from_sdf
    out = []
    for f in sorted(os.listdir(d)) if os.path.isdir(d) else []:
        out.append((f, _mol_obs(mol_from_sdf(os.path.join(d, f)))))
    return out


def _e2e_confgen(ctx, C, P, pipeline, env, bump):
    from e3fp.conformer import generate as CG
    rng = ctx.rng
    keys = sorted(CG_POOL)
    for j in range(ctx.n(12, 48)):
        smi, name = SMILES[j % len(SMILES)]
        full = dict((k, rng.choice(CG_POOL[k])) for k in keys)
        standardise = rng.random() < 0.3
        tag = 'cov_cg_%d' % j
        fn = os.path.join(ctx.workdir, tag + '.cfg')
        mode = j % 4
        pl = {'smiles': smi, 'name': name}
        if mode in (0, 1):
            # a subset of the options through params_to_dicts -> confs_from_smiles / fprints_from_smiles
            opts = dict((k, full[k]) for k in rng.sample(keys, rng.randint(2, len(keys))))
            opts.setdefault('seed', full['seed'])
            if standardise:
                opts_pre = {'standardise': True}
            else:
                opts_pre = rng.choice([{}, {'standardise': False}])
            fopts = _draw_fp_opts(rng, dict((k, v) for k, v in FP_POOL.items() if k != 'first'), kmax=4)
            fopts['first'] = rng.choice([1, 2, -1])
            sd = {'conformer_generation': opts, 'fingerprinting': fopts}
            if opts_pre:
                sd['preprocessing'] = opts_pre
            P.write_params(P.update_params(sd), fn)
            direct_cg = dict(opts)
            direct_cg.update(opts_pre)
            pl.update({'file_text': open(fn).read(), 'confgen_options': repr(direct_cg), 'fingerprint_options': repr(fopts)})
            if mode == 0:
                a = C.attempt(lambda: _mol_obs(pipeline.confs_from_smiles(smi, name, confgen_params=pipeline.params_to_dicts(fn)[0])))
                b = C.attempt(lambda: _mol_obs(pipeline.confs_from_smiles(smi, name, confgen_params=dict(direct_cg))))
                what = 'conformers from confs_from_smiles via a parameter file differ from those with the same options passed directly'
            else:
                a = C.attempt(lambda: C._fp_obs(pipeline.fprints_from_smiles(smi, name, *[dict(d) for d in pipeline.params_to_dicts(fn)])))
                b = C.attempt(lambda: C._fp_obs(pipeline.fprints_from_smiles(smi, name, confgen_params=dict(direct_cg), fprint_params=dict(fopts))))
                what = 'fingerprints from fprints_from_smiles via a parameter file differ from those with the same options passed directly'
        elif mode == 2:
            # out_dir and compress through the file: generate_conformers(save=True)
            out_dir = os.path.join(ctx.workdir, tag + '-out.d')
            opts = dict((k, full[k]) for k in rng.sample(keys, rng.randint(2, len(keys))))
            opts.setdefault('seed', full['seed'])
            opts['out_dir'] = out_dir
            opts['compress'] = rng.choice([0, 1, 2, None])
            P.write_params(P.update_params({'conformer_generation': opts}), fn)
            pl.update({'file_text': open(fn).read(), 'confgen_options': repr(opts)})

            def saved(params):
                shutil.rmtree(out_dir, ignore_errors=True)
                pipeline.confs_from_smiles(smi, name, confgen_params=params, save=True)
                obs = _dir_obs(out_dir)
                shutil.rmtree(out_dir, ignore_errors=True)
                return obs
            a = C.attempt(lambda: saved(pipeline.params_to_dicts(fn)[0]))
            b = C.attempt(lambda: saved(dict(opts)))
            want_ext = {0: '.sdf', 1: '.sdf.gz', 2: '.sdf.bz2', None: '.sdf'}[opts['compress']]
            if b[0] == 'ok' and [f for f, _ in b[1]] != [name + want_ext]:
                ctx.fail('generator self-check: saved files %r for compress=%r' % ([f for f, _ in b[1]], opts['compress']), pl)
            what = 'saved conformer files (out_dir, compress from a parameter file) differ from those with the same options passed directly'
        else:
            # conformer.generate.run(params=file): typed getters on the user file alone (all options present)
            smi_file = os.path.join(ctx.workdir, tag + '.smi')
            other = SMILES[(j + 1) % len(SMILES)]
            open(smi_file, 'w').write('%s %s\n%s %s\n' % (smi, name, other[0], other[1]))
            P.write_params(P.update_params({'preprocessing': {'standardise': standardise}, 'conformer_generation': full}), fn)
            compress = rng.choice([0, 1, 2])
            contra = {'standardise': not standardise, 'num_conf': 1 if full['num_conf'] != 1 else 2, 'first': 1 if full['first'] != 1 else 2,
                      'pool_multiplier': 1 if full['pool_multiplier'] != 1 else 2, 'rmsd_cutoff': 2.5, 'max_energy_diff': 0.25,
                      'forcefield': 'uff' if full['forcefield'] != 'uff' else 'mmff94', 'seed': 99}
            o1, o2 = os.path.join(ctx.workdir, tag + '_a'), os.path.join(ctx.workdir, tag + '_b')
            pl.update({'smiles_file': open(smi_file).read(), 'file_text': open(fn).read(), 'keywords_of_the_direct_call': repr(dict(full, standardise=standardise)),
                       'contradicting_keywords_next_to_params': repr(contra), 'compress': compress})
            a = C.attempt(lambda: (CG.run(smiles=[smi_file], params=fn, out_dir=o1, compress=compress, parallel_mode='serial', **contra), _dir_obs(o1))[1])
            b = C.attempt(lambda: (CG.run(smiles=[smi_file], out_dir=o2, compress=compress, parallel_mode='serial', standardise=standardise, **full), _dir_obs(o2))[1])
            for o in (o1, o2):
                shutil.rmtree(o, ignore_errors=True)
            what = 'conformer.generate.run(params=file) writes other conformers than run() with the same options as keywords'
        bump('e2e_conformer_options:mode%d' % mode)
        env['dist']['e2e_runs'] += 1
        ctx.count(('cov', 'e2e_confgen', mode, name, pl.get('file_text')), True)
        if a != b or a[0] != 'ok' or not a[1]:
            ctx.fail(what, dict(pl, via_file=repr(a)[:500], direct=repr(b)[:500]))


# --------------------------------------------------------------------------- replay of the payloads of this module
def replay_case(ctx, C, P, pipeline, case):
    """Re-run the input of a replay file written by one of the streams above on the implementation (and on the model where
    the stream compares with it).  Returns the number of failures that reproduce, or None when the payload is not one of ours."""
    env_eval = {'__builtins__': {}, 'inf': float('inf'), 'nan': float('nan'), 'True': True, 'False': False, 'None': None}
    from e3fp.conformer import generate as CG
    from e3fp.fingerprint import generate as FG
    import glob

    def show(a, b, la='via file', lb='direct  '):
        print(' %s: %s\n %s: %s\n -> %s' % (la, repr(a)[:500], lb, repr(b)[:500], 'equal' if a == b and a[0] == 'ok' else 'DIFFERENT / failed'))
        return int(not (a == b and a[0] == 'ok'))

    if case.get('stream') == 'api_read':
        n = [0]

        def fail(what, payload):
            n[0] += 1
            print('  FAILS: %s\n    %s' % (what, dict((k, v) for k, v in payload.items() if k not in ('config', 'file_text', 'stream'))))
        conf = C._conf_from_json(case['config'])
        print('configuration: %s' % case['config'])
        _api_read_one(C, P, pipeline, conf, os.path.join(ctx.workdir, 'rp_read.cfg'), lambda *a: None, fail)
        print(' every way of handing the file / a parser object to read_params, params_to_sections_dict, params_to_dicts: %s' % ('%d difference(s)' % n[0] if n[0] else 'all agree'))
        return n[0]
    if 'base_config' in case:
        base, conf = C._conf_from_json(case['base_config']), C._conf_from_json(case['config'])
        form, fill = case['call_form'], case['fill_defaults']
        bfn, ofn = os.path.join(ctx.workdir, 'rp_base.cfg'), os.path.join(ctx.workdir, 'rp_upd.cfg')
        P.write_params(P.update_params(dict((s, dict(kv)) for s, kv in base)), bfn)
        bt = open(bfn).read()
        sd = dict((s, dict(kv)) for s, kv in conf)

        def upd():
            if form == 'sd_file':
                cp = P.update_params(sd, params=bfn, fill_defaults=fill)
            elif form == 'sd_file_positional':
                cp = P.update_params(sd, bfn, None, fill)
            elif form == 'sd_obj':
                cp = P.update_params(sd, params=P.read_params(bfn, fill_defaults=fill), fill_defaults=not fill)
            else:
                cp = bfn if form != 'single_obj' else P.read_params(bfn, fill_defaults=fill)
                for j, (s, kv) in enumerate(conf):
                    if form == 'single_file_positional':
                        cp = P.update_params(dict(kv), cp, s, fill)
                    else:
                        cp = P.update_params(dict(kv), params=cp, section_name=s, fill_defaults=(fill if j == 0 else not fill))
            items = raw_items(cp)
            P.write_params(cp, ofn)
            return items, open(ofn).read()
        r = C.attempt(upd)
        print('base file:\n%s\nupdate_params form %s, fill_defaults=%s, with %s\n -> %s' % (bt, form, fill, case['config'], repr(r[1:])[:1500]))
        conf_lit = core.listlit(['(%s, %s)' % (S(s), C.dict_lit(kv, C.value_lit)) for s, kv in conf])
        m = 'rbind (read_params defaults_cfg_text %s (Some bt)) (fun b => rbind (update_all b %s) (fun c => Ok (c, render c)))' % (core.blit(fill), conf_lit)
        return int(not C._replay_eval(ctx, 'update on a user file', 'let bt := %s in result_match (pair_match cfg_eqb String.eqb) (%s) %s'
                                      % (S(bt), m, C.res_lit(r, lambda x: '(%s, %s)' % (C.cfg_lit(x[0]), S(x[1])))), 'let bt := %s in %s' % (S(bt), m)))
    if 'routing' in case:
        fn = os.path.join(ctx.workdir, 'rp.cfg')
        open(fn, 'w').write(case['file_text'])
        full = eval(case['keywords_of_the_direct_call'], env_eval, {})
        contra = eval(case['contradicting_keywords_next_to_params'], env_eval, {})
        print('parameter file:\n%s\nkeywords of the direct call: %r' % (case['file_text'], full))
        if case['routing'] == 'fingerprint':
            tg = [(FG, 'fprints_dict_from_sdf', [False])]
            dbf = os.path.join(ctx.workdir, 'rp.fpz')
            a = C.attempt(lambda: _recorded(tg, lambda: FG.run(['a.sdf'], params=fn, db_file=dbf, parallel_mode='serial', **contra)))
            b = C.attempt(lambda: _recorded(tg, lambda: FG.run(['a.sdf'], db_file=dbf, parallel_mode='serial', **full)))
        else:
            sf = os.path.join(ctx.workdir, 'rp.smi')
            open(sf, 'w').write('CCO m1\n')
            od = os.path.join(ctx.workdir, 'rp_out')
            tg = [(CG, 'generate_conformers', [False]), (CG, 'mol_from_smiles', None)]
            a = C.attempt(lambda: _recorded(tg, lambda: CG.run(smiles=[sf], params=fn, out_dir=od, compress=case['compress'], parallel_mode='serial', **contra)))
            b = C.attempt(lambda: _recorded(tg, lambda: CG.run(smiles=[sf], out_dir=od, compress=case['compress'], parallel_mode='serial', **full)))
        print(' keyword arguments handed to the worker\n  via file: %s\n  direct  : %s' % (repr(a[1:])[:900], repr(b[1:])[:900]))
        ok = _same_tree(C, a, b) and a[0] == 'ok'
        print(' -> %s' % ('equal' if ok else 'DIFFERENT / failed'))
        return int(not ok)
    if 'sdf_files' in case and 'keywords_of_the_direct_call' in case:
        fn = os.path.join(ctx.workdir, 'rp.cfg')
        open(fn, 'w').write(case['file_text'])
        full = eval(case['keywords_of_the_direct_call'], env_eval, {})
        contra = eval(case['contradicting_keywords_next_to_params'], env_eval, {})
        fs = [glob.glob(os.path.join(core.REPO, 'tests', 'data', '*', f))[0] for f in case['sdf_files']]
        da, dbb = os.path.join(ctx.workdir, 'rp_a.fpz'), os.path.join(ctx.workdir, 'rp_b.fpz')
        print('parameter file:\n%s\nkeywords of the direct call: %r' % (case['file_text'], full))
        ra = C.attempt(lambda: (FG.run(fs, params=fn, db_file=da, parallel_mode='serial', **contra), _db_rows(C, da))[1])
        rb = C.attempt(lambda: (FG.run(fs, db_file=dbb, parallel_mode='serial', **full), _db_rows(C, dbb))[1])
        return show(ra, rb)
    if 'molecule' in case and 'file_route' in case:
        fn = os.path.join(ctx.workdir, 'rp.cfg')
        open(fn, 'w').write(case['file_text'])
        opts = eval(case['options'], env_eval, {})
        mol = dict(_multi_conf_mols(ctx, case.get('conformers', 3)))[case['molecule']]
        print('parameter file:\n%s\noptions: %r, molecule %s with %d conformers' % (case['file_text'], opts, case['molecule'], mol.GetNumConformers()))
        a = C.attempt(lambda: C._fp_obs(pipeline.fprints_from_mol(mol, fprint_params=pipeline.params_to_dicts(fn)[1])))
        b = C.attempt(lambda: C._fp_obs(pipeline.fprints_from_mol(mol, fprint_params=dict(opts))))
        return show(a, b)
    if 'smiles' in case and 'file_text' in case:
        fn = os.path.join(ctx.workdir, 'rp.cfg')
        open(fn, 'w').write(case['file_text'])
        smi, name = case['smiles'], case['name']
        print('parameter file:\n%s' % case['file_text'])
        if 'smiles_file' in case:
            sf = os.path.join(ctx.workdir, 'rp.smi')
            open(sf, 'w').write(case['smiles_file'])
            full = eval(case['keywords_of_the_direct_call'], env_eval, {})
            contra = eval(case['contradicting_keywords_next_to_params'], env_eval, {})
            o1, o2 = os.path.join(ctx.workdir, 'rp_a'), os.path.join(ctx.workdir, 'rp_b')
            a = C.attempt(lambda: (CG.run(smiles=[sf], params=fn, out_dir=o1, compress=case['compress'], parallel_mode='serial', **contra), _dir_obs(o1))[1])
            b = C.attempt(lambda: (CG.run(smiles=[sf], out_dir=o2, compress=case['compress'], parallel_mode='serial', **full), _dir_obs(o2))[1])
            return show(a, b)
        cgo = eval(case['confgen_options'], env_eval, {})
        if 'out_dir' in cgo:
            out_dir = os.path.join(ctx.workdir, 'rp-out.d')
            open(fn, 'w').write(case['file_text'].replace(cgo['out_dir'], out_dir))
            cgo['out_dir'] = out_dir

            def saved(params):
                shutil.rmtree(out_dir, ignore_errors=True)
                pipeline.confs_from_smiles(smi, name, confgen_params=params, save=True)
                return _dir_obs(out_dir)
            return show(C.attempt(lambda: saved(pipeline.params_to_dicts(fn)[0])), C.attempt(lambda: saved(dict(cgo))))
        fo = eval(case['fingerprint_options'], env_eval, {})
        n = show(C.attempt(lambda: _mol_obs(pipeline.confs_from_smiles(smi, name, confgen_params=pipeline.params_to_dicts(fn)[0]))),
                 C.attempt(lambda: _mol_obs(pipeline.confs_from_smiles(smi, name, confgen_params=dict(cgo)))), 'conformers via file', 'conformers direct  ')
        n += show(C.attempt(lambda: C._fp_obs(pipeline.fprints_from_smiles(smi, name, *[dict(d) for d in pipeline.params_to_dicts(fn)]))),
                  C.attempt(lambda: C._fp_obs(pipeline.fprints_from_smiles(smi, name, confgen_params=dict(cgo), fprint_params=dict(fo)))), 'fingerprints via file', 'fingerprints direct  ')
        return n
    if 'raw_value' in case:
        sent = object()
        cp = P.update_params({'k': case['raw_value']}, section_name='fingerprinting')
        pyt = {'int': int, 'float': float, 'bool': bool, 'str': str}.get(case.get('dtype'), str)
        r = C.attempt(lambda: P.get_value(cp, 'fingerprinting', 'k', dtype=pyt, fallback=sent))
        r0 = C.attempt(lambda: P.get_value(cp, 'fingerprinting', 'k', dtype=pyt))
        ra = C.attempt(lambda: P.get_value(cp, 'fingerprinting', 'k', dtype=pyt, auto=True, fallback=sent))
        print('raw value %r as %s: with a fallback object -> %s; without -> %r; auto -> %r (recorded: %s, expected %s)'
              % (case['raw_value'], pyt.__name__, 'the fallback object' if r[0] == 'ok' and r[1] is sent else repr(r[1:]), r0[1:], ra[1:], case.get('got'), case.get('expected')))
        try:
            want = {int: int, float: float, str: str}[pyt](case['raw_value']) if pyt is not bool else \
                {'1': True, 'yes': True, 'true': True, 'on': True, '0': False, 'no': False, 'false': False, 'off': False}.get(case['raw_value'].lower(), sent)
        except ValueError:
            want = sent
        ok = r[0] == 'ok' and (r[1] is sent if want is sent else C.same_value(r[1], want)) and r0[0] == 'ok' and (r0[1] is None if want is sent else C.same_value(r0[1], want))
        return int(not ok)
    if 'numpy_type' in case:
        import numpy as np
        want = eval(case['value'], env_eval, {})
        v = getattr(np, case['numpy_type'])(want)
        fn = os.path.join(ctx.workdir, 'rp.cfg')
        r = C.attempt(lambda: (P.write_params(P.update_params({'x': v}, section_name='fingerprinting'), fn), P.params_to_sections_dict(fn)['fingerprinting']['x'])[1])
        print('numpy.%s value %r written and read back: %r' % (case['numpy_type'], v, r[1:]))
        return int(not (r[0] == 'ok' and C.same_value(r[1], want)))
    if 'call' in case and 'impl_raw_items_or_error' in case:
        missing = os.path.join(ctx.workdir, 'no', 'such', 'file.cfg')
        bad = 0
        for fill in (False, True):
            for arg in (None, missing):
                r = C.attempt(lambda: raw_items(P.read_params(arg, fill_defaults=fill)))
                print('read_params(%s, fill_defaults=%s) -> %s' % ('None' if arg is None else '<missing file>', fill, repr(r[1:])[:600]))
                bad += not C._replay_eval(ctx, 'read without a user file', 'result_match cfg_eqb (read_params defaults_cfg_text %s None) %s' % (core.blit(fill), C.res_lit(r, C.cfg_lit)),
                                          'read_params defaults_cfg_text %s None' % core.blit(fill))
        return bad
    return None
