"""Confirm a seeded change and run checks against it.
usage: selftest/confirm_seed.py <ID> <src_dir_with_seeded/> <check ids...>
Copies patch.diff/demo.py/meta.json to /verif/seeded/<ID>/, then in a fresh scratch worktree of /repo:
 (1) applies the patch, runs the baseline test command, compares the passing set with BASELINE.json's stable_pass;
 (2) runs demo.py against the changed tree (must exit 1) and against /repo (must exit 0);
 (3) runs the given checks with VERIF_REPO=<worktree> and records which fire."""
import json, os, shutil, subprocess, sys, xml.etree.ElementTree as ET

tag, src = sys.argv[1], sys.argv[2]      # tag = <ID> or <ID>-<n> (second and later changes for one property)
pid = tag.split('-')[0]
checks = sys.argv[3:]
dst = '/verif/seeded/%s' % tag
os.makedirs(dst, exist_ok=True)
for f in ('patch.diff', 'demo.py', 'meta.json'):
    if not os.path.exists(os.path.join(dst, f)) or f == 'patch.diff':
        shutil.copy(os.path.join(src, 'seeded', f), os.path.join(dst, f))
wt = '/tmp/confirm_%s_%d' % (tag, os.getpid())
subprocess.check_call(['git', '-C', '/repo', 'worktree', 'add', '-q', '--detach', wt, 'HEAD'])
meta = json.load(open(os.path.join(dst, 'meta.json')))
try:
    if subprocess.call(['git', '-C', wt, 'apply', os.path.join(dst, 'patch.diff')]) != 0:
        subprocess.check_call(['git', '-C', wt, 'apply', '--3way', os.path.join(dst, 'patch.diff')])
    env = dict(os.environ, NUMBA_CACHE_DIR='/tmp/nbc_confirm_%s' % pid, PYTHONPATH=os.path.join(wt, 'src'))
    junit = '/tmp/confirm_%s.xml' % pid
    subprocess.run(['/venv/bin/python', '-m', 'pytest', '-q', '-p', 'no:cacheprovider', '--timeout=900', '--continue-on-collection-errors',
                    '--junitxml=' + junit], cwd=wt, env=env, stdout=subprocess.DEVNULL, stderr=subprocess.DEVNULL)
    passed = set()
    for tc in ET.parse(junit).iter('testcase'):
        if not any(c.tag in ('failure', 'error', 'skipped') for c in tc):
            passed.add(tc.get('classname') + '::' + tc.get('name'))
    base = json.load(open('/root/.vp/BASELINE.json'))['stable_pass']
    missing = [t for t in base if t not in passed]
    r_changed = subprocess.run(['/venv/bin/python', os.path.join(dst, 'demo.py')], env=dict(env, E3FP_SRC=os.path.join(wt, 'src')), stdout=subprocess.PIPE, stderr=subprocess.STDOUT, text=True)
    r_clean = subprocess.run(['/venv/bin/python', os.path.join(dst, 'demo.py')], env=dict(env, E3FP_SRC='/repo/src', PYTHONPATH='/repo/src'), stdout=subprocess.PIPE, stderr=subprocess.STDOUT, text=True)
    res = {}
    for c in checks:
        r = subprocess.run(['/verif/bin/check', c], env=dict(os.environ, VERIF_REPO=wt), stdout=subprocess.PIPE, stderr=subprocess.STDOUT, text=True)
        lines = [l for l in r.stdout.split('\n') if l.startswith('VIOLATION')]
        res[c] = {'exit': r.returncode, 'fired': r.returncode != 0 and any('property=%s' % c in l for l in lines), 'first_violation': lines[:1]}
        print(c, res[c])
    meta['confirmed'] = {'baseline_tests_still_passing': len(base) - len(missing), 'baseline_tests_broken': missing, 'tests_passed_with_change': len(passed),
                         'demo_on_changed_exit': r_changed.returncode, 'demo_on_changed_tail': r_changed.stdout[-300:],
                         'demo_on_clean_exit': r_clean.returncode, 'checks_run': res,
                         'how': 'selftest/confirm_seed.py in a scratch worktree of /repo HEAD %s' % subprocess.check_output(['git', '-C', '/repo', 'rev-parse', '--short', 'HEAD']).decode().strip()}
    json.dump(meta, open(os.path.join(dst, 'meta.json'), 'w'), indent=1)
    print('baseline broken:', missing, 'demo changed/clean exit:', r_changed.returncode, r_clean.returncode)
finally:
    subprocess.call(['git', '-C', '/repo', 'worktree', 'remove', '--force', wt])
    shutil.rmtree(wt, ignore_errors=True)
