EDITS = [("src/e3fp/fingerprint/fprinter.py", "if (x.GetAtomicNum() > 1 and x.GetDegree() > 0)", "if (x.GetAtomicNum() > 1 and x.GetDegree() >= 0)")]
EXPECT = 'fire'
PROPS = ['C18', 'C02']
