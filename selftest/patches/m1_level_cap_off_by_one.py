EDITS = [("src/e3fp/fingerprint/fprinter.py", "if self.current_level >= self.level and self.level != -1:", "if self.current_level > self.level and self.level != -1:")]
EXPECT = 'fire'
PROPS = ['C12', 'C02']
