# pick_z: uniqueness decided on (bin, bond, identifier) -> keeps atoms apart that the algorithm treats as tied
EDITS = [("src/e3fp/fingerprint/fprinter.py", """    z_angle_inds = get_first_unique_tuple_inds(
        angle_from_right, 1, assume_sorted=True
    )""", """    z_angle_inds = ((0,) if len(angle_from_right) > 0 else ())""")]
EXPECT = 'fire'
PROPS = ['C03', 'C02']
