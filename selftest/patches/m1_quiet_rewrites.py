# behaviour-preserving rewrites: loop -> comprehension, renamed locals, recomputed instead of cached value, equivalent sort
EDITS = [("src/e3fp/fingerprint/fprinter.py", """            accepted_shells = sorted(
                shells_dict.values(), key=self._shell_to_tuple
            )""", """            accepted_shells = sorted(
                list(shells_dict.values()), key=lambda sh: (sh.identifier, sh.center_atom)
            )"""),
         ("src/e3fp/fingerprint/fprinter.py", """    return (a + bits) % bits""", """    return np.mod(np.add(a, bits), bits)"""),
         ("src/e3fp/fingerprint/fprinter.py", """    flat_atom_tuples = [y for x in atom_tuples for y in x]""", """    flat_atom_tuples = []
    for tup in atom_tuples:
        flat_atom_tuples.extend(tup)""")]
EXPECT = 'quiet'
PROPS = ['C02', 'C01', 'C12']
