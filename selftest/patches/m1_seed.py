EDITS = [("src/e3fp/fingerprint/fprinter.py", "MMH3_SEED = 0", "MMH3_SEED = 1")]
EXPECT = 'fire'
PROPS = ['C02']
