EDITS = [("src/e3fp/fingerprint/fprinter.py", """    Chem.BondType.DOUBLE: 2,
    Chem.BondType.TRIPLE: 3,""", """    Chem.BondType.DOUBLE: 3,
    Chem.BondType.TRIPLE: 2,""")]
EXPECT = 'fire'
PROPS = ['C02']
