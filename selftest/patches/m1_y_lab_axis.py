# when no unique neighbour exists and the mean is too short, fall back to the lab y axis instead of "no y"
EDITS = [("src/e3fp/fingerprint/fprinter.py", """        if np.linalg.norm(y) < y_precision:
            return None, None""", """        if np.linalg.norm(y) < y_precision:
            return np.array([0.0, 1.0, 0.0]), None""")]
EXPECT = 'fire'
PROPS = ['C01', 'C02']
