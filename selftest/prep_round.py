"""Prepare scratch directories for a seeded round: selftest/prep_round.py <round-tag> <ID>...
For each property: /tmp/<round-tag>_<ID>/{wt (scratch worktree of /repo HEAD), PROPERTY.txt, seeded/}.  PROPERTY.txt holds the property
text (from properties.jsonl) and one line per earlier seeded change (their own summaries), nothing else from /verif.
Prints the prompt to give to each fresh sub-agent (selftest/SEED_PROMPT.txt with the paths filled in)."""
import json, os, subprocess, sys, glob
tag, ids = sys.argv[1], sys.argv[2:]
props = {json.loads(l)['id']: json.loads(l) for l in open('/verif/properties.jsonl')}
tmpl = open('/verif/selftest/SEED_PROMPT.txt').read()
for pid in ids:
    base = '/tmp/%s_%s' % (tag, pid)
    os.makedirs(base + '/seeded', exist_ok=True)
    if not os.path.exists(base + '/wt'):
        subprocess.check_call(['git', '-C', '/repo', 'worktree', 'add', '-q', '--detach', base + '/wt', 'HEAD'])
    p = props[pid]
    lines = ['PROPERTY %s' % pid, '']
    for k, v in p.items():
        if k == 'id':
            continue
        lines.append('%s: %s' % (k, v if isinstance(v, str) else json.dumps(v, indent=1)))
        lines.append('')
    lines.append('Earlier changes written against this property (do something different: another clause, function or input class):')
    for m in sorted(glob.glob('/verif/seeded/%s*/meta.json' % pid)):
        if os.path.basename(os.path.dirname(m)).split('-')[0] != pid:
            continue
        try:
            lines.append('- ' + json.load(open(m)).get('summary', '')[:400].replace('\n', ' '))
        except Exception:
            pass
    open(base + '/PROPERTY.txt', 'w').write('\n'.join(lines) + '\n')
    open(base + '/PROMPT.txt', 'w').write(tmpl.format(base=base, pid=pid))
    print(base)
