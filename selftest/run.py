"""Self-test of the checks: apply a source mutation (or a behaviour-preserving rewrite) to a scratch worktree of /repo and
run a check against it with VERIF_REPO.  usage: selftest/run.py <patch-name> <ID> [<ID> ...]   |   selftest/run.py --all
Patches live in selftest/patches/<name>.py as a list EDITS = [(relative path, old, new)], EXPECT = 'fire' | 'quiet', PROPS = [...]"""
import importlib.util
import os
import shutil
import subprocess
import sys

HERE = os.path.dirname(os.path.abspath(__file__))
VERIF = os.path.dirname(HERE)


def load(name):
    spec = importlib.util.spec_from_file_location(name, os.path.join(HERE, 'patches', name + '.py'))
    m = importlib.util.module_from_spec(spec)
    spec.loader.exec_module(m)
    return m


def run_one(name, props=None):
    m = load(name)
    wt = '/tmp/selftest_%s_%d' % (name, os.getpid())
    subprocess.check_call(['git', '-C', '/repo', 'worktree', 'add', '-q', '--detach', wt, 'HEAD'])
    results = []
    try:
        for rel, old, new in m.EDITS:
            p = os.path.join(wt, rel)
            s = open(p).read()
            assert s.count(old) == 1, (name, rel, s.count(old))
            open(p, 'w').write(s.replace(old, new))
        for pid in (props or m.PROPS):
            env = dict(os.environ, VERIF_REPO=wt)
            r = subprocess.run([os.path.join(VERIF, 'bin', 'check'), pid], env=env, stdout=subprocess.PIPE, stderr=subprocess.STDOUT, text=True)
            fired = r.returncode != 0 and 'VIOLATION property=%s' % pid in r.stdout
            ok = fired if m.EXPECT == 'fire' else (r.returncode == 0)
            line = [l for l in r.stdout.split('\n') if l.startswith('VIOLATION')][:1]
            results.append((name, pid, m.EXPECT, 'OK' if ok else 'MISSED' if m.EXPECT == 'fire' else 'FALSE-ALARM', line[0] if line else ''))
            print('%-28s %-4s expect=%-5s -> %s %s' % results[-1])
            sys.stdout.flush()
    finally:
        subprocess.call(['git', '-C', '/repo', 'worktree', 'remove', '--force', wt])
        shutil.rmtree(wt, ignore_errors=True)
    return results


if __name__ == '__main__':
    if sys.argv[1] == '--all':
        names = sorted(f[:-3] for f in os.listdir(os.path.join(HERE, 'patches')) if f.endswith('.py'))
        bad = 0
        for n in names:
            bad += sum(1 for r in run_one(n) if r[3] != 'OK')
        sys.exit(1 if bad else 0)
    run_one(sys.argv[1], sys.argv[2:] or None)
