"""Run checks against a behaviour-preserving change; none may fire.
usage: selftest/run_benign.py <tag> <dir with out/patch.diff + out/notes.md | -> <check ids...>
Copies the patch to /verif/benign/<tag>/ (unless '-' : re-run the stored one), applies it in a scratch worktree of /repo,
runs the checks with VERIF_REPO=<worktree> (3 in parallel) and records in /verif/benign/<tag>/result.json which ones stayed quiet."""
import json, os, shutil, subprocess, sys
from concurrent.futures import ThreadPoolExecutor

tag, src, checks = sys.argv[1], sys.argv[2], sys.argv[3:]
dst = '/verif/benign/%s' % tag
os.makedirs(dst, exist_ok=True)
if src != '-':
    shutil.copy(os.path.join(src, 'out', 'patch.diff'), os.path.join(dst, 'patch.diff'))
    if os.path.exists(os.path.join(src, 'out', 'notes.md')):
        shutil.copy(os.path.join(src, 'out', 'notes.md'), os.path.join(dst, 'notes.md'))
wt = '/tmp/benign_run_%s_%d' % (tag, os.getpid())
subprocess.check_call(['git', '-C', '/repo', 'worktree', 'add', '-q', '--detach', wt, 'HEAD'])
res = {}
try:
    if subprocess.call(['git', '-C', wt, 'apply', os.path.join(dst, 'patch.diff')]) != 0:
        subprocess.check_call(['git', '-C', wt, 'apply', '--3way', os.path.join(dst, 'patch.diff')])

    def one(c):
        r = subprocess.run(['/verif/bin/check', c], env=dict(os.environ, VERIF_REPO=wt), stdout=subprocess.PIPE, stderr=subprocess.STDOUT, text=True)
        lines = [l for l in r.stdout.split('\n') if l.startswith('VIOLATION')]
        summ = [l for l in r.stdout.split('\n') if l.startswith('%s quick' % c) or l.startswith('%s thorough' % c)]
        return c, {'exit': r.returncode, 'quiet': r.returncode == 0 and not lines, 'violations': lines[:3], 'summary': summ[-1:] }
    with ThreadPoolExecutor(3) as ex:
        for c, v in ex.map(one, checks):
            res[c] = v
            print(c, v)
finally:
    subprocess.call(['git', '-C', '/repo', 'worktree', 'remove', '--force', wt])
    shutil.rmtree(wt, ignore_errors=True)
old = {}
p = os.path.join(dst, 'result.json')
if os.path.exists(p):
    old = json.load(open(p)).get('checks', {})
old.update(res)
json.dump({'tag': tag, 'repo_head': subprocess.check_output(['git', '-C', '/repo', 'rev-parse', '--short', 'HEAD']).decode().strip(), 'checks': old},
          open(p, 'w'), indent=1)
print('NOISY:', [c for c, v in res.items() if not v['quiet']])
