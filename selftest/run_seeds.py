"""Regression over all seeded changes: apply seeded/<tag>/patch.diff to a scratch worktree of /repo HEAD and run the property's
check against it (VERIF_REPO).  usage: selftest/run_seeds.py [tag ...]   Prints one line per seed; exit 1 if any is missed."""
import json, os, shutil, subprocess, sys
tags = sys.argv[1:] or sorted(os.listdir('/verif/seeded'))
missed = []
for tag in tags:
    pid = tag.split('-')[0]
    wt = '/tmp/seedrun_%s_%d' % (tag, os.getpid())
    subprocess.check_call(['git', '-C', '/repo', 'worktree', 'add', '-q', '--detach', wt, 'HEAD'])
    try:
        r = subprocess.run(['git', '-C', wt, 'apply', '--3way', '/verif/seeded/%s/patch.diff' % tag], stdout=subprocess.PIPE, stderr=subprocess.STDOUT, text=True)
        if r.returncode != 0:
            print('%-7s patch does not apply to the current HEAD: %s' % (tag, r.stdout.strip().split('\n')[-1][:100])); continue
        c = subprocess.run(['/verif/bin/check', pid], env=dict(os.environ, VERIF_REPO=wt), stdout=subprocess.PIPE, stderr=subprocess.STDOUT, text=True)
        fired = c.returncode != 0 and ('VIOLATION property=%s' % pid) in c.stdout
        print('%-7s %s' % (tag, 'caught' if fired else 'MISSED')); sys.stdout.flush()
        if not fired:
            missed.append(tag)
    finally:
        subprocess.call(['git', '-C', '/repo', 'worktree', 'remove', '--force', wt])
        shutil.rmtree(wt, ignore_errors=True)
print('missed:', missed)
sys.exit(1 if missed else 0)
