"""Regression over all seeded changes: apply seeded/<tag>/patch.diff to a scratch worktree of /repo HEAD and run the property's
check against it (VERIF_REPO).  usage: selftest/run_seeds.py [tag ...]   Prints one line per seed; exit 1 if any is missed."""
import json, os, shutil, subprocess, sys
tags = sys.argv[1:] or sorted(t for t in os.listdir('/verif/seeded') if os.path.isdir('/verif/seeded/' + t))
missed = []
results = {}
for tag in tags:
    pid = tag.split('-')[0]
    wt = '/tmp/seedrun_%s_%d' % (tag, os.getpid())
    subprocess.check_call(['git', '-C', '/repo', 'worktree', 'add', '-q', '--detach', wt, 'HEAD'])
    try:
        r = subprocess.run(['git', '-C', wt, 'apply', '--3way', '/verif/seeded/%s/patch.diff' % tag], stdout=subprocess.PIPE, stderr=subprocess.STDOUT, text=True)
        if r.returncode != 0:
            print('%-7s patch does not apply to the current HEAD: %s' % (tag, r.stdout.strip().split('\n')[-1][:100]))
            results[tag] = {'verdict': 'patch-does-not-apply'}
            missed.append(tag)
            continue
        c = subprocess.run(['/verif/bin/check', pid], env=dict(os.environ, VERIF_REPO=wt), stdout=subprocess.PIPE, stderr=subprocess.STDOUT, text=True)
        vio = [l for l in c.stdout.split('\n') if l.startswith('VIOLATION property=%s' % pid)]
        with_input = [l for l in vio if not l.rstrip().endswith('no-failing-input-found')]
        fired = c.returncode != 0 and bool(vio)
        results[tag] = {'verdict': 'caught' if fired else 'MISSED', 'exit': c.returncode, 'violations': len(vio), 'with_concrete_input': len(with_input),
                        'first': vio[:1], 'what': [l.strip()[:200] for l in c.stdout.split('\n') if l.startswith('  ')][:1],
                        'summary': [l for l in c.stdout.split('\n') if ' quick: ' in l][-1:]}
        print('%-7s %s (%d violation lines, %d with a concrete input)' % (tag, 'caught' if fired else 'MISSED', len(vio), len(with_input))); sys.stdout.flush()
        if not fired:
            missed.append(tag)
    finally:
        subprocess.call(['git', '-C', '/repo', 'worktree', 'remove', '--force', wt])
        shutil.rmtree(wt, ignore_errors=True)
head = subprocess.check_output(['git', '-C', '/repo', 'rev-parse', '--short', 'HEAD']).decode().strip()
for t, r in results.items():
    json.dump(dict(r, repo_head=head), open('/verif/seeded/%s/last_regression.json' % t, 'w'), indent=1, sort_keys=True)
allr = {}
for t in sorted(os.listdir('/verif/seeded')):
    f = '/verif/seeded/%s/last_regression.json' % t
    if os.path.exists(f):
        allr[t] = json.load(open(f))
json.dump(allr, open('/verif/seeded/RESULTS.json', 'w'), indent=1, sort_keys=True)
print('missed:', missed)
sys.exit(1 if missed else 0)
